"""C09 - equivalence conversions are mutually inverse, pure, and match their formulas.

Oracle: vf/ref/equivs.py (the nine formulas in SI, longdouble) with the library's own constants read off
unyt.physical_constants (value + unit string, scaled by vf/ref/uexpr+defs) and input/target units scaled by
vf/ref/uexpr+defs.  Seven sub-monitors: formula, unit label, purity of the copying forms, in-place == copy,
to_value == to().d, there-and-back, via-intermediate == direct; plus refusal (InvalidUnitEquivalence) of uncovered
requests and has_equivalent/list_equivalencies against the reference membership table.

Special values in the DATA are a workload dimension of their own (vf/gen/c09_special.py: exact zeros, -0.0, negative numbers, +-inf, NaN,
numbers next to the under/overflow threshold, numbers on/beyond a domain edge - as 0-d quantity, size-1 array, whole array, or mixed with
ordinary elements at the first / last / middle / every other position) through every direction and every call door, judged element by
element against vf/ref/c09_ieee.py (the published formula evaluated by IEEE arithmetic in several spellings; unjudged where they disagree),
plus: ordinary neighbours vs an all-ordinary twin, repeat-call determinism under heap poisoning (vf/monitors/c09_heap.py), in-place vs
copy on every element, to_value, there-and-back and via-intermediate against the formulas applied in turn.
"""
import contextlib
import io
import itertools
import numpy as np
from vf import core
from vf.ref import defs, dims, names, uexpr, equivs
from vf.ref import c09_ieee as ieee
from vf.gen import c09_registries as regs
from vf.gen import c09_special as spg
from vf.monitors import c09_heap as heap
from .common import chunks, snap, TAINTED

RULE = ("one evaluation = one sub-monitor verdict on one real call (or call pair): value vs the SI formula, result unit vs requested unit, "
        "input snapshot before/after a copying call, in-place result vs copying result, to_value vs to().d, there-and-back, "
        "via-intermediate vs direct, refusal of an uncovered (equivalence, from-dimension, to-dimension) request, has_equivalent/"
        "list_equivalencies vs the reference membership.  distinct cell = (sub-monitor, equivalence, from-kind, to-kind, entry point, "
        "dtype, container kind) for call-level monitors and (formula, equivalence, from-kind, to-kind, input unit, target unit) for the "
        "unit grid, counted only for non-zero finite inputs inside the equivalence's domain; every call-level monitor is evaluated both on operands of "
        "the default registry and on operands bound to a fresh non-default registry (cell gets 'reg=<registry class>').  special-data family: one "
        "evaluation = one sub-monitor verdict on one real call on data holding special elements (element-wise formula classes, purity, unit, "
        "determinism of a repeated call, neighbours vs the all-ordinary twin, in-place vs copy, to_value, there-and-back, path); distinct cell = "
        "('special-<monitor>', entry point, equivalence, from-kind, to-kind, dtype, container kind, data class, placement)")
ASSUMPTIONS = (
    "vf/ref/equivs.py: E=kT; E=mc^2; E=h nu=hc/lambda=hc k; gamma=1/sqrt(1-v^2/c^2); R=2GM/c^2; lambda=h/(mc); rho=mu mH n; "
    "E=kT=mu mH cs^2/gamma; F=sigma T^4 - evaluated in longdouble",
    "the library's own constants = unyt.physical_constants.{boltzmann_constant,speed_of_light,planck_constant,mass_hydrogen,"
    "gravitational_constant,stefan_boltzmann_constant}_mks, read as value x unit string (scaled by vf/ref); their published values are C15's subject",
    "unit scales come from vf/ref/defs.py; non-exact table units widen the formula tolerance by their C02 tolerance class; units whose table "
    "value is a listed C02 finding (Tsun, Mearth, ly, mp) are not used",
    "error bounds: 64 eps x condition number of the map (gamma^2 for v->gamma, 1+1/(gamma^2-1) for gamma->v, 4 for T->F) for "
    "the formula, 128 eps x round-trip amplification for there-and-back (not judged where that bound exceeds 25% of the value: gamma -> v -> gamma "
    "for huge gamma), 256 eps x condition for via-intermediate; the input unit's tolerance class is amplified by the condition number; never wall-clock",
    "eps is float32's when the input is float32 (the library may work in the input's precision although it delivers float64), when the result is "
    "float32, or for same-dimension conversions of 4-byte data; integer inputs are exact numbers and are judged with float64 eps",
    "integer inputs form two input classes: x**degree of the formula (v^2, cs^2, gamma^2, T^4) fits the dtype, or not ('int-pow-overflow' in the key); "
    "both are judged, the class only separates the mechanism keys",
    "a failure shared by all copying (all in-place, all) entry points of one case is keyed once with scope all-copying-forms (all-in-place-forms, "
    "all-forms) instead of once per entry point; a failure of a single entry point keeps the entry point's name",
    "there-and-back, via-intermediate and in-place-vs-copy are evaluated only on cases whose forward copying conversion matched the formula (a "
    "forward failure is already reported by the formula monitor)",
    "a covered in-place request that raises on an input unit whose factors cancel a base dimension (km/m, s/min, km/s*yr ...) is keyed per "
    "equivalence with the input class 'self-cancelling-input-unit' instead of per direction",
    "'same numbers' of in-place vs copying form: 8 eps x condition in the narrower dtype of the two (NumPy's power/sqrt loops may differ in the "
    "last place between strided/contiguous buffers); bit-identity is counted, not demanded",
    "conversion of 4-byte data computes (partly) in float32: judged with float32 eps, and only when a tap on __array_ufunc__ and "
    "Unit.get_conversion_factor saw every intermediate result and conversion factor stay finite, non-zero and float32-normal and the expected "
    "result is float32-normal (otherwise noted as narrow-buffer-range); the property's quantifier does not name dtypes",
    "offset temperature scales: as TARGET the absolute temperature from the formula is shown as a reading through the affine map; as INPUT a "
    "refusal (any exception) is accepted (DESIGN B), a returned value must equal the formula applied to the absolute temperature",
    "same-dimension request (target has the input's dimension): the documented shortcut is an ordinary unit conversion; judged as identity map "
    "for member dimensions",
    "an uncovered request whose target has the same dimension as the input is an ordinary conversion, not a refusal case; an unknown "
    "equivalence name (KeyError) is outside the statement",
    "after a refused in-place request the state of the operand is C18's subject: noted, not judged",
    "negative inputs are generated only for the linear and reciprocal maps; lorentz, sound_speed and effective_temperature are judged on "
    "their physical domain (0<=v<c, gamma>=1, positive T, E, F, cs)",
    "a view converted in place necessarily rewrites part of its base's buffer; the base is not judged for in-place calls",
    "registry dimension (vf/gen/c09_registries.py): operands are also bound to fresh registries of six classes - nonmks-system (UnitRegistry("
    "unit_system=cgs|galactic|imperial|planck|geometrized|solar)), mks-system, added-symbols, modified-default-symbol, modified-user-symbol "
    "(add with a placeholder then modify), code-units (code_length/mass/time/temperature/velocity/density, optionally with a code UnitSystem "
    "registered for the registry); the formula oracle is unchanged: SI magnitudes via the reference scale of the unit strings, and for a registry "
    "symbol the scale handed to add()/modify() (prefix k x 1000 for a prefixable user symbol); such symbols are exact (no tolerance class)",
    "string targets are parsed against the operand's registry by the library; Unit-object targets are built against the operand's registry, or "
    "(system classes only, every other case) against the default registry - the meaning of every default spelling is the same in both",
    "a result or base-conversion label written in a unit whose table value is a listed C02 finding (the solar system's Mearth) is counted, not judged",
    "mechanism keys and cells of registry cases carry ':reg=<class>'; a formula failure seen only through the class API (Equivalence.convert, copying "
    "or in-place) on data still written in a re-valued DEFAULT symbol has ONE key ('class-api-forms', no equivalence / direction): the mechanism (a "
    "constant of the default registry is the left operand, the symbol is resolved in the left operand's registry) depends on neither, and the set of "
    "equivalences in which a run sees it depends on the seed (first keyed per equivalence: seed 3 raised two unlisted siblings)",
    "special data (vf/gen/c09_special.py): 'the formula evaluated on the same element' is taken in IEEE arithmetic (k/0 = inf, k/inf = 0, inf*k = inf, "
    "sqrt(negative) = NaN, NaN in -> NaN out); vf/ref/c09_ieee.py evaluates several algebraically equal spellings of each direction in longdouble and "
    "float64 and gives an element a verdict class (finite value / NaN / +inf / -inf / zero) only where all agree (gamma = inf, flux = -inf, T = 1e80 K "
    "are unjudged); the sign of a zero result is never judged, and an infinity produced by a zero element may have either sign (-0.0 == 0.0 as numbers)",
    "special data: a finite non-zero element is formula-judged only where its reading, the powers of it the formula takes, its SI value and the result "
    "(SI and reading) lie within 1e-290..1e290 (1e-30..1e30 for 4-byte data), its class survives a relative move of 1e-9 (1e-4), and 64 eps x condition "
    "< 0.25: under/overflow on the way depends on the order of evaluation, which the property does not fix; such elements still take part in "
    "determinism, neighbours-vs-twin and (8-byte data) in-place-vs-copy",
    "special data: a conversion is an elementwise map, so the ordinary elements of a mixed array are judged twice: against the formula, and against "
    "the same call on an all-ordinary twin array (8 eps x condition; NumPy's power/sqrt loops may pick another code path when a lane holds a special value)",
    "special data: determinism = the same call on an equal fresh operand, after freed buffers of the result's size were filled with a different "
    "sentinel, gives bit-identical numbers (a difference only in the bits of equal values - sign of zero, NaN payload - is noted)",
    "special data: there-and-back and via-intermediate are judged against the formulas applied in turn (0 -> inf -> 0 returns the original; a negative "
    "sound speed comes back positive and that is the formulas' answer); via-intermediate only on elements where the composed formulas give what the "
    "direct formula gives",
    "special data, 4-byte operands: formula verdicts of a call are dropped when the tap on the same call on the all-ordinary twin saw an intermediate or "
    "conversion factor leave the float32 normal range (0 x inf-factor = NaN in a float32 buffer is the narrow-buffer class, not this one); tiny/huge "
    "float32 elements are not formula-judged; there-and-back/paths are not driven; int64 operands hold only zero / negative / integer edge values; offset "
    "temperature scales are not used in this family",
    "only non-coherent named default symbols (Msun, ft, eV, R, ...) are re-valued, never a symbol another token of the same case is derived from "
    "(prefixed/aliased spelling), never SI/CGS base or coherent derived units; registries with re-valued default symbols run one case per child "
    "process: OPEN ITEM - two such registries in one process history showed a 1e-12 via-intermediate/direct disagreement (spectral, mil -> keV -> "
    "1/Mpc after a case on a registry with Rjup re-valued) that was not reproduced stand-alone within the time limit; not driven, not judged, not listed",
)
MIN_EVALS = 5000
TIMEOUT = 1500

EQS = tuple(equivs.MEMBERS)

POOL = {
    "temperature": ["K", "R", "mK", "kK", "MK", "GK", "nK", "T_pl", "uK", "TK"],
    "energy": ["J", "erg", "eV", "keV", "kJ", "cal", "Wh", "BTU", "kg*m**2/s**2", "g*cm**2/s**2", "N*m", "dyn*cm", "lbf*ft",
               "MeV", "GeV", "kcal", "kWh", "Ry", "foe", "E_pl", "therm", "W*s", "Pa*m**3", "Msun*km**2/s**2", "uJ", "aJ", "zJ", "TeV"],
    "mass": ["kg", "g", "mg", "lb", "Msun", "amu", "me", "t", "slug", "J*s**2/m**2", "ug", "oz", "Mjup", "m_pl", "ton", "lbf*s**2/ft",
             "Mg", "m_geom", "ng", "Yg"],
    "length": ["m", "cm", "km", "nm", "um", "Å", "pc", "AU", "mile", "ft", "inch", "c*s", "kpc", "Mpc", "Rsun", "Rearth", "Rjup", "yd",
               "l_pl", "l_geom", "smoot", "furlong", "nmi", "fm", "pm", "km/s*yr", "mil", "Gpc", "ym"],
    "rate": ["Hz", "kHz", "MHz", "GHz", "1/s", "s**-1", "1/yr", "min**-1", "THz", "1/ms", "1/day", "1/Gyr", "mHz", "1/hr", "PHz"],
    "spatial_frequency": ["1/m", "cm**-1", "1/nm", "1/Å", "1/km", "m**-1", "1/inch", "1/pc", "1/um", "1/ft", "1/mile", "1/Mpc"],
    "velocity": ["m/s", "cm/s", "km/s", "c", "mph", "km/hr", "ft/s", "pc/Myr", "kt", "AU/yr", "mile/hr", "Å/fs", "mm/s", "inch/min",
                 "kpc/Gyr", "um/ns"],
    "dimensionless": ["", "dimensionless", "%", "m/km", "cm/m", "counts", "km/m", "s/min"],
    "flux": ["W/m**2", "erg/s/cm**2", "erg/(s*cm**2)", "kg/s**3", "g/s**3", "mW/cm**2", "W/cm**2", "Lsun/pc**2", "BTU/hr/ft**2",
             "Jy*Hz", "kW/m**2", "hp/ft**2", "J/s/m**2", "cal/min/cm**2"],
    "density": ["kg/m**3", "g/cm**3", "Msun/pc**3", "lb/ft**3", "amu/cm**3", "g/L", "kg/L", "mg/mL", "Msun/kpc**3", "t/m**3", "me/Å**3",
                "oz/inch**3", "slug/ft**3", "g/m**3", "ug/cm**3"],
    "number_density": ["m**-3", "cm**-3", "1/cm**3", "1/m**3", "1/L", "pc**-3", "1/nm**3", "1/ft**3", "1/gal_US", "1/mL", "1/kpc**3",
                       "1/inch**3", "1/um**3", "1/km**3"],
}
QUICK_POOL = 13                     # quick: the first 13 of each pool (+ 3 seed-chosen others)
OFFSET_UNITS = ["degC", "degF"]     # temperature only: as targets in the unit grid and as inputs in the offset sub-grid
# dimensions probed for refusal / has_equivalent: every member kind + outsiders
OUTSIDERS = {
    "time": ["s", "yr", "ms"], "pressure": ["Pa", "atm", "dyn/cm**2"], "angle": ["rad", "degree"], "current": ["A", "mA"],
    "force": ["N", "dyn", "lbf"], "power": ["W", "erg/s", "Lsun"], "area": ["m**2", "cm**2", "acre"], "volume": ["L", "m**3", "gal_US"],
    "acceleration": ["m/s**2", "cm/s**2"], "angular_rate": ["rad/s", "rpm"], "specific_energy": ["J/kg", "erg/g"],
    "momentum": ["kg*m/s", "g*cm/s"], "charge": ["C"], "magnetic_field": ["T"], "mass_flux": ["kg/s", "Msun/yr"],
    "luminous": ["cd", "lm"], "log": ["B", "Np"],
}
DTYPES = ("f8", "f4", "i8", "i4")
KINDS = ("q", "a1", "a2", "view", "viewT", "one")
COPY_ENTRIES = ("to", "to(equivalence=)", "to(Unit)", "in_units", "to_equivalent", "to_equivalent(equivalence=)", "to_value", "Equivalence.convert")
INPLACE_ENTRIES = ("convert_to_units", "convert_to_units(equivalence=)", "convert_to_equivalent", "Equivalence(in_place).convert")
BASE_ENTRIES = ("convert_to_base", "convert_to_mks", "convert_to_cgs")
EPS = {"f8": 2.3e-16, "f4": 1.2e-7, "i8": 2.3e-16, "i4": 1.2e-7}
NVAL = 6
# compound pool units in which a base dimension cancels between factors (unyt's simplify() turns them into coefficient x unit)
SELF_CANCELLING = {"m/km", "cm/m", "km/m", "s/min", "km/s*yr"}
F4_TINY = 1.2e-38
F4_MAX = 3.3e38


# ------------------------------------------------------------------------------------------------ reference side
class RefUnit:
    """scale, dimension, affine offset (in SI) and tolerance class of a unit string, by vf/ref only"""
    _cache = {}

    def __init__(self, s, overlay=None):
        atoms = []
        base = names.resolver(overlay)

        def res(tok):
            r = base(tok)
            if overlay and tok in overlay:
                return r                  # registry symbol: its meaning is the scale handed to add()/modify(), exact
            t = tok
            if t.startswith("°"):
                t = "deg" + t[1:]
            rr = names.resolve("percent" if t == "%" else t)
            if rr is not None:
                atoms.append(rr[1])
            return r
        self.s = s
        self.scale, self.dim = uexpr.evaluate(s, res)
        self.atoms = atoms
        self.utol = sum(3 * defs.T[a].tol for a in atoms if defs.T[a].cls != "exact")
        self.tainted = any(a in TAINTED for a in atoms)
        self.zero = 0.0      # SI value of reading 0
        offs = [a for a in atoms if defs.T[a].offset]
        self.offset = bool(offs)
        if offs:
            if len(atoms) != 1 or atoms[0] not in ("degC", "degF"):
                raise ValueError("compound offset unit " + s)
            de = defs.T[atoms[0]]
            self.zero = -de.value * de.offset          # K = value*reading - value*offset   (defs.to_base convention)
            self.scale = de.value

    @classmethod
    def get(cls, s, overlay=None, ovkey=None):
        k = s if not overlay else (s, ovkey)
        u = cls._cache.get(k)
        if u is None:
            u = cls._cache[k] = cls(s, overlay)
        return u

    def to_si(self, readings):
        return np.asarray(readings, dtype=equivs.LD) * equivs.LD(self.scale) + equivs.LD(self.zero)

    def from_si(self, v):
        return (np.asarray(v, dtype=equivs.LD) - equivs.LD(self.zero)) / equivs.LD(self.scale)


def read_constants(unyt):
    """the library's own constants in SI: value attribute x unit string evaluated by vf/ref (no unyt conversion involved)"""
    from unyt import physical_constants as pc
    vals = {}
    for k, (name, dim) in equivs.CONSTANT_NAMES.items():
        q = getattr(pc, name)
        ru = RefUnit.get(str(q.units))
        if ru.dim != dim:
            raise core.Inconclusive(f"constant {name} has dimension {dims.show(ru.dim)}")
        vals[k] = float(q.d) * ru.scale
    return equivs.Consts(**vals)


def kind_of_dim(dv):
    for k, d in equivs.DIM.items():
        if d == dv:
            return k
    return None


# ------------------------------------------------------------------------------------------------ workload
def pool(tier, seed, kind):
    us = POOL[kind]
    if tier == "thorough":
        return list(us)
    r = core.rng(seed, "pool", kind)
    rest = us[QUICK_POOL:]
    return us[:QUICK_POOL] + (r.sample(rest, min(3, len(rest))) if rest else [])


def kw_for(eq, r, i):
    ks = equivs.KWARGS.get(eq, ())
    if not ks:
        return {}
    mode = i % 4
    if mode == 0:
        return {}
    kw = {"mu": r.choice([0.5, 0.6, 1.0, 1.22, 1.4, 2.33, round(10 ** r.uniform(-1, 1), 3)])}
    if "gamma" in ks and mode >= 2:
        kw["gamma"] = r.choice([5.0 / 3.0, 1.4, 1.0, 4.0 / 3.0, 1.1, round(r.uniform(1.0, 2.0), 3)])
        if mode == 3:
            del kw["mu"]
    return kw


def pair_cases(tier, seed, eq, a, b):
    r = core.rng(seed, "cases", eq, a, b)
    pin, pout = pool(tier, seed, a), pool(tier, seed, b)
    if b == "temperature":
        pout = pout + OFFSET_UNITS
    cases = []
    combos = []
    n = max(len(pin), len(pout))
    shift = r.randrange(len(pout))
    for i in range(n):                           # every unit at least once in each role
        combos.append((pin[i % len(pin)], pout[(i + shift) % len(pout)]))
    if tier == "thorough":
        allc = [c for c in itertools.product(pin, pout) if c not in set(combos)]
        r.shuffle(allc)
        combos += allc[:260 if a != b else 60]
    grid = list(itertools.product(DTYPES, KINDS))
    reps = 2 if tier == "quick" else 3
    if tier == "quick":
        allc = [c for c in itertools.product(pin, pout) if c not in set(combos)]
        r.shuffle(allc)
        combos += allc[:n]
    i = 0
    for rep in range(reps):                       # block 1: every dtype x container kind, rotating units
        for dt, kd in grid:
            uin, uout = combos[r.randrange(len(combos))]
            cases.append([eq, a, b, uin, uout, dt, kd, kw_for(eq, r, i), i]); i += 1
    for uin, uout in combos:                      # block 2: unit grid, rotating dtype/kind (float64 twice as often)
        dt, kd = grid[i % len(grid)] if i % 2 else ("f8", KINDS[i // 2 % len(KINDS)])
        cases.append([eq, a, b, uin, uout, dt, kd, kw_for(eq, r, i), i]); i += 1
    if a == "temperature" and a != b:             # offset inputs: refusal or the formula on the absolute temperature
        for uin in OFFSET_UNITS:
            for j, uout in enumerate(pout[:3 if tier == "quick" else 8]):
                cases.append([eq, a, b, uin, uout, ("f8", "i8")[j % 2], KINDS[j % len(KINDS)], kw_for(eq, r, i), i]); i += 1
    return cases


REG_PLAN = {"quick": (("nonmks-system", 12), ("mks-system", 2), ("added-symbols", 6), ("modified-symbol", 8), ("code-units", 6)),
            "thorough": (("nonmks-system", 36), ("mks-system", 4), ("added-symbols", 15), ("modified-symbol", 20), ("code-units", 18))}
REG_DTK = (("f8", "a1"), ("f8", "q"), ("i8", "a2"), ("f8", "view"), ("f4", "a1"), ("f8", "viewT"), ("i4", "one"), ("f8", "a2"), ("i8", "q"),
           ("f8", "one"), ("f4", "view"), ("i8", "a1"))


def reg_cases(tier, seed, eq, a, b):
    """conversions of member a to member b on operands bound to non-default registries (vf/gen/c09_registries.py): every registry class,
    every built-in non-MKS system, rotating dtype / container kind, units drawn from the whole pool of each member"""
    r = core.rng(seed, "regcases", eq, a, b)
    pin, pout = POOL[a], POOL[b]
    cases = []
    i = 100000
    off = r.randrange(12)
    for cls, n in REG_PLAN[tier]:
        if a == b:
            n = max(2, n // 3)
        for j in range(n):
            uin, uout = pin[r.randrange(len(pin))], pout[r.randrange(len(pout))]
            dt, kd = REG_DTK[(j + off + i) % len(REG_DTK)]
            spec, uin, uout = regs.gen_spec(r, cls, a, b, uin, uout, j + off)
            cases.append([eq, a, b, uin, uout, dt, kd, kw_for(eq, r, i), i, spec]); i += 1
    return cases


def all_pairs():
    out = []
    for eq in EQS:
        ms = equivs.MEMBERS[eq]
        for a in ms:
            for b in ms:
                out.append((eq, a, b))
    return out


def probe_dims():
    d = {k: POOL[k][:3] for k in POOL}
    d["dimensionless"] = ["", "%", "m/km"]
    d.update(OUTSIDERS)
    return d


def batches(tier, seed):
    b = []
    mixed = []
    seeds = [seed] if tier == "quick" else [seed, seed + 104729, seed + 2 * 104729, seed + 3 * 104729]    # thorough: three extra derived seeds
    for si, sd in enumerate(seeds):
        for eq in EQS:
            cs = []
            for (e, a, bb) in all_pairs():
                if e == eq:
                    cs += pair_cases(tier, sd, eq, a, bb)
            r = core.rng(sd, "order", eq)
            r.shuffle(cs)                      # directions, dtypes, copy and in-place forms interleave inside one child
            k = max(1, len(cs) // (60 if tier == "quick" else 120))
            for i, c in enumerate(chunks(cs, k)):
                b.append((f"conv/{eq}/s{si}/{i}", ("conv", {"seed": sd, "cases": c})))
            mixed += r.sample(cs, min(len(cs), 24 if tier == "quick" else 80))
            rc = []
            for (e, a, bb) in all_pairs():
                if e == eq:
                    rc += reg_cases(tier, sd, eq, a, bb)
            # re-valued default symbols: one case per child (see ASSUMPTIONS: a history of two such registries in one process is
            # not driven yet - open item), everything else interleaved
            iso = [c for c in rc if c[9]["cls"] == "modified-default-symbol"]
            rc = [c for c in rc if c[9]["cls"] != "modified-default-symbol"]
            for i, c in enumerate(iso):
                b.append((f"regmod/{eq}/s{si}/{i}", ("conv", {"seed": sd, "cases": [c]})))
            r.shuffle(rc)                      # registries of different classes / systems follow one another inside one child
            k = max(1, len(rc) // (40 if tier == "quick" else 100))
            for i, c in enumerate(chunks(rc, k)):
                b.append((f"reg/{eq}/s{si}/{i}", ("conv", {"seed": sd, "cases": c})))
            mixed += r.sample(rc, min(len(rc), 8 if tier == "quick" else 30))
            sc = []
            for (e, a, bb) in all_pairs():          # special values in the data: every direction x data class x placement x container kind
                if e == eq and si == 0:             # (enumerated, so the extra derived seeds of the thorough tier do not repeat it)
                    sc += special_cases(tier, sd, eq, a, bb)
            r.shuffle(sc)
            k = max(1, len(sc) // (45 if tier == "quick" else 110))
            for i, c in enumerate(chunks(sc, k)):
                b.append((f"special/{eq}/s{si}/{i}", ("special", {"seed": sd, "cases": c})))
    r = core.rng(seed, "mixed")
    r.shuffle(mixed)                       # all nine equivalences interleaved in one process history
    for i, c in enumerate(chunks(mixed, 4 if tier == "quick" else 12)):
        b.append((f"mixed/{i}", ("conv", {"seed": seed + 7919, "cases": c})))
    pd = probe_dims()
    nun = 1 if tier == "quick" else 2
    for eq in EQS:
        b.append((f"refuse/{eq}", ("refuse", {"eq": eq, "dims": {k: v[:nun] for k, v in pd.items()}, "tier": tier, "seed": seed})))
    b.append(("membership", ("membership", {"dims": pd if tier == "thorough" else {k: v[:2] for k, v in pd.items()}})))
    return b


# ------------------------------------------------------------------------------------------------ values
def gen_readings(eq, a, ru, dt, r, n, degree=1):
    """n readings (numpy array of dtype dt) of member a in unit ru, spread over many decades inside the domain; or None"""
    c = 299792458.0
    out = []
    isint = dt[0] == "i"
    narrow = dt[1] == "4"
    lo, hi = (-12.0, 12.0)
    if narrow:
        lo, hi = (-4.0, 5.0)
    if isint:
        lo, hi = (0.0, 9.0 if dt == "i4" else 15.0)
        if r.random() < 0.6:         # regime in which x**degree of the formula still fits the integer dtype
            hi = (np.log10(float(np.iinfo(np.dtype(dt)).max)) - 0.05) / degree
    small = hi
    for j in range(n * 4):
        if len(out) >= n:
            break
        if eq == "lorentz" and a == "velocity":
            beta = 10 ** -r.uniform(0.0, 5.0) if r.random() < 0.5 else 1 - 10 ** -r.uniform(0.3, 7.0 if not narrow else 4.0)
            v = beta * c / ru.scale
        elif eq == "lorentz":
            v = (1 + 10 ** r.uniform(-5.0, 4.0)) / ru.scale
            if isint:
                v = min(1 + 10 ** r.uniform(0.0, small), 10 ** small)
        elif ru.offset:
            v = 10 ** r.uniform(-2, 5) * r.choice([1, 1, -1]) if not isint else float(r.randrange(-200, 100000))
        else:
            v = 10 ** r.uniform(lo, hi)
            if not equivs.positive_only(eq, a, None) and r.random() < 0.3:
                v = -v
        if isint:
            v = float(int(v))
            if v == 0 and not (ru.offset):
                continue
            if abs(v) > (2e9 if dt == "i4" else 9e15):
                continue
        out.append(v)
    if len(out) < n:
        return None
    with np.errstate(all="ignore"):
        arr = np.array(out, dtype=dt)
    if not np.all(np.isfinite(arr.astype("f8"))):
        return None
    return arr


def build(unyt, arr, uin, kind, reg=None):
    """-> (x, base) fresh operand of the requested container kind; base is the owner of the buffer for views; reg: registry to bind to"""
    rk = {} if reg is None else {"registry": reg}
    if kind == "q":
        x = unyt.unyt_quantity(np.array(arr[0], dtype=arr.dtype), uin, **rk)
        return x, None, arr[:1].reshape(())
    if kind == "a1":
        return unyt.unyt_array(arr.copy(), uin, **rk), None, arr
    if kind == "one":                       # size-1 array (its own branch in __array_ufunc__)
        return unyt.unyt_array(arr[:1].copy(), uin, **rk), None, arr[:1]
    if kind == "a2":
        a2 = arr.reshape(2, -1).copy()
        return unyt.unyt_array(a2, uin, **rk), None, a2
    if kind == "view":
        raw = np.empty(2 * arr.size, dtype=arr.dtype)
        raw[::2] = arr
        raw[1::2] = arr[::-1]
        base = unyt.unyt_array(raw, uin, **rk)
        return base[::2], base, arr
    if kind == "viewT":
        a2 = arr.reshape(-1, 2).copy()
        base = unyt.unyt_array(a2, uin, **rk)
        return base.T, base, a2.T
    raise KeyError(kind)


class UfuncTap:
    """class-level tap on unyt_array.__array_ufunc__ and Unit.get_conversion_factor: counts dispatches and watches whether every
    intermediate result and conversion factor would fit a float32 buffer (finite, non-zero, normal).  Only consulted for 4-byte data."""

    def __init__(self, unyt):
        self.cls = unyt.unyt_array
        self.ucls = unyt.Unit
        self.calls = 0
        self.factors = 0
        self.bad = False

    def __enter__(self):
        orig = self.cls.__array_ufunc__
        self.orig = orig
        tap = self

        def wrapper(self_, ufunc, method, *inputs, **kwargs):
            out = orig(self_, ufunc, method, *inputs, **kwargs)
            tap.calls += 1
            try:
                v = np.asarray(out)
                if v.dtype.kind == "f":
                    tiny = np.finfo(v.dtype).tiny
                    av = np.abs(v)
                    if not np.all(np.isfinite(v)) or np.any(av < tiny):
                        tap.bad = True
            except Exception:
                pass
            return out
        self.cls.__array_ufunc__ = wrapper
        ucls = self.ucls
        gorig = self.gorig = ucls.get_conversion_factor

        def gwrapper(self_, *a, **k):
            out = gorig(self_, *a, **k)
            try:
                f = abs(float(out[0]))
                tap.factors += 1
                if not (F4_TINY < f < F4_MAX):
                    tap.bad = True          # a float32 buffer cannot hold this factor at full precision
            except Exception:
                pass
            return out
        ucls.get_conversion_factor = gwrapper
        return self

    def __exit__(self, *a):
        self.cls.__array_ufunc__ = self.orig
        self.ucls.get_conversion_factor = self.gorig
        return False


def dtclass(dt):
    return dt


def call_entry(unyt, entry, x, uout, eq, kw, U=None):
    """performs one entry point; returns (result-or-None, in_place flag); U builds Unit-object targets (default: unyt.Unit)"""
    U = U or unyt.Unit
    from unyt.equivalencies import equivalence_registry
    if entry == "to":
        return x.to(uout, eq, **kw)
    if entry == "to(equivalence=)":
        return x.to(uout, equivalence=eq, **kw)
    if entry == "to(Unit)":
        return x.to(U(uout), equivalence=eq, **kw)
    if entry == "in_units":
        return x.in_units(uout, equivalence=eq, **kw)
    if entry == "to_equivalent":
        return x.to_equivalent(uout, eq, **kw)
    if entry == "to_equivalent(equivalence=)":
        return x.to_equivalent(U(uout), equivalence=eq, **kw)
    if entry == "to_value":
        return x.to_value(uout, equivalence=eq, **kw)
    if entry == "Equivalence.convert":
        return equivalence_registry[eq]().convert(x, U(uout).dimensions, **kw)
    if entry == "convert_to_units":
        x.convert_to_units(uout, eq, **kw); return x
    if entry == "convert_to_units(equivalence=)":
        x.convert_to_units(U(uout), equivalence=eq, **kw); return x
    if entry == "convert_to_equivalent":
        x.convert_to_equivalent(uout, eq, **kw); return x
    if entry == "Equivalence(in_place).convert":
        r = equivalence_registry[eq](in_place=True).convert(x, U(uout).dimensions, **kw)
        return x if r is not None else None
    if entry == "convert_to_base":
        x.convert_to_base(equivalence=eq, **kw); return x
    if entry == "convert_to_mks":
        x.convert_to_mks(equivalence=eq, **kw); return x
    if entry == "convert_to_cgs":
        x.convert_to_cgs(equivalence=eq, **kw); return x
    raise KeyError(entry)


def result_unit(res, ov=None, ovkey=None):
    """(RefUnit of the label carried by the result) or None"""
    u = getattr(res, "units", None)
    if u is None:
        return None
    try:
        return RefUnit.get(str(u), ov, ovkey)
    except Exception:
        return None


def within(got, exp, bound):
    """|got-exp| <= bound elementwise (longdouble); -> (ok, index of the worst element)"""
    got = np.asarray(got, dtype=equivs.LD)
    exp = np.asarray(exp, dtype=equivs.LD)
    if got.shape != exp.shape:
        return False, 0
    with np.errstate(all="ignore"):
        err = np.abs(got - exp)
        bound = np.broadcast_to(np.asarray(bound, dtype=equivs.LD), exp.shape)
        ok = (err <= bound) | (got == exp)
        if np.all(ok):
            return True, 0
        ratio = np.where(ok, 0, err / np.maximum(bound, np.finfo(equivs.LD).tiny))
        ratio = np.where(np.isnan(ratio), np.inf, ratio)
    return False, int(np.argmax(ratio.reshape(-1))) if got.ndim else 0


def flat(v, i):
    v = np.asarray(v)
    return v.reshape(-1)[i].item() if v.size else None


def run_case(unyt, rec, K, case, r):
    eq, a, b, uin, uout, dt, kind, kw, idx = case[:9]
    spec = case[9] if len(case) > 9 else None        # registry the operands are bound to (None: the default registry)
    pair = f"{a}->{b}"
    ov = ovkey = reg = None
    ksuf, rcell, rdesc, U = "", (), "", None
    if spec is not None:
        ov = regs.overlay(spec) or None
        ovkey = tuple(sorted((k, v[0]) for k, v in ov.items())) if ov else None
        try:
            reg = regs.build_registry(unyt, spec)
        except Exception as e:
            rec.violation(f"C09:registry-construction:{spec['cls']}:{type(e).__name__}", f"{regs.describe(spec)} raised {type(e).__name__}: {str(e)[:200]}", spec)
            return
        ksuf, rcell, rdesc = ":reg=" + spec["cls"], ("reg=" + spec["cls"],), f"[operands bound to {regs.describe(spec)}] "
        if spec["tu"] == "own" or ov:
            U = lambda s_: unyt.Unit(s_, registry=reg)      # noqa: E731
        rec.count("reg:cases:" + spec["cls"])
        if spec["sys"]:
            rec.count("reg:system:" + spec["sys"])

    def viol(key, desc, c):
        rec.violation(key + ksuf, rdesc + desc, c)

    def okc(cell, n=1):
        rec.ok(cell + rcell, n=n)

    def cnt(name, n=1):
        rec.count(name, n)
        if spec is not None and name.startswith("sub:"):
            rec.count("reg:" + name, n)
            rec.count(f"reg:{spec['cls']}:{name}", n)
    rin, rout = RefUnit.get(uin, ov, ovkey), RefUnit.get(uout, ov, ovkey)
    if rin.tainted or rout.tainted:
        rec.count("skipped:tainted-unit"); return
    arr = gen_readings(eq, a, rin, dt, r, NVAL, equivs.degree(eq, a, b))
    if arr is None:
        rec.count("skipped:no-values-in-domain:" + dt); return
    x0, _, shaped = build(unyt, arr, uin, kind, reg)
    xsi = rin.to_si(shaped.astype(equivs.LD))
    if not equivs.domain_ok(eq, a, xsi, K):
        rec.count("skipped:outside-domain"); return
    ysi, cond, mags = equivs.convert(eq, a, b, xsi, K, **kw)
    if a == b:
        cond = np.ones_like(cond)
    exp = rout.from_si(ysi)
    if not np.all(np.isfinite(exp.astype("f8"))) or (not rout.offset and np.any(exp == 0)):
        rec.count("skipped:degenerate-expected"); return
    utol = rin.utol + rout.utol
    offset_in = rin.offset and a != b
    case_d = {"eq": eq, "from": a, "to": b, "uin": uin, "uout": uout, "dtype": dt, "kind": kind, "kw": kw,
              "readings": np.asarray(shaped, dtype="f8").reshape(-1).tolist(), "expected": np.asarray(exp, dtype="f8").reshape(-1).tolist()}
    if spec is not None:
        case_d["registry"] = spec
    rec.reach(f"{eq}:{pair}")
    rec.sample(case_d, limit=2)

    with np.errstate(all="ignore"):
        amp_in = (np.abs(shaped.astype(equivs.LD) * rin.scale) + abs(rin.zero)) / np.abs(xsi)     # 1 unless the input scale is affine

    def eps_of(dtype):
        # a float32 input may be processed in its own precision even when the result is delivered as float64; integers are exact
        return EPS["f4"] if (dt == "f4" or (a == b and dt[1] == "4") or (dtype.kind == "f" and dtype.itemsize == 4)) else EPS["f8"]

    def bound(e, factor, lab, extra_rel=0.0):
        """error bound on a reading in unit lab of the SI result ysi"""
        return ((factor * e * amp_in + rin.utol) * cond + rout.utol + extra_rel) * np.abs(ysi) / abs(lab.scale) + factor * e * abs(lab.zero) / abs(lab.scale)

    entries = [e for e in COPY_ENTRIES + INPLACE_ENTRIES if not (a == b and e.startswith("Equivalence"))]
    r.shuffle(entries)
    results = {}
    failed = {}          # entry -> description   (formula monitor)
    raised = {}          # entry -> (exception class name, description)
    passed = set()
    dcls = dt
    if dt[0] == "i":
        with np.errstate(all="ignore"):
            if float(np.max(np.abs(shaped.astype("f8")))) ** equivs.degree(eq, a, b) > float(np.iinfo(np.dtype(dt)).max):
                dcls = "int-pow-overflow"        # input class: x**degree of the formula does not fit the integer dtype
    for entry in entries:
        inplace = entry in INPLACE_ENTRIES
        x, base, _ = build(unyt, arr, uin, kind, reg)
        before = snap(x)
        bbefore = snap(base) if base is not None else None
        tap = UfuncTap(unyt)
        try:
            with tap, np.errstate(all="ignore"):
                res = call_entry(unyt, entry, x, uout, eq, kw, U)
            exc = None
        except Exception as e:
            res, exc = None, e
        rec.count("calls:" + entry)
        rec.count("ufunc-dispatches-observed", tap.calls)
        cell = (eq, a, b, entry, dt, kind)
        if offset_in:
            if exc is not None:
                rec.note(f"offset-input-refused:{eq}:{type(exc).__name__}")
                okc(("offset-input",) + cell); cnt("sub:offset-input")
                continue
        if exc is not None:
            raised[entry] = (type(exc).__name__, f"{eq} {uin}->{uout} via {entry} ({dt}, {kind}, {kw}) raised {type(exc).__name__}: {str(exc)[:200]}")
            continue
        if res is None:
            viol(f"C09:returns-none:{eq}:{pair}:{entry}", f"{eq} {uin}->{uout} via {entry} ({dt}, {kind}) returned None (no branch taken)", case_d)
            continue
        # ---- (4) purity of the copying forms
        if not inplace:
            after = snap(x)
            what = None
            if after != before:
                what = "values" if after[1] != before[1] else ("units" if after[4] != before[4] else "dtype-or-shape")
            elif base is not None and snap(base) != bbefore:
                what = "base-of-view"
            if what:
                viol(f"C09:input-mutated:{eq}:{pair}:{entry}:{what}",
                              f"{entry} is a copying form but changed its input ({what}): {eq} {uin}->{uout}, input now {x!r}", case_d)
            else:
                okc(("purity",) + cell); cnt("sub:purity")
            if isinstance(res, np.ndarray) and isinstance(x, np.ndarray) and np.shares_memory(res, x):
                rec.note(f"copy-result-aliases-input:{entry}")
        # ---- unit label
        if entry == "to_value":
            if hasattr(res, "units"):
                viol(f"C09:to_value:{eq}:{pair}:not-bare", f"to_value returned {type(res).__name__} with units", case_d)
                continue
            got = np.asarray(res)
            rlab = rout
        else:
            rlab = result_unit(res, ov, ovkey)
            if rlab is None:
                viol(f"C09:unit:{eq}:{pair}:{entry}:unreadable", f"result of {entry} carries no readable unit: {res!r}", case_d)
                continue
            if rlab.tainted:
                rec.count("skipped:tainted-result-label"); continue
            got = np.asarray(res.d)
            free = entry.startswith("Equivalence")          # the class API returns whatever unit the formula produced
            if rlab.dim != rout.dim or (not free and (abs(rlab.scale / rout.scale - 1) > 1e-9 or abs(rlab.zero - rout.zero) > 1e-9 * (abs(rout.zero) + 1))):
                viol(f"C09:unit:{eq}:{pair}:{entry}:{'dimension' if rlab.dim != rout.dim else 'scale'}",
                              f"{eq} {uin}->{uout} via {entry}: result is labelled {res.units} ({dims.show(rlab.dim)})", case_d)
                continue
            okc(("unit",) + cell); cnt("sub:unit")
        if got.shape != exp.shape:
            viol(f"C09:result-shape:{eq}:{pair}:{entry}", f"{entry}: result shape {got.shape}, input shape {exp.shape}", case_d)
            continue
        results[entry] = (got, rlab, tap.bad, str(getattr(res, "units", "")))
        # ---- (1) formula
        narrow = (got.dtype.kind == "f" and got.dtype.itemsize == 4) or (a == b and dt[1] == "4")     # to_value of a quantity is a Python float
        if got.dtype.kind != "f":
            rec.note(f"non-float-result:{entry}:{got.dtype}")
        want = rlab.from_si(ysi) if rlab is not rout else exp
        if narrow:
            with np.errstate(all="ignore"):
                aw = np.abs(np.asarray(want, dtype="f8"))
                if tap.bad or not np.all(np.isfinite(got)) or np.any(np.abs(got) < F4_TINY) or np.any(aw < F4_TINY) or np.any(aw > F4_MAX):
                    rec.note("narrow-buffer-range:" + entry); results[entry] = results[entry][:2] + (True,) + results[entry][3:]; continue
        ok, bad = within(got, want, bound(eps_of(got.dtype), 64, rlab, rlab.utol if rlab is not rout else 0.0))
        mon = "offset-input" if offset_in else "formula"
        if ok:
            okc((mon,) + cell); okc(("formula-units", eq, a, b, uin, uout), n=0); cnt("sub:" + mon)
            passed.add(entry)
        else:
            failed[entry] = (f"{flat(shaped, bad)!r} {uin} -> {flat(got, bad)!r} {uout if rlab is rout else rlab.s} via {entry} ({eq}, {dt}, {kind}, {kw}); "
                             f"formula with the library's constants gives {float(flat(want, bad))!r}")
    # a failure shared by every copying (or in-place, or every) form is one mechanism, not one per entry point
    if failed:
        mon = "offset-input" if offset_in else "formula"
        cp_f = [e for e in COPY_ENTRIES if e in failed]; cp_p = [e for e in COPY_ENTRIES if e in passed]
        ip_f = [e for e in INPLACE_ENTRIES if e in failed]; ip_p = [e for e in INPLACE_ENTRIES if e in passed]
        groups = []
        if len(cp_f) >= 2 and not cp_p and len(ip_f) >= 2 and not ip_p:
            groups.append(("all-forms", cp_f + ip_f))
        else:
            if len(cp_f) >= 2 and not cp_p:
                groups.append(("all-copying-forms", cp_f))
            else:
                groups += [(e, [e]) for e in cp_f]
            if len(ip_f) >= 2 and not ip_p:
                groups.append(("all-in-place-forms", ip_f))
            else:
                groups += [(e, [e]) for e in ip_f]
        for scope, es in groups:
            if spec is not None and spec["cls"] == "modified-default-symbol" and all(e.startswith("Equivalence") for e in es):
                # input class of its own (see ASSUMPTIONS): the class API applied to data still written in the re-valued symbol
                viol(f"C09:{mon}:class-api-forms", failed[es[0]] + f" [{eq} {pair}; entry points: {', '.join(es)}]", case_d)
                continue
            viol(f"C09:{mon}:{eq}:{pair}:{scope}:{dcls}", failed[es[0]] + (f" [same for {len(es)} entry points: {', '.join(es)}]" if len(es) > 1 else ""), case_d)
    if raised:
        ran = set(results)
        for cls in sorted({c for c, _ in raised.values()}):
            cp_r = [e for e in COPY_ENTRIES if e in raised and raised[e][0] == cls]
            ip_r = [e for e in INPLACE_ENTRIES if e in raised and raised[e][0] == cls]
            cp_other = [e for e in COPY_ENTRIES if e in ran or (e in raised and raised[e][0] != cls)]
            ip_other = [e for e in INPLACE_ENTRIES if e in ran or (e in raised and raised[e][0] != cls)]
            groups = []
            if len(cp_r) >= 2 and not cp_other and len(ip_r) >= 2 and not ip_other:
                groups.append(("all-forms", cp_r + ip_r))
            else:
                groups += [("all-copying-forms", cp_r)] if (len(cp_r) >= 2 and not cp_other) else [(e, [e]) for e in cp_r]
                groups += [("all-in-place-forms", ip_r)] if (len(ip_r) >= 2 and not ip_other) else [(e, [e]) for e in ip_r]
            for scope, es in groups:
                if uin in SELF_CANCELLING:      # input class of its own: the pair is irrelevant to the mechanism
                    viol(f"C09:raises:{eq}:{scope}:{cls}:self-cancelling-input-unit", raised[es[0]][1] + f" [{len(es)} entry points: {', '.join(es)}]", case_d)
                    continue
                viol(f"C09:raises:{eq}:{pair}:{scope}:{cls}", raised[es[0]][1] + (f" [same for {len(es)} entry points: {', '.join(es)}]" if len(es) > 1 else ""), case_d)
    forward_ok = "to" in passed
    inplace_ok = "convert_to_equivalent" in passed or ("convert_to_equivalent" in results and results["convert_to_equivalent"][2])
    # ---- (7) to_value == to().d
    if "to_value" in results and "to" in results:
        g1, g2 = results["to_value"][0], results["to"][0]
        if g1.shape == g2.shape and np.array_equal(np.asarray(g1, dtype="f8"), np.asarray(g2, dtype="f8")):
            okc(("to_value", eq, a, b, dt, kind)); cnt("sub:to_value")
        else:
            viol(f"C09:to_value:{eq}:{pair}:differs", f"to_value({uout!r},{eq!r}) = {g1.tolist()!r} but to(...).d = {g2.tolist()!r}", case_d)
    # ---- (5) in-place == copy
    ref_entry = "to" if forward_ok else None       # when the copying form itself missed the formula that is already reported
    if ref_entry:
        cg, cl, _, cu = results[ref_entry]
        ivc_bad, ivc_good = {}, []
        for entry in INPLACE_ENTRIES[:3]:
            if entry not in results:
                continue
            ig, il, ibad, iu = results[entry]
            if iu != cu:
                viol(f"C09:inplace-vs-copy:{eq}:{pair}:{entry}:unit", f"in-place form ends in {iu!r}, copying form in {cu!r}", case_d)
                continue
            narrow = 4 in (ig.dtype.itemsize, cg.dtype.itemsize) or dt[1] == "4"
            with np.errstate(all="ignore"):
                if narrow and (ibad or not np.all(np.isfinite(ig)) or np.any(np.abs(ig) < F4_TINY) or np.any(np.abs(cg) < F4_TINY) or np.any(np.abs(cg) > F4_MAX)):
                    rec.note("narrow-buffer-range:inplace-vs-copy"); continue
            e = EPS["f4"] if narrow else EPS["f8"]
            ok, bad = within(ig, cg, 8 * e * cond * np.abs(cg) + 8 * e * abs(rout.zero) / abs(rout.scale))
            if ok:
                okc(("inplace-vs-copy", eq, a, b, entry, dt, kind)); cnt("sub:inplace-vs-copy")
                ivc_good.append(entry)
                if ig.dtype == cg.dtype and ig.tobytes() == cg.tobytes():
                    rec.count("inplace-bit-identical")
                else:
                    rec.count("inplace-not-bit-identical:" + ("narrow" if narrow else "wide"))
            else:
                ivc_bad[entry] = f"{eq} {flat(shaped, bad)!r} {uin}->{uout} ({dt},{kind},{kw}): in-place {entry} gives {flat(ig, bad)!r}, copying {ref_entry} gives {flat(cg, bad)!r}"
        if len(ivc_bad) >= 2 and not ivc_good:
            viol(f"C09:inplace-vs-copy:{eq}:{pair}:all-in-place-forms:numbers:{dcls}", next(iter(ivc_bad.values())) + f" [same for {', '.join(ivc_bad)}]", case_d)
        else:
            for entry, d_ in ivc_bad.items():
                viol(f"C09:inplace-vs-copy:{eq}:{pair}:{entry}:numbers:{dcls}", d_, case_d)
    if offset_in:
        return
    if not forward_ok:
        rec.count("dependent-monitors-skipped:forward-failed")
    # ---- same-dimension base conversions with equivalence= (keyword threading in convert_to_base/mks/cgs)
    if not rin.offset and dt in ("f8", "i8"):
        entry = BASE_ENTRIES[idx % 3]
        x, base, _ = build(unyt, arr, uin, kind, reg)
        try:
            with np.errstate(all="ignore"):
                res = call_entry(unyt, entry, x, None, eq, kw, U)
            rl = result_unit(res, ov, ovkey)
            if rl is not None and rl.tainted:
                rec.count("skipped:tainted-base-label")       # e.g. the solar system's Mearth (listed C02 finding)
            elif rl is None or rl.dim != rin.dim:
                viol(f"C09:unit:{eq}:{a}:{entry}:dimension", f"{entry}(equivalence={eq!r}) of {uin} data ended in {getattr(res, 'units', None)}", case_d)
            else:
                ok, bad = within(rl.to_si(np.asarray(res.d)), xsi, (64 * EPS["f8"] + rin.utol + rl.utol) * np.abs(xsi))
                if ok:
                    okc(("base", eq, a, entry, dt, kind)); cnt("sub:base-equivalence-kw")
                else:
                    viol(f"C09:formula:{eq}:{a}->{a}:{entry}:{dt}", f"{entry}(equivalence={eq!r}) changed the quantity: {flat(shaped, bad)!r} {uin} -> {flat(res.d, bad)!r} {res.units}", case_d)
        except Exception as e:
            if True:
                viol(f"C09:raises:{eq}:{a}->{a}:{entry}:{type(e).__name__}", f"{entry}(equivalence={eq!r}) of {uin} data raised {type(e).__name__}: {str(e)[:200]}", case_d)
    # ---- (2) there and back, copying and in-place
    rt = equivs.roundtrip_cond(eq, a, b, xsi, K, **kw)
    for form in ("copy", "inplace"):
        x, base, _ = build(unyt, arr, uin, kind, reg)
        if (form == "inplace" and (dt[1] == "4" or not inplace_ok)) or not forward_ok:
            continue
        tap = UfuncTap(unyt)
        try:
            with tap, np.errstate(all="ignore"):
                if form == "copy":
                    y = x.to(uout, eq, **kw)
                    back = y.to(uin, eq, **kw)
                else:
                    x.convert_to_equivalent(uout, eq, **kw)
                    x.convert_to_equivalent(uin, eq, **kw)
                    back = x
        except Exception as e:
            if rout.offset:
                rec.note(f"roundtrip-through-offset-refused:{type(e).__name__}")
            elif form == "inplace" and uout in SELF_CANCELLING:      # the back leg is an in-place call on a self-cancelling input unit
                viol(f"C09:raises:{eq}:all-in-place-forms:{type(e).__name__}:self-cancelling-input-unit",
                              f"{uin}->{uout}->{uin} (in-place): second leg raised {type(e).__name__}: {str(e)[:200]}", case_d)
            elif "to" in results:     # a failing forward step was already reported above
                viol(f"C09:roundtrip:{eq}:{a}->{b}->{a}:{form}:raises:{type(e).__name__}", f"{uin}->{uout}->{uin} ({form}) raised {type(e).__name__}: {str(e)[:200]}", case_d)
            continue
        if back is None or not hasattr(back, "units"):
            if "to" in results:
                viol(f"C09:roundtrip:{eq}:{a}->{b}->{a}:{form}:none", f"{uin}->{uout}->{uin} ({form}) returned {back!r}", case_d)
            continue
        bg = np.asarray(back.d)
        e = eps_of(bg.dtype)
        with np.errstate(all="ignore"):
            if dt[1] == "4" and (tap.bad or not np.all(np.isfinite(bg)) or np.any(np.abs(bg) < F4_TINY)):
                rec.note("narrow-buffer-range:roundtrip"); continue
        rl = result_unit(back, ov, ovkey)
        if rl is None or rl.dim != rin.dim or abs(rl.scale / rin.scale - 1) > 1e-9:
            viol(f"C09:roundtrip:{eq}:{a}->{b}->{a}:{form}:unit", f"{uin}->{uout}->{uin} ({form}) ended in {back.units}", case_d)
            continue
        with np.errstate(all="ignore"):
            rb = 128 * e * rt * (amp_in + abs(rout.zero) / np.abs(ysi)) * np.abs(shaped.astype(equivs.LD)) + 128 * e * abs(rin.zero) / abs(rin.scale)
        if np.any(128 * e * rt > 0.25):
            rec.note(f"roundtrip-ill-conditioned:{eq}:{pair}"); continue       # the bound itself exceeds the value: nothing to judge
        ok, bad = within(bg, shaped.astype(equivs.LD), rb)
        if ok:
            okc(("roundtrip", eq, a, b, form, dt, kind)); okc(("roundtrip-units", eq, a, b, uin, uout), n=0); cnt("sub:roundtrip")
        else:
            viol(f"C09:roundtrip:{eq}:{a}->{b}->{a}:{form}:value",
                          f"{flat(shaped, bad)!r} {uin} -> {uout} -> {uin} ({eq}, {form}, {dt}, {kind}, {kw}) came back as {flat(bg, bad)!r}", case_d)
    # ---- (3) via an intermediate member == direct
    if a != b and forward_ok:
        direct = results["to"][0]
        for cmem in equivs.MEMBERS[eq]:
            if cmem in (a, b):
                continue
            pc_ = POOL[cmem]
            uc = pc_[r.randrange(len(pc_))]
            if RefUnit.get(uc).tainted:
                continue
            x, base, _ = build(unyt, arr, uin, kind, reg)
            tap = UfuncTap(unyt)
            try:
                with tap, np.errstate(all="ignore"):
                    via = x.to(uc, eq, **kw).to(uout, eq, **kw)
            except Exception as e:
                viol(f"C09:path:{eq}:{a}->{cmem}->{b}:raises:{type(e).__name__}", f"{uin}->{uc}->{uout} raised {type(e).__name__}: {str(e)[:200]}", case_d)
                continue
            if via is None or not hasattr(via, "units"):
                viol(f"C09:path:{eq}:{a}->{cmem}->{b}:none", f"{uin}->{uc}->{uout} returned {via!r}", case_d)
                continue
            vg = np.asarray(via.d)
            if dt[1] == "4" and (tap.bad or results["to"][2]):
                rec.note("narrow-buffer-range:path"); continue
            ok, bad = within(vg, direct, 256 * eps_of(vg.dtype) * np.maximum(cond, 1) * np.abs(direct) + 256 * eps_of(vg.dtype) * abs(rout.zero) / abs(rout.scale))
            if ok and str(via.units) == results["to"][3]:
                okc(("path", eq, a, cmem, b, dt, kind)); cnt("sub:path")
            else:
                viol(f"C09:path:{eq}:{a}->{cmem}->{b}:{'value' if not ok else 'unit'}",
                              f"{flat(shaped, bad)!r} {uin} -> {uc} -> {uout} gives {flat(vg, bad)!r} {via.units}; direct gives {flat(direct, bad)!r} {results['to'][3]} ({eq}, {kw})", case_d)


# ------------------------------------------------------------------------------------------------ special values in the data
SPECIAL_DTS = ("f8", "f8", "f4", "f8", "i8")
SP_MONITORS = ("formula", "neighbours", "twin", "purity", "unit", "determinism", "to_value", "inplace-vs-copy", "roundtrip", "path")


def special_cases(tier, seed, eq, a, b):
    """special-data cases of one direction (vf/gen/c09_special.py): data class x placement x container kind x dtype, units drawn from the
    whole pool of each member, every fifth case on operands bound to a registry with a non-MKS unit system"""
    r = core.rng(seed, "special", eq, a, b)
    pin, pout = POOL[a], POOL[b]
    combos = spg.cases_for(tier, r, SPECIAL_DTS)
    if a == b:                                     # same-dimension shortcut: an ordinary unit conversion; a thinner slice
        combos = [c for c in combos if c[0] in ("zero", "inf", "nan", "mixed", "negative")][::3 if tier == "quick" else 2]
    cases = []
    i = 200000
    for dc, pl, kd, dt in combos:
        if dc not in spg.classes_for(dt, eq):
            dt = "f8"
        if dc not in spg.classes_for(dt, eq):
            continue
        uin, uout = pin[r.randrange(len(pin))], pout[r.randrange(len(pout))]
        spec = None
        if i % 5 == 0:
            spec, uin, uout = regs.gen_spec(r, "nonmks-system", a, b, uin, uout, i // 5)
        cases.append([eq, a, b, uin, uout, dt, kd, kw_for(eq, r, i), i, spec, dc, pl]); i += 1
    return cases


def shape_like(kind, v):
    """a 1-d vector arranged the way build() arranges the readings of a container kind"""
    v = np.asarray(v)
    if kind == "q":
        return v[:1].reshape(())
    if kind == "one":
        return v[:1]
    if kind == "a2":
        return v.reshape(2, -1)
    if kind == "viewT":
        return v.reshape(-1, 2).T
    return v


def sp_leg(eq, a, b, xsi, sin, sout, K, kw, narrow):
    """expectation of one conversion leg on arbitrary data: class per element (vf/ref/c09_ieee.py), SI value, condition number.  Finite
    non-zero elements are judged only where the reading, its powers in the formula, the SI value and the result (SI and reading) stay well
    inside the range of the float type (an overflow / underflow on the way depends on the order of evaluation, which the property does not fix)"""
    xsi = np.asarray(xsi, dtype=equivs.LD)
    cls, ysi = ieee.expect(eq, a, b, xsi, K, margin=1e-4 if narrow else 1e-9, **kw)
    lo, hi = (equivs.LD(1e-30), equivs.LD(1e30)) if narrow else (equivs.LD(1e-290), equivs.LD(1e290))
    deg = equivs.degree(eq, a, b)
    with np.errstate(all="ignore"):
        finite_in = np.isfinite(xsi) & (xsi != 0)
        ok = np.ones(xsi.shape, dtype=bool)
        ax = np.abs(xsi)
        for v in (ax / abs(sin), (ax / abs(sin)) ** deg, ax, ax ** deg):
            ok &= (v > lo) & (v < hi)
        ay = np.abs(ysi)
        for v in (ay, ay / abs(sout)):
            ok &= (cls != ieee.FINITE) | ((v > lo) & (v < hi))
        if narrow and not (lo < abs(sin) < hi and lo < abs(sout) < hi):
            ok[...] = False
        cls = np.where(finite_in & ~ok, ieee.UNJUDGED, cls)
        if narrow:                                  # a finite result of a special element (v=0 -> gamma=1) is fine; finite data needs the range
            cls = np.where(~finite_in & (cls == ieee.FINITE) & ~((ay / abs(sout) > lo) & (ay / abs(sout) < hi)), ieee.UNJUDGED, cls)
        _, cond, _ = equivs.convert(eq, a, b, np.where(finite_in, xsi, equivs.LD(1)), K, **kw)
        cond = np.where(np.isfinite(cond) & finite_in, cond, equivs.LD(1))
        if a == b:
            cond = np.ones_like(cond)
        e = EPS["f4"] if narrow else EPS["f8"]
        cls = np.where((cls == ieee.FINITE) & (64 * e * cond > 0.25), ieee.UNJUDGED, cls)
    return cls.astype(np.int8), ysi, cond


def sp_feed(cls, ysi):
    """the SI data a second leg starts from: what the first leg's class says (unjudged stays unjudged through NaN + a mask)"""
    y = np.array(ysi, dtype=equivs.LD, copy=True)
    y[cls == ieee.NAN] = np.nan
    y[(cls == ieee.PINF) | (cls == ieee.ANYINF)] = np.inf
    y[cls == ieee.NINF] = -np.inf
    y[cls == ieee.ZERO] = 0
    return y


def same_class(a_, b_, tol):
    """elementwise 'same numbers' for arbitrary data: both NaN, the same infinity, or finite within tol*|b| (+ exact equality); tol is a scalar
    or has one entry per element -> (ok, first bad index)"""
    a_ = np.asarray(a_, dtype=equivs.LD).reshape(-1)
    b_ = np.asarray(b_, dtype=equivs.LD).reshape(-1)
    if a_.shape != b_.shape:
        return False, 0
    tol = np.broadcast_to(np.asarray(tol, dtype=equivs.LD), a_.shape)
    with np.errstate(all="ignore"):
        ok = (np.isnan(a_) & np.isnan(b_)) | (a_ == b_) | (np.isfinite(a_) & np.isfinite(b_) & (np.abs(a_ - b_) <= tol * np.abs(b_)))
    if np.all(ok):
        return True, None
    return False, int(np.argmin(ok))


def group_scopes(bad, good):
    """[(scope, entries)] - a failure shared by all copying / all in-place / all forms is one mechanism"""
    cp_f = [e for e in COPY_ENTRIES if e in bad]; cp_p = [e for e in COPY_ENTRIES if e in good]
    ip_f = [e for e in INPLACE_ENTRIES if e in bad]; ip_p = [e for e in INPLACE_ENTRIES if e in good]
    if len(cp_f) >= 2 and not cp_p and len(ip_f) >= 2 and not ip_p:
        return [("all-forms", cp_f + ip_f)]
    groups = [("all-copying-forms", cp_f)] if (len(cp_f) >= 2 and not cp_p) else [(e, [e]) for e in cp_f]
    groups += [("all-in-place-forms", ip_f)] if (len(ip_f) >= 2 and not ip_p) else [(e, [e]) for e in ip_f]
    return groups


def run_special(unyt, rec, K, case, r):
    """one special-data case: every call door on the same data, judged element by element against the IEEE evaluation of the formula;
    then ordinary neighbours vs an all-ordinary twin, determinism under heap poisoning, in-place vs copy, to_value, there-and-back, paths"""
    eq, a, b, uin, uout, dt, kind, kw, idx, spec, dclass, placement = case
    pair = f"{a}->{b}"
    reg = U = None
    ksuf, rcell, rdesc = "", (), ""
    if spec is not None:
        try:
            reg = regs.build_registry(unyt, spec)
        except Exception as e:
            rec.violation(f"C09:registry-construction:{spec['cls']}:{type(e).__name__}", f"{regs.describe(spec)} raised {type(e).__name__}: {str(e)[:200]}", spec)
            return
        ksuf, rcell, rdesc = ":reg=" + spec["cls"], ("reg=" + spec["cls"],), f"[operands bound to {regs.describe(spec)}] "
        if spec["tu"] == "own":
            U = lambda s_: unyt.Unit(s_, registry=reg)      # noqa: E731
        rec.count("special:reg-cases")
    rin, rout = RefUnit.get(uin), RefUnit.get(uout)
    if rin.tainted or rout.tainted or rin.offset or rout.offset:
        rec.count("skipped:special:tainted-or-offset-unit"); return
    ordinary = gen_readings(eq, a, rin, dt, r, NVAL, equivs.degree(eq, a, b))
    if ordinary is None:
        rec.count("skipped:special:no-ordinary-values:" + dt); return
    if kind in ("q", "one"):
        placement = "all"
    arr, labels1 = spg.place(ordinary, dclass, placement, dt, r, spg.edge_readings(eq, a, rin.scale))
    order = shape_like(kind, np.arange(arr.size)).reshape(-1)
    labels = [labels1[i] for i in order]
    is_ord = np.array([l == "ordinary" for l in labels])
    _, _, shaped = build(unyt, arr, uin, kind, reg)
    narrow = dt == "f4"
    e_in = EPS["f4"] if narrow else EPS["f8"]
    xsi = rin.to_si(np.asarray(shaped).astype(equivs.LD))
    cls, ysi, cond = sp_leg(eq, a, b, xsi, rin.scale, rout.scale, K, kw, narrow)
    if narrow:                                      # extreme finite float32 elements are not what the tap on the twin call sees
        cls = np.where(np.array([l in ("tiny", "huge") for l in labels]).reshape(np.shape(cls)), ieee.UNJUDGED, cls).astype(np.int8)
    fcls, fcond = cls.reshape(-1), cond.reshape(-1)
    if not np.any(fcls != ieee.UNJUDGED):
        rec.count("special:case-with-no-judged-element")
    case_d = {"eq": eq, "from": a, "to": b, "uin": uin, "uout": uout, "dtype": dt, "kind": kind, "kw": kw, "data_class": dclass, "placement": placement,
              "readings": [repr(v) for v in np.asarray(shaped, dtype="f8").reshape(-1).tolist()], "element_labels": labels,
              "expected_class": [ieee.NAMES[int(c)] for c in fcls]}
    if spec is not None:
        case_d["registry"] = spec
    rec.reach(f"special:{eq}:{pair}")
    rec.sample(case_d, limit=1)
    mixed_arr = bool(np.any(is_ord)) and not bool(np.all(is_ord))
    cellbase = (eq, a, b, dt, kind, dclass, placement)

    def viol(key, desc):
        rec.violation(key + ksuf, rdesc + desc, case_d)

    def okc(mon, *cell):
        rec.ok(("special-" + mon,) + cell + rcell)
        rec.count("sub:special:" + mon)

    def want_in(lab):
        w = lab.from_si(ysi)
        bd = ((64 * (EPS["f4"] if narrow else EPS["f8"]) + rin.utol) * cond + rout.utol + (lab.utol if lab is not rout else 0.0)) * np.abs(w)
        return w, bd

    def elem(i, v):
        return repr(np.asarray(v, dtype="f8").reshape(-1)[i].item())

    entries = [e for e in COPY_ENTRIES + INPLACE_ENTRIES if not (a == b and e.startswith("Equivalence"))]
    r.shuffle(entries)
    det_inplace = r.choice(INPLACE_ENTRIES[:3])
    results, failed, raised, passed = {}, {}, {}, set()
    twin_bad, twin_good = {}, set()
    det_bad, det_good = {}, set()
    for entry in entries:
        inplace = entry in INPLACE_ENTRIES
        x, base, _ = build(unyt, arr, uin, kind, reg)
        before = snap(x)
        bbefore = snap(base) if base is not None else None
        heap.poison(heap.sizes_for(x), spg.SENTINELS[0])
        try:
            with np.errstate(all="ignore"):
                res = call_entry(unyt, entry, x, uout, eq, kw, U)
            exc = None
        except Exception as e:
            res, exc = None, e
        rec.count("calls:special:" + entry)
        if exc is not None:
            raised[entry] = (type(exc).__name__, f"{eq} {uin}->{uout} via {entry} on {dclass} data ({dt}, {kind}, {placement}, {kw}) raised {type(exc).__name__}: {str(exc)[:200]}")
            continue
        if res is None:
            viol(f"C09:returns-none:{eq}:{pair}:{entry}", f"{eq} {uin}->{uout} via {entry} ({dt}, {kind}) on {dclass} data returned None")
            continue
        if not inplace:
            after = snap(x)
            what = None
            if after != before:
                what = "values" if after[1] != before[1] else ("units" if after[4] != before[4] else "dtype-or-shape")
            elif base is not None and snap(base) != bbefore:
                what = "base-of-view"
            if what:
                viol(f"C09:input-mutated:{eq}:{pair}:{entry}:{what}:special-data", f"{entry} is a copying form but changed its input ({what}) on {dclass} data: {eq} {uin}->{uout}, input now {x!r}")
            else:
                okc("purity", entry, *cellbase)
        if entry == "to_value":
            if hasattr(res, "units"):
                viol(f"C09:to_value:{eq}:{pair}:not-bare", f"to_value returned {type(res).__name__} with units"); continue
            got, rlab = np.asarray(res), rout
        else:
            rlab = result_unit(res)
            if rlab is None:
                viol(f"C09:unit:{eq}:{pair}:{entry}:unreadable", f"result of {entry} carries no readable unit: {res!r}"); continue
            if rlab.tainted:
                rec.count("skipped:tainted-result-label"); continue
            got = np.asarray(res.d)
            free = entry.startswith("Equivalence")
            if rlab.dim != rout.dim or (not free and abs(rlab.scale / rout.scale - 1) > 1e-9):
                viol(f"C09:unit:{eq}:{pair}:{entry}:{'dimension' if rlab.dim != rout.dim else 'scale'}:special-data",
                     f"{eq} {uin}->{uout} via {entry} on {dclass} data: result is labelled {res.units}"); continue
            okc("unit", entry, *cellbase)
        if got.shape != np.shape(shaped):
            viol(f"C09:result-shape:{eq}:{pair}:{entry}", f"{entry}: result shape {got.shape}, input shape {np.shape(shaped)}"); continue
        # ---- the same call on the all-ordinary twin: neighbours of special elements must not notice them (a conversion is an elementwise
        #      map); for 4-byte data the tap on the twin call says whether a float32 buffer could hold every intermediate and factor
        gt, nbad = None, False
        if mixed_arr or narrow:
            xt, _, tshaped = build(unyt, ordinary, uin, kind, reg)
            tap = UfuncTap(unyt)
            try:
                with tap, np.errstate(all="ignore"):
                    rest = call_entry(unyt, entry, xt, uout, eq, kw, U)
                gt = np.asarray(rest) if entry == "to_value" else np.asarray(rest.d)
                nbad = tap.bad
                if narrow:
                    with np.errstate(all="ignore"):
                        nbad = nbad or not np.all(np.isfinite(gt)) or bool(np.any(np.abs(gt) < F4_TINY))
            except Exception:
                gt, nbad = None, True           # an ordinary case that raises is the ordinary workload's subject
        results[entry] = (got.copy(), rlab, str(getattr(res, "units", "")), narrow and nbad)
        if narrow and nbad:
            rec.note("narrow-buffer-range:special:" + entry)
        # ---- formula, element by element
        want, bd = want_in(rlab)
        jcls = cls if not (narrow and nbad) else np.full(np.shape(cls), ieee.UNJUDGED, dtype=np.int8)
        if narrow or (got.dtype.kind == "f" and got.dtype.itemsize == 4):
            with np.errstate(all="ignore"):     # readings of the delivered label must fit float32 too
                aw = np.abs(want)
                jcls = np.where((jcls == ieee.FINITE) & ~((aw > 1e-30) & (aw < 1e30)), ieee.UNJUDGED, jcls)
        nj, badi, gotcls = ieee.judge(got, jcls, want, bd)
        if badi is None:
            if nj:
                okc("formula", entry, *cellbase)
                passed.add(entry)
                fj = np.asarray(jcls).reshape(-1)
                for lab_ in {labels[i] for i in range(len(labels)) if fj[i] != ieee.UNJUDGED and labels[i] != "ordinary"}:
                    rec.count("special:class:" + lab_)
                if dclass in ("zero", "mixed") and any(labels[i] == "zero" and fj[i] != ieee.UNJUDGED for i in range(len(labels))):
                    rec.count(f"special:zero:{eq}:{pair}:{'in-place' if inplace else 'copy'}")
                nn = int(np.sum(is_ord & (fj != ieee.UNJUDGED)))
                if mixed_arr and nn:
                    rec.count("sub:special:neighbours", nn)
                rec.count("special:door:" + entry)
            else:
                rec.count("special:call-with-no-judged-element")
        else:
            failed[entry] = (labels[badi], f"{eq} {uin}->{uout} via {entry} ({dt}, {kind}, {dclass} data placed {placement}, {kw}): element {badi} = {elem(badi, shaped)} {uin} "
                             f"({labels[badi]}) -> {elem(badi, got)} {uout if rlab is rout else rlab.s}; the formula evaluated on that element gives "
                             f"{ieee.NAMES[int(np.asarray(jcls).reshape(-1)[badi])]}" + (f" ({float(np.asarray(want).reshape(-1)[badi])!r})" if np.asarray(jcls).reshape(-1)[badi] == ieee.FINITE else "")
                             + f"; whole result {np.asarray(got, dtype='f8').reshape(-1).tolist()!r}")
        # ---- determinism: the same call on a fresh operand after poisoning the heap with another number
        if not inplace or entry == det_inplace:
            x2, _, _ = build(unyt, arr, uin, kind, reg)
            heap.poison(heap.sizes_for(x2), spg.SENTINELS[1])
            try:
                with np.errstate(all="ignore"):
                    res2 = call_entry(unyt, entry, x2, uout, eq, kw, U)
                got2 = np.asarray(res2) if entry == "to_value" else np.asarray(res2.d)
                if heap.same_bits(got, got2):
                    det_good.add(entry)
                    okc("determinism", entry, *cellbase)
                else:
                    okd, bi = same_class(got, got2, 0)
                    if okd:
                        rec.note("special:repeat-call-differs-only-in-bits-of-equal-values")     # -0.0 vs 0.0 or NaN payload
                        okc("determinism", entry, *cellbase)
                    else:
                        det_bad[entry] = (labels[bi], f"{eq} {uin}->{uout} via {entry} ({dt}, {kind}, {dclass} data placed {placement}): two calls on equal fresh operands gave "
                                          f"{elem(bi, got)} and {elem(bi, got2)} for element {bi} = {elem(bi, shaped)} ({labels[bi]}); results {np.asarray(got, dtype='f8').reshape(-1).tolist()!r} "
                                          f"vs {np.asarray(got2, dtype='f8').reshape(-1).tolist()!r}")
            except Exception as e2:
                det_bad[entry] = ("raises", f"second call of {entry} on an equal fresh operand raised {type(e2).__name__}: {str(e2)[:150]}")
        # ---- ordinary neighbours vs the all-ordinary twin
        if mixed_arr and gt is not None and gt.shape == got.shape:
            sel = is_ord
            tol = 8 * (EPS["f4"] if (narrow or 4 in (got.dtype.itemsize, gt.dtype.itemsize)) else EPS["f8"]) * fcond[sel]
            okt, bi = same_class(got.reshape(-1)[sel], gt.reshape(-1)[sel], tol)
            if okt:
                twin_good.add(entry)
                okc("twin", entry, *cellbase)
            else:
                gi = int(np.flatnonzero(sel)[bi])
                twin_bad[entry] = (f"{eq} {uin}->{uout} via {entry} ({dt}, {kind}, {dclass} data placed {placement}): ordinary element {gi} = {elem(gi, shaped)} gives {elem(gi, got)} "
                                   f"next to special elements but {elem(gi, gt)} in an array of ordinary elements only")
    for scope, es in group_scopes(failed, passed):
        labs = [failed[e_][0] for e_ in es]
        lab_ = max(sorted(set(labs)), key=labs.count)
        viol(f"C09:special-formula:{eq}:{pair}:{scope}:{lab_}" + (":" + dt if dt != "f8" else ""), failed[es[0]][1] + (f" [same for {len(es)} entry points: {', '.join(es)}]" if len(es) > 1 else ""))
    for scope, es in group_scopes(det_bad, det_good):
        viol(f"C09:special-determinism:{eq}:{pair}:{scope}:{det_bad[es[0]][0]}", det_bad[es[0]][1] + (f" [same for {', '.join(es)}]" if len(es) > 1 else ""))
    for scope, es in group_scopes(twin_bad, twin_good):
        viol(f"C09:special-neighbours:{eq}:{pair}:{scope}:{dclass}", twin_bad[es[0]] + (f" [same for {', '.join(es)}]" if len(es) > 1 else ""))
    if raised:
        ran = set(results)
        for cname in sorted({c for c, _ in raised.values()}):
            bad = {e_: v for e_, v in raised.items() if v[0] == cname}
            good = ran | {e_ for e_ in raised if raised[e_][0] != cname}
            for scope, es in group_scopes(bad, good):
                viol(f"C09:special-raises:{eq}:{pair}:{scope}:{cname}:{dclass}" + (":" + dt if dt != "f8" else ""), raised[es[0]][1] + (f" [same for {len(es)} entry points: {', '.join(es)}]" if len(es) > 1 else ""))
    forward_ok = "to" in passed
    # ---- to_value == to().d
    if "to_value" in results and "to" in results:
        g1, g2 = results["to_value"][0], results["to"][0]
        if g1.shape == g2.shape and np.array_equal(np.asarray(g1, dtype="f8"), np.asarray(g2, dtype="f8"), equal_nan=True):
            okc("to_value", *cellbase)
        else:
            viol(f"C09:to_value:{eq}:{pair}:differs:special-data", f"{dclass} data: to_value({uout!r},{eq!r}) = {g1.tolist()!r} but to(...).d = {g2.tolist()!r}")
    if not forward_ok:
        rec.count("special:dependent-monitors-skipped:forward-failed-or-unjudged")
        return
    # ---- in-place == copy, every element (also the unjudged ones) for 8-byte data
    cg, cl, cu, cnb = results["to"]
    ivc_bad, ivc_good = {}, []
    for entry in INPLACE_ENTRIES[:3]:
        if entry not in results:
            continue
        ig, il, iu, inb = results[entry]
        if cnb or inb:
            rec.note("narrow-buffer-range:special:inplace-vs-copy"); continue
        if iu != cu:
            viol(f"C09:inplace-vs-copy:{eq}:{pair}:{entry}:unit:special-data", f"{dclass} data: in-place form ends in {iu!r}, copying form in {cu!r}"); continue
        nar = narrow or 4 in (ig.dtype.itemsize, cg.dtype.itemsize)
        sel = (fcls != ieee.UNJUDGED) if nar else np.ones(fcls.shape, dtype=bool)
        if not np.any(sel):
            continue
        okv, bi = same_class(ig.reshape(-1)[sel], cg.reshape(-1)[sel], 8 * (EPS["f4"] if nar else EPS["f8"]) * fcond[sel])
        if okv:
            okc("inplace-vs-copy", entry, *cellbase); ivc_good.append(entry)
        else:
            gi = int(np.flatnonzero(sel)[bi])
            ivc_bad[entry] = (labels[gi], f"{eq} {uin}->{uout} ({dt}, {kind}, {dclass} data placed {placement}, {kw}): element {gi} = {elem(gi, shaped)} ({labels[gi]}): in-place {entry} gives {elem(gi, ig)}, copying to() gives {elem(gi, cg)}")
    if len(ivc_bad) >= 2 and not ivc_good:
        k0 = next(iter(ivc_bad))
        viol(f"C09:special-inplace-vs-copy:{eq}:{pair}:all-in-place-forms:{ivc_bad[k0][0]}", ivc_bad[k0][1] + f" [same for {', '.join(ivc_bad)}]")
    else:
        for entry, (lab_, d_) in ivc_bad.items():
            viol(f"C09:special-inplace-vs-copy:{eq}:{pair}:{entry}:{lab_}", d_)
    if a == b or narrow:
        return                  # 4-byte data: each direction is judged on its own above (an in-place chain in a float32 buffer leaves the range)
    # ---- there and back: the formula of the way back applied to what the formula gave
    bcls, bsi, bcond = sp_leg(eq, b, a, sp_feed(cls, ysi), rout.scale, rin.scale, K, kw, narrow)
    bcls = np.where(cls == ieee.UNJUDGED, ieee.UNJUDGED, bcls)
    with np.errstate(all="ignore"):
        rt = equivs.roundtrip_cond(eq, a, b, np.where(np.isfinite(xsi) & (xsi != 0), xsi, equivs.LD(1)), K, **kw)
        rt = np.where(np.isfinite(rt), rt, equivs.LD(4))
        bcls = np.where((bcls == ieee.FINITE) & (128 * e_in * rt > 0.25), ieee.UNJUDGED, bcls)
        bwant = bsi / equivs.LD(rin.scale)
        bbound = (128 * e_in * rt + 4 * (rin.utol + rout.utol)) * np.abs(bwant)
    for form in ("copy", "inplace"):
        if form == "inplace" and (dt[1] == "4" or "convert_to_equivalent" not in passed):
            continue
        if not np.any(bcls != ieee.UNJUDGED):
            rec.count("special:roundtrip-with-no-judged-element"); break
        x, base, _ = build(unyt, arr, uin, kind, reg)
        try:
            with np.errstate(all="ignore"):
                if form == "copy":
                    back = x.to(uout, eq, **kw).to(uin, eq, **kw)
                else:
                    x.convert_to_equivalent(uout, eq, **kw)
                    x.convert_to_equivalent(uin, eq, **kw)
                    back = x
        except Exception as e:
            viol(f"C09:special-roundtrip:{eq}:{a}->{b}->{a}:{form}:raises:{type(e).__name__}:{dclass}", f"{uin}->{uout}->{uin} ({form}) on {dclass} data raised {type(e).__name__}: {str(e)[:200]}")
            continue
        rl = result_unit(back)
        if rl is None or rl.dim != rin.dim or abs(rl.scale / rin.scale - 1) > 1e-9:
            viol(f"C09:roundtrip:{eq}:{a}->{b}->{a}:{form}:unit:special-data", f"{uin}->{uout}->{uin} ({form}) on {dclass} data ended in {getattr(back, 'units', None)}"); continue
        bg = np.asarray(back.d)
        nj, badi, gotcls = ieee.judge(bg, bcls, bwant, bbound)
        if badi is None:
            if nj:
                okc("roundtrip", form, *cellbase)
        else:
            viol(f"C09:special-roundtrip:{eq}:{a}->{b}->{a}:{form}:{labels[badi]}",
                 f"element {badi} = {elem(badi, shaped)} {uin} ({labels[badi]}) -> {uout} -> {uin} ({eq}, {form}, {dt}, {kind}, {kw}) came back as {elem(badi, bg)}; the two formulas "
                 f"applied in turn give {ieee.NAMES[int(bcls.reshape(-1)[badi])]}" + (f" ({float(bwant.reshape(-1)[badi])!r})" if bcls.reshape(-1)[badi] == ieee.FINITE else ""))
    # ---- via an intermediate member: judged where the two formulas applied in turn give what the direct formula gives
    for cmem in equivs.MEMBERS[eq]:
        if cmem in (a, b):
            continue
        pc_ = POOL[cmem]
        uc = pc_[r.randrange(len(pc_))]
        rc = RefUnit.get(uc)
        if rc.tainted or rc.offset:
            continue
        c1, y1, cd1 = sp_leg(eq, a, cmem, xsi, rin.scale, rc.scale, K, kw, narrow)
        c2, y2, cd2 = sp_leg(eq, cmem, b, sp_feed(c1, y1), rc.scale, rout.scale, K, kw, narrow)
        with np.errstate(all="ignore"):
            same = (c2 == cls) | ((cls == ieee.ANYINF) & ((c2 == ieee.PINF) | (c2 == ieee.NINF)))
            agree = (c1 != ieee.UNJUDGED) & same & (cls != ieee.UNJUDGED) & ((cls != ieee.FINITE) | (np.abs(y2 - ysi) <= 1e-9 * np.abs(ysi)))
        pcls = np.where(agree, cls, ieee.UNJUDGED)
        if not np.any(pcls != ieee.UNJUDGED):
            rec.count("special:path-with-no-judged-element"); continue
        x, base, _ = build(unyt, arr, uin, kind, reg)
        try:
            with np.errstate(all="ignore"):
                via = x.to(uc, eq, **kw).to(uout, eq, **kw)
        except Exception as e:
            viol(f"C09:special-path:{eq}:{a}->{cmem}->{b}:raises:{type(e).__name__}:{dclass}", f"{uin}->{uc}->{uout} on {dclass} data raised {type(e).__name__}: {str(e)[:200]}")
            continue
        vg = np.asarray(via.d)
        w = ysi / equivs.LD(rout.scale)
        with np.errstate(all="ignore"):
            pb = (256 * e_in * np.maximum(cond, 1) * np.maximum(cd1, 1) + 4 * (rin.utol + rout.utol + rc.utol)) * np.abs(w)
        nj, badi, gotcls = ieee.judge(vg, pcls, w, pb)
        if badi is None:
            okc("path", cmem, *cellbase)
        else:
            viol(f"C09:special-path:{eq}:{a}->{cmem}->{b}:{labels[badi]}",
                 f"element {badi} = {elem(badi, shaped)} {uin} ({labels[badi]}) -> {uc} -> {uout} gives {elem(badi, vg)}; direct conversion and the formula give "
                 f"{elem(badi, results['to'][0])} / {ieee.NAMES[int(pcls.reshape(-1)[badi])]} ({eq}, {dt}, {kind}, {kw})")


# ------------------------------------------------------------------------------------------------ refusal and membership
REFUSE_ENTRIES = ("to", "in_units", "to_equivalent", "to_value", "convert_to_units", "convert_to_equivalent", "Equivalence.convert")


REFUSE_REGS = ("cgs", "galactic", "code", "imperial", "planck", "added", "geometrized", "solar", "mks")


def refuse_spec(rk):
    """registry specs of the refusal / membership probes (units stay default spellings; the registry differs)"""
    spec = {"cls": "nonmks-system", "sys": rk, "add": [], "mod": [], "codesys": False, "tu": "own"}
    if rk == "mks":
        spec["cls"] = "mks-system"
    elif rk == "code":
        spec.update(cls="code-units", sys="cgs", codesys=True,
                    add=[["code_length", 3.0e21, "length", False], ["code_mass", 2.0e40, "mass", False], ["code_time", 3.15e13, "rate", False],
                         ["code_temperature", 2.0, "temperature", False]])
    elif rk == "added":
        spec.update(cls="added-symbols", sys=None, add=[["my_energy", 2.5e-7, "energy", True], ["my_length", 3.0e3, "length", False]])
    return spec


def run_refuse(unyt, rec, payload):
    eq = payload["eq"]
    tier = payload["tier"]
    r = core.rng(payload["seed"], "refuse", eq)
    dd = payload["dims"]
    info = {}
    for kname, us in dd.items():
        for u in us:
            info[u] = (kname, RefUnit.get(u))
    npair = 0
    regcache = {}
    for (u1, (k1, r1)), (u2, (k2, r2)) in itertools.product(info.items(), info.items()):
        if r1.dim == r2.dim:
            continue                  # same-dimension shortcut: ordinary conversion
        if equivs.covers(eq, r1.dim, r2.dim):
            continue
        variants = [("f8", "a1", None)] if tier == "quick" else [("f8", "a1", None), ("i8", "q", None), ("f4", "view", None)]
        npair += 1
        if tier == "thorough" or npair % 3 == 0:       # the same request on operands bound to a non-default registry
            rk = REFUSE_REGS[(npair // 3) % len(REFUSE_REGS)]
            variants.append(("f8", ("a1", "q", "view")[npair % 3], rk))
        for dt, kind, rk in variants:
            arr = np.array([1 + r.randrange(9), 2, 3, 4, 5, 7], dtype=dt)
            reg, U, ksuf, rcell = None, None, "", ()
            if rk is not None:
                if rk not in regcache:
                    regcache[rk] = regs.build_registry(unyt, refuse_spec(rk))
                reg = regcache[rk]
                U = lambda s_, reg=reg: unyt.Unit(s_, registry=reg)      # noqa: E731
                cls_ = refuse_spec(rk)["cls"]
                ksuf, rcell = ":reg=" + cls_, ("reg=" + cls_,)
            for entry in REFUSE_ENTRIES:
                x, base, _ = build(unyt, arr, u1, kind, reg)
                before = snap(x)
                try:
                    with np.errstate(all="ignore"):
                        res = call_entry(unyt, entry, x, u2, eq, {}, U)
                    exc = None
                except Exception as e:
                    exc = e
                rec.count("calls:refuse:" + entry)
                kk = f"{'member' if equivs.has_member(eq, r1.dim) else 'outsider'}:{k1}->{'member' if equivs.has_member(eq, r2.dim) else 'outsider'}:{k2}"
                rd = f"[operands bound to {regs.describe(refuse_spec(rk))}] " if rk else ""
                if exc is None:
                    rec.violation(f"C09:not-refused:{eq}:{kk}:{entry}" + ksuf,
                                  f"{rd}{arr.tolist()} {u1} -> {u2!r} with equivalence {eq!r} via {entry} returned {res!r}; {eq} does not relate these dimensions", [eq, u1, u2, entry, rk])
                elif type(exc).__name__ != "InvalidUnitEquivalence" or not isinstance(exc, unyt.exceptions.InvalidUnitEquivalence):
                    rec.violation(f"C09:wrong-exception:{eq}:{kk}:{entry}:{type(exc).__name__}" + ksuf,
                                  f"{rd}{u1} -> {u2!r} with equivalence {eq!r} via {entry} raised {type(exc).__name__} ({str(exc)[:150]}), not InvalidUnitEquivalence", [eq, u1, u2, entry, rk])
                else:
                    rec.ok(("refusal", eq, k1, k2, entry, dt, kind) + rcell); rec.count("sub:refusal")
                    if rk is not None:
                        rec.count("reg:sub:refusal")
                    if snap(x) != before:
                        rec.note(f"operand-changed-by-refused-call:{entry}")
    rec.reach("refuse:" + eq)
    rec.sample({"refuse": eq, "dims": sorted(dd)[:6], "entries": list(REFUSE_ENTRIES)}, limit=1)


def norm_eqname(line):
    head = line.split(":", 1)[0]
    head = head.split("(")[0].strip()
    return head.replace(" ", "_")


def run_membership(unyt, rec, payload):
    for kname, us in payload["dims"].items():
        for u in us:
            ru = RefUnit.get(u)
            U = unyt.Unit(u)
            q = unyt.unyt_array(np.array([1.0, 2.0]), u)
            expect = {eq for eq in EQS if equivs.has_member(eq, ru.dim)}
            for eq in EQS:
                for api, fn in (("Unit.has_equivalent", lambda: U.has_equivalent(eq)), ("array.has_equivalent", lambda: q.has_equivalent(eq))):
                    try:
                        got = fn()
                    except Exception as e:
                        rec.violation(f"C09:has_equivalent:{eq}:{kname}:{api}:raises", f"{api}({eq!r}) on {u!r} raised {type(e).__name__}: {e}", [u, eq]); continue
                    if bool(got) == (eq in expect) and isinstance(got, (bool, np.bool_)):
                        rec.ok(("has_equivalent", eq, kname, api)); rec.count("sub:has_equivalent")
                    else:
                        rec.violation(f"C09:has_equivalent:{eq}:{kname}:{api}:{'true' if got else 'false'}",
                                      f"{api}({eq!r}) on {u!r} is {got!r}; {eq} relates {equivs.MEMBERS[eq]}", [u, eq])
            for api, obj in (("Unit.list_equivalencies", U), ("array.list_equivalencies", q)):
                buf = io.StringIO()
                try:
                    with contextlib.redirect_stdout(buf):
                        obj.list_equivalencies()
                except Exception as e:
                    rec.violation(f"C09:list_equivalencies:{kname}:{api}:raises", f"{api} on {u!r} raised {type(e).__name__}: {e}", [u]); continue
                listed = {norm_eqname(l) for l in buf.getvalue().splitlines() if l.strip()}
                if listed == expect:
                    rec.ok(("list_equivalencies", kname, api)); rec.count("sub:list_equivalencies")
                else:
                    rec.violation(f"C09:list_equivalencies:{kname}:{api}:{'extra' if listed - expect else 'missing'}",
                                  f"{api} on {u!r} lists {sorted(listed)}; the equivalences with a {kname} member are {sorted(expect)}", [u])
    # the same questions asked of units / arrays bound to non-default registries (incl. registry symbols)
    for rk in REFUSE_REGS:
        spec = refuse_spec(rk)
        reg = regs.build_registry(unyt, spec)
        ov = regs.overlay(spec) or None
        ovkey = tuple(sorted((k, v[0]) for k, v in ov.items())) if ov else None
        probe = [(kname, us[0]) for kname, us in payload["dims"].items()] + [("registry-symbol", sym) for sym in (ov or {})]
        for kname, u in probe:
            ru = RefUnit.get(u, ov, ovkey)
            U = unyt.Unit(u, registry=reg)
            q = unyt.unyt_array(np.array([1.0, 2.0]), u, registry=reg)
            expect = {eq for eq in EQS if equivs.has_member(eq, ru.dim)}
            for eq in EQS:
                for api, fn in (("Unit.has_equivalent", lambda: U.has_equivalent(eq)), ("array.has_equivalent", lambda: q.has_equivalent(eq))):
                    try:
                        got = fn()
                    except Exception as e:
                        rec.violation(f"C09:has_equivalent:{eq}:{kname}:{api}:raises:reg={spec['cls']}", f"{api}({eq!r}) on {u!r} in {regs.describe(spec)} raised {type(e).__name__}: {e}", [u, eq, rk]); continue
                    if bool(got) == (eq in expect) and isinstance(got, (bool, np.bool_)):
                        rec.ok(("has_equivalent", eq, kname, api, "reg=" + spec["cls"])); rec.count("sub:has_equivalent"); rec.count("reg:sub:has_equivalent")
                    else:
                        rec.violation(f"C09:has_equivalent:{eq}:{kname}:{api}:{'true' if got else 'false'}:reg={spec['cls']}",
                                      f"{api}({eq!r}) on {u!r} in {regs.describe(spec)} is {got!r}; {eq} relates {equivs.MEMBERS[eq]}", [u, eq, rk])
    # registry content itself
    from unyt.equivalencies import equivalence_registry
    if set(equivalence_registry) == set(EQS):
        rec.ok(("registry", "names")); rec.count("sub:registry")
    else:
        rec.violation("C09:registry:names", f"equivalence_registry holds {sorted(equivalence_registry)}, the built-ins are {sorted(EQS)}", None)
    rec.reach("membership")
    rec.sample({"membership_dims": sorted(payload["dims"])}, limit=1)


def worker(batch, rec):
    import warnings
    warnings.simplefilter("ignore")
    import unyt
    bid, (kind_, payload) = batch
    if kind_ == "conv":
        K = read_constants(unyt)
        for case in payload["cases"]:
            r = core.rng(payload["seed"], bid, case[0], case[1], case[2], case[8])
            run_case(unyt, rec, K, case, r)
    elif kind_ == "special":
        K = read_constants(unyt)
        for case in payload["cases"]:
            r = core.rng(payload["seed"], bid, "special", case[0], case[1], case[2], case[8])
            run_special(unyt, rec, K, case, r)
    elif kind_ == "refuse":
        run_refuse(unyt, rec, payload)
    elif kind_ == "membership":
        run_membership(unyt, rec, payload)


DECIDING = ("sub:formula", "sub:unit", "sub:purity", "sub:inplace-vs-copy", "sub:to_value", "sub:roundtrip", "sub:path", "sub:refusal",
            "sub:has_equivalent", "sub:list_equivalencies", "sub:base-equivalence-kw", "sub:offset-input")


# the same monitors evaluated on operands bound to a non-default registry
REG_DECIDING = tuple("reg:" + k for k in ("sub:formula", "sub:unit", "sub:purity", "sub:inplace-vs-copy", "sub:to_value", "sub:roundtrip", "sub:path",
                                          "sub:base-equivalence-kw", "sub:refusal", "sub:has_equivalent"))


def extra(tier, seed, results):
    counters = {}
    reached = set()
    nviol = 0
    for bid, res in results:
        for k, v in res.get("counters", {}).items():
            counters[k] = counters.get(k, 0) + v
        reached.update(res.get("reached", []))
        nviol += len(res.get("viol", {}))
    want = {f"{eq}:{a}->{b}" for (eq, a, b) in all_pairs()} | {"refuse:" + eq for eq in EQS} | {"membership"}
    unreached = sorted(want - reached)
    sub = {k: counters.get(k, 0) for k in DECIDING + REG_DECIDING}
    for cls in regs.CLASSES:                   # every registry class must have reached the formula and there-and-back monitors
        for m in ("sub:formula", "sub:roundtrip"):
            sub[f"reg:{cls}:{m}"] = counters.get(f"reg:{cls}:{m}", 0)
    for sysname in regs.NONMKS:                # ... and every built-in non-MKS system must have been a registry default
        sub["reg:system:" + sysname] = counters.get("reg:system:" + sysname, 0)
    # special values in the data: every sub-monitor, every data class, every call door, and an exact zero through every direction in
    # the copying and the in-place form
    for m in SP_MONITORS:
        sub["sub:special:" + m] = counters.get("sub:special:" + m, 0)
    for lab in ("zero", "neg-zero", "negative", "inf", "neg-inf", "nan", "tiny", "huge", "beyond-edge"):      # at-edge elements are generated but rarely judgeable
        sub["special:class:" + lab] = counters.get("special:class:" + lab, 0)
    for e in COPY_ENTRIES + INPLACE_ENTRIES:
        sub["special:door:" + e] = counters.get("special:door:" + e, 0)
    zero_missing = []
    for (eq, a, b) in all_pairs():
        if a != b:
            for form in ("copy", "in-place"):
                if not counters.get(f"special:zero:{eq}:{a}->{b}:{form}", 0):
                    zero_missing.append(f"{eq}:{a}->{b}:{form}")
    sub["special:directions-x-forms-with-a-judged-exact-zero"] = 2 * sum(1 for (eq, a, b) in all_pairs() if a != b) - len(zero_missing)
    if not nviol:
        if zero_missing:
            raise core.Inconclusive("exact-zero-never-judged-through:" + ",".join(zero_missing[:6]))
        dead = [k for k, v in sub.items() if v == 0]
        if dead:
            raise core.Inconclusive("sub-monitors-never-evaluated:" + ",".join(dead))
        missing_pairs = [f"{eq}:{a}->{b}" for (eq, a, b) in all_pairs() if a != b and f"{eq}:{a}->{b}" in unreached]
        if missing_pairs:
            raise core.Inconclusive("member-pairs-never-reached:" + ",".join(missing_pairs[:6]))
    return {"sub_monitor_evaluations": sub, "unreached": unreached,
            "special_data": {k[8:]: v for k, v in counters.items() if k.startswith("special:") and not k.startswith("special:zero:")},
            "registry_cases": {k[10:]: v for k, v in counters.items() if k.startswith("reg:cases:")},
            "monitor_calls": {k[6:]: v for k, v in counters.items() if k.startswith("calls:")},
            "skipped": {k[8:]: v for k, v in counters.items() if k.startswith("skipped:")}}
