"""C04 - arithmetic results do not depend on the units the operands are written in.

Differential (reference interpreter on SI magnitudes, vf/ref/siinterp.py) + metamorphic (every leaf independently
re-expressed in another commensurable unit) monitoring of generated expression programs, in two unit pools:
the dyadic pool (vf/gen/dyadic.py; scales 2**(12k): everything scale-covariant has to agree bit-for-bit, so //, %, divmod,
comparisons, min/max are decided without tolerance) and the real pool (prefixed, compound, custom-registry units; judged
against the running forward error bound of the reference interpreter).
"""
import itertools
import operator
import os
import warnings
import numpy as np
from vf import core
from vf.ref import dims, siinterp
from vf.gen import dyadic
from vf.gen import c04_programs as G
from vf.gen import c04_dtypeaxis as DA
from .common import chunks

RULE = ("one evaluation = one observable (returned value, out= buffer, alias of an in-place target) of one node of one variant of an "
        "expression program, compared with the reference interpreter (SI magnitude within the running error bound - bit-for-bit in the "
        "dyadic pool - dimension vector, shape), plus one evaluation per node and re-expressed variant for the metamorphic comparison "
        "(same SI result / same refusal) and one per +/- observable for the left-most-unit rule. Programs: random DAGs (depth <= 6, up to 10 "
        "operations drawn from 52 operations x call forms {operator, ufunc call, out= unyt buffer, out= ndarray, in-place operator, "
        "ufunc.outer, reduce/accumulate, np function, method} = 145 catalogue entries, leaves independently re-expressed in 2-3 other "
        "commensurable units, two registries per pool) and an enumerated depth-1 matrix (every operation x form x ordered pair of pool "
        "units x operand kinds array/scalar/bare x exponent kinds x axes; dyadic pool also x operand dtypes f4/i8/c16), and the leaf-dtype "
        "axis (vf/gen/c04_dtypeaxis.py): multiplicative programs (multiply / divide / matmul / vecdot / dot / inner / vdot / outer in "
        "operator, call and ufunc.outer form without out=, depth 1 enumerated and depth 2-3 random chains) whose units cancel partly into "
        "a bare coefficient of every class (fraction, non-integer, integer, >= 1e6, none), leaves in int8..uint64, float16/32/64, "
        "complex64/128 and as Python int/float literals, built by the class constructors or by number*Unit, in 4 variants (as drawn; every "
        "leaf as float64; every leaf re-expressed - integer leaves stay integers when the unit ratio is an integer; every leaf in SI units). "
        "distinct = (pool, operation, form, operand-unit relation, operand kinds incl. dtype, observable, law) tuples judged on a case")
ASSUMPTIONS = (
    "operand SI magnitude = operand.d * operand.units.base_value as observed on the leaf (the property's observe_at); that the unit table is right is C02's subject - leaf scales are cross-checked against vf/ref (dyadic: exactly, real: 1e-5) and a disagreeing program is skipped and noted",
    "reference interpreter vf/ref/siinterp.py: the same NumPy routine applied to plain float64 SI arrays; error model ROUND=6 ulp per operation in the real pool, NEAR=8 ulp for cbrt/pow/hypot/trig/arctan2 in both pools, 0 otherwise in the dyadic pool",
    "elements whose reference value cannot be decided inside the error bar (floor/mod/comparison at a discontinuity, division by an interval containing 0, tan near a pole) are excluded and counted (und)",
    "a program on which unyt raises is a refusal; it is judged only by the metamorphic law: all re-expressions must raise at the same node (matrix: all unit pairs of one (operation, form, operand kinds, dimension) group must agree)",
    "dimensionally invalid programs are never generated: comparisons/additions of a dimensional quantity with a bare number (C01's documented exceptions) and floor-division/divmod of different dimensions are outside C04",
    "left-most-unit rule: judged when both operands of + / - are quantities; when one side is a bare number (1 + 5*percent -> dimensionless; an all-zero percent array minus a bare array -> dimensionless) unyt applies its documented bare-number/zero idiom (C01's subject), the value is still judged and the label is recorded as a note only",
    "sin/cos/tan are driven only with operands whose dimension is exactly angle; exp/log/hyperbolic/inverse trig, rounding family, frexp/modf/spacing/nextafter/heaviside/ldexp are outside the claim and not driven; offset and logarithmic units are excluded (C08)",
    "method call forms (a.dot, a.sum, a.mean, ...) are driven only on quantities: a plain ndarray's C methods (ndarray.dot(quantity) returns a bare array) cannot be intercepted by unyt and are not unyt call forms",
    "every power is charged NEAR ulps even in the dyadic pool (NumPy evaluates x**2, x**0.5, np.power(x, array) by different routines that differ in the last place), so powers never feed a discontinuous operation in the dyadic pool; cube-root units (4096**(1/3) is not exactly 16 in float pow) get 4 ulp slack and are never leaf units there",
    "unit-scale noise: unyt evaluates the scale of unit**(1/3) with float pow (binary 1/3 amplified by ln(scale): 17 ulp for 2**96) and its lru-cached unit rules later hand that unit object back for any unit that compares equal (same expression, scale within 1e-9), so a result scale may be a few 1e-15 off through history. Tolerated as rounding noise of the unit table, not an arithmetic defect: a dyadic-pool result whose scale is not a power of two gets (4 + 0.5*|log2 scale|) ulp, every real-pool result 0.5*|log2 scale| ulp, and the slack is handed on to everything computed from that result",
    "unit-scale noise, second manifestation: the cached rules also hand back the *coefficient* computed for the noisy unit (np.cbrt(np.prod(a_km2)) / a_km2 fills the cache; afterwards 6 km**2 // 2 km**2 is 2.999999999999998 in that process). Same decision: once a result unit with a non-power-of-two scale has been seen in a process, a dyadic-pool node with an operand whose unit prints like it gets that unit's slack (counted: dyadic:operand-unit-equals-a-noisy-unit-seen-earlier); errors of an ulp are not what C04 states, off-by-one quotients and wrong factors still fail",
    "left-most-unit rule compares the unit expression and the scale to 1e-12: unyt's cached unit rules may hand back an equal unit object whose scale differs in the last place (60.00000000000001 vs 60.0 for min)",
    "float32 operands (dtype matrix) are combined only with units at most 2**12 apart: a 2**24 ratio exhausts the 24-bit significand and the exact-sum argument no longer holds",
    "an out= ndarray / bare in-place target has no unit label: its numbers must equal the numbers of the returned quantity",
    "the same symbol defined with different sizes in two registries is a legitimate operand pair (custom-registry units of the quantifier); each operand means what its own registry says",
    "leaf-dtype axis: only the physical value is judged, never the dtype of the result; the rounding charged per operation is that of the narrowest float among the leaves of the variant (float16 2**-10, float32/complex64 2**-23), a failing element is undecidable only when its error bar exceeds max(1e-3, 64 eps of that dtype); programs are generated so that no intermediate leaves the narrowest integer dtype among the leaves (NumPy wraps integers silently: not unyt's arithmetic) nor the normal range of a float16/float32 leaf; in the bit-for-bit dyadic pool float16 leaves and float32/complex64 divisions are not driven (they round differently from the float64 reference)",
    "leaf-dtype axis: a leaf that does not hold exactly the intended numbers and unit after construction is skipped and noted (construction is C16's subject)",
)
MIN_EVALS = 100000
TIMEOUT = 1500
EPS = siinterp.EPS
DEBUG = bool(os.environ.get('VERIF_C04_DEBUG'))

OPER = {"add": operator.add, "subtract": operator.sub, "multiply": operator.mul, "divide": operator.truediv,
        "floor_divide": operator.floordiv, "remainder": operator.mod, "power": operator.pow, "less": operator.lt,
        "less_equal": operator.le, "greater": operator.gt, "greater_equal": operator.ge, "equal": operator.eq,
        "not_equal": operator.ne, "matmul": operator.matmul, "negative": operator.neg, "positive": operator.pos,
        "absolute": operator.abs}
IOPER = {"add": operator.iadd, "subtract": operator.isub, "multiply": operator.imul, "divide": operator.itruediv,
         "floor_divide": operator.ifloordiv, "remainder": operator.imod, "power": operator.ipow}
NPAGG = {"add.reduce": "sum", "multiply.reduce": "prod", "maximum.reduce": "max", "minimum.reduce": "min",
         "add.accumulate": "cumsum", "mean": "mean"}


# ------------------------------------------------------------------------------------------------ batches
def batches(tier, seed):
    q = tier == "quick"
    b = []
    nb = 32 if q else 64
    per = 150 if q else 1200
    for k in range(nb):
        b.append((f"dy/rand/{k}", ("rand", "dyadic", seed, per, 3 if q else 4)))
        b.append((f"re/rand/{k}", ("rand", "real", seed, per, 3 if q else 4)))
    b.append(("dy/matrix/dtypes/0", ("dtypes", "dyadic", tier)))
    # leaf-dtype axis (vf/gen/c04_dtypeaxis.py): multiplicative programs whose units cancel partly, leaves in every storage type
    for pool, nparts in (("real", 12 if q else 48), ("dyadic", 4 if q else 16)):
        for i in range(nparts):
            b.append((f"{pool[:2]}/dtaxis/matrix/{i}", ("dtaxis", pool, tier, "matrix", i, nparts, 0)))
    for k in range(8 if q else 32):
        for pool in ("real", "dyadic"):
            b.append((f"{pool[:2]}/dtaxis/chain/{k}", ("dtaxis", pool, tier, "chain", k, 0, seed)))
    for pool in ("dyadic", "real"):
        groups = {}
        for op, (cat, forms) in G.CATALOGUE.items():
            groups.setdefault(cat, []).append(op)
        for cat, ops in groups.items():
            n = {"bin_same": 8 if pool == "dyadic" else 16, "bin_any": 3 if pool == "dyadic" else 6, "power": 2, "product": 4}.get(cat, 2) * (1 if q else 2)
            if cat == "power":       # one operation: split by exponent instead
                np_ = 3 if q else 6
                for i in range(np_):
                    b.append((f"{pool[:2]}/matrix/{cat}/{i}", ("matrix", pool, tier, ops, i, np_)))
                continue
            for i, c in enumerate(chunks(ops, n)):
                b.append((f"{pool[:2]}/matrix/{cat}/{i}", ("matrix", pool, tier, c, 0, 1)))
    return b


# ------------------------------------------------------------------------------------------------ environment
class Env:
    def __init__(self, unyt, pool):
        self.unyt = unyt
        self.pool = G.DyadicPool() if pool == "dyadic" else G.RealPool()
        self.I = siinterp.Interp(self.pool.exact)
        if pool == "dyadic":
            self.regs = {"A": dyadic.registry(unyt, dyadic.ATOMS), "B": dyadic.registry(unyt, dyadic.ATOMS_B)}
            self.scratch = unyt.Unit("T4096", registry=self.regs["A"])
        else:
            from unyt import dimensions as ud
            sym = {"L": ud.length, "T": ud.time, "M": ud.mass}
            self.regs = {"default": None}
            for tag, code in G.REAL_CODE.items():
                reg = unyt.UnitRegistry()
                for name, (v, d) in code.items():
                    reg.add(name, v, sym[d])
                self.regs[tag] = reg
            self.scratch = unyt.Unit("hr")
        self._units = {}
        self.noisy = {}         # dyadic pool: unit expression -> slack, for every result unit seen in this process whose scale was not a power of two
        self.noise = 0.0        # slack of the node being judged: an operand unit prints like one of those (unyt's cached unit rules treat them as equal)
        self.undec = 1e-3       # a failing element whose error bar is wider than this (relative) is undecidable, not a violation

    def unit(self, expr, reg):
        k = (expr, reg)
        u = self._units.get(k)
        if u is None:
            r = self.regs[reg]
            u = self.unyt.Unit(expr, registry=r) if r is not None else self.unyt.Unit(expr)
            self._units[k] = u
        return u


class Skip(Exception):
    pass


def build_leaves(env, prog, j, rec):
    """-> (objects, reference values) of the leaves of variant j"""
    unyt, pool = env.unyt, env.pool
    objs, refs = {}, {}
    for i, nd in enumerate(prog["nodes"]):
        if nd["op"] != "leaf":
            continue
        if "dtypes" in nd:       # leaf-dtype axis: per-variant dtype / constructor / explicit numbers
            objs[i], refs[i] = build_leaf_dtaxis(env, nd, j, rec)
            continue
        shape = tuple(nd["shape"])
        v0 = np.array(nd["vals"], dtype=float).reshape(shape)
        if nd.get("imag") is not None:
            v0 = v0 + 1j * np.array(nd["imag"], dtype=float).reshape(shape)
        dt = {"f4": np.float32, "i8": np.int64, "c16": np.complex128}.get(nd.get("dtype"), np.float64)
        if nd["kind"] == "bare":
            objs[i] = float(v0) if shape == () else v0.copy()
            refs[i] = siinterp.leaf(v0, 1.0, dims.ZERO)
            continue
        reg = nd["reg"]
        u0 = env.unit(nd["units"][0], reg)
        uj = env.unit(nd["units"][j], reg)
        rs0, rd0 = pool.ref(nd["units"][0], reg)
        rsj, rdj = pool.ref(nd["units"][j], reg)
        s0, sj = float(u0.base_value), float(uj.base_value)
        if pool.exact:
            if s0 != rs0 or sj != rsj:
                rec.note("leaf-scale-differs-from-pool-definition")
                raise Skip()
            vj = v0 * (rs0 / rsj)
            relerr = 0.0
        else:
            if abs(s0 - rs0) > 1e-5 * abs(rs0) or abs(sj - rsj) > 1e-5 * abs(rsj):
                rec.note("leaf-scale-differs-from-ref-table")
                raise Skip()
            vj = v0 if j == 0 else v0 * (s0 / sj)
            relerr = 3 * EPS
        if dims.of_expr(uj.dimensions) != rdj:
            rec.note("leaf-dimension-differs-from-ref-table")
            raise Skip()
        if shape == ():
            objs[i] = unyt.unyt_quantity(dt(vj) if dt is not np.float64 else float(vj), uj)
        else:
            objs[i] = unyt.unyt_array(np.array(vj, dtype=dt), uj)
        refs[i] = siinterp.leaf(vj, sj, rdj, relerr)
    return objs, refs


def build_leaf_dtaxis(env, nd, j, rec):
    """one leaf of variant j of a leaf-dtype-axis program -> (operand, reference value)"""
    unyt, pool = env.unyt, env.pool
    shape = tuple(nd["shape"])
    tag = nd["dtypes"][j]
    npname = DA.DT[tag][0]
    cplx = nd.get("imag") is not None
    v0 = np.array(nd["vals"], dtype=float).reshape(shape)
    if cplx:
        v0 = v0 + 1j * np.array(nd["imag"], dtype=float).reshape(shape)

    def literal(v):
        conv = int if tag == "pyint" else float
        a = np.asarray(v)
        return conv(a) if a.shape == () else np.vectorize(conv, otypes=[object])(a).tolist()
    if nd["kind"] == "bare":
        if npname is None:
            obj = literal(v0) if shape == () else np.array(literal(v0))
        else:
            obj = np.array(v0, dtype=npname)
            if shape == ():
                obj = obj[()]
        return obj, siinterp.leaf(v0, 1.0, dims.ZERO)
    reg = nd["reg"]
    u0 = env.unit(nd["units"][0], reg)
    uj = env.unit(nd["units"][j], reg)
    rs0, rd0 = DA.ref(pool, nd["units"][0], reg)
    rsj, rdj = DA.ref(pool, nd["units"][j], reg)
    s0, sj = float(u0.base_value), float(uj.base_value)
    if pool.exact:
        if s0 != rs0 or sj != rsj:
            rec.note("leaf-scale-differs-from-pool-definition")
            raise Skip()
    elif abs(s0 - rs0) > 1e-5 * abs(rs0) or abs(sj - rsj) > 1e-5 * abs(rsj):
        rec.note("leaf-scale-differs-from-ref-table")
        raise Skip()
    if dims.of_expr(uj.dimensions) != rdj:
        rec.note("leaf-dimension-differs-from-ref-table")
        raise Skip()
    relerr = 0.0 if pool.exact else 3 * EPS
    explicit = nd["vvals"][j]
    if explicit is not None:
        vj = np.array(explicit, dtype=float).reshape(shape)
    elif nd["units"][j] == nd["units"][0]:
        vj = v0
    else:
        vj = v0 * ((rs0 / rsj) if pool.exact else (s0 / sj))
        if npname is not None and tag in DA.EPS_OF:
            vj = np.asarray(vj).astype(npname).astype(complex if cplx else float)      # the operand is what the narrow dtype holds
            if not pool.exact:
                relerr = DA.EPS_OF[tag]
    if npname is None:
        val = literal(vj)
    else:
        val = np.array(vj, dtype=npname)
        if shape == ():
            val = val[()]
    if nd.get("ctor") == "unitmul":
        obj = val * uj
    elif shape == ():
        obj = unyt.unyt_quantity(val, uj)
    else:
        obj = unyt.unyt_array(val, uj)
    held = np.asarray(obj.d)
    if held.shape != shape or not np.array_equal(held.astype(complex), np.asarray(vj).astype(complex)) or str(obj.units.expr) != str(uj.expr):
        rec.note("dtaxis:leaf-does-not-hold-the-intended-operand")      # construction is C16's subject: not judged here
        raise Skip()
    return obj, siinterp.leaf(vj, sj, rdj, relerr)


# ------------------------------------------------------------------------------------------------ executing one node with unyt
def fresh(unyt, x):
    if isinstance(x, unyt.unyt_array):
        return type(x)(np.array(np.asarray(x.d), copy=True), x.units)
    return np.array(x, copy=True)


def exec_node(env, nd, objs):
    """-> {observable name: object}"""
    unyt = env.unyt
    op, form = nd["op"], nd["form"]
    cat = G.CATALOGUE[op][0]
    args = [objs[i] for i in nd["args"]]
    shape = tuple(nd["shape"])

    def ubuf(shp=shape):
        return unyt.unyt_array(np.full(shp, 7.0), env.scratch)

    if cat in ("bin_same", "bin_any"):
        a, b = args
        if op == "divmod":
            if form == "op":
                r = divmod(a, b)
                return {"ret0": r[0], "ret1": r[1]}
            if form == "call":
                r = np.divmod(a, b)
                return {"ret0": r[0], "ret1": r[1]}
            b0, b1 = ubuf(), ubuf()
            r = np.divmod(a, b, out=(b0, b1))
            return {"ret0": r[0], "ret1": r[1], "out0": b0, "out1": b1}
        uf = getattr(np, op)
        if form == "op":
            return {"ret": OPER[op](a, b)}
        if form == "call":
            return {"ret": uf(a, b)}
        if form == "outer":
            return {"ret": uf.outer(a, b)}
        if form == "out":
            buf = ubuf()
            return {"ret": uf(a, b, out=buf), "out": buf}
        if form == "outnd":
            buf = np.zeros(shape, dtype=bool) if op in G.CMP else np.full(shape, 7.0)
            return {"ret": uf(a, b, out=buf), "outnd": buf}
        if form == "iop":
            t = fresh(unyt, a)
            alias = t
            t = IOPER[op](t, b)
            return {"ret": t, "alias": alias}
    elif cat in ("unary", "trig"):
        a = args[0]
        uf = getattr(np, op)
        if form == "op":
            return {"ret": OPER[op](a)}
        if form == "call":
            return {"ret": uf(a)}
        if form == "method":
            return {"ret": a.conj()}
        if form == "out":
            buf = ubuf()
            return {"ret": uf(a, out=buf), "out": buf}
        if form == "outnd":
            buf = np.full(shape, 7.0)
            return {"ret": uf(a, out=buf), "outnd": buf}
    elif cat == "power":
        a = args[0]
        p, pk = nd["p"], nd["pkind"]
        e = {"int": lambda: int(p), "float": lambda: float(p), "npfloat": lambda: np.float64(p), "arr0": lambda: np.array(float(p)),
             "qdimless": lambda: unyt.unyt_quantity(float(p), "dimensionless"),
             "qscaled": lambda: (unyt.unyt_quantity(float(p) / 4096.0, env.unit("D4096", "A")) if env.pool.exact
                                 else unyt.unyt_quantity(float(p) * 100.0, "percent")),
             "arrsame": lambda: np.full(np.shape(a), float(p))}[pk]()
        if form == "op":
            return {"ret": a ** e}
        if form == "call":
            return {"ret": np.power(a, e)}
        if form == "out":
            buf = ubuf()
            return {"ret": np.power(a, e, out=buf), "out": buf}
        if form == "iop":
            t = fresh(unyt, a)
            alias = t
            t **= e
            return {"ret": t, "alias": alias}
    elif cat == "reduce":
        a = args[0]
        axis = nd["axis"]
        axis = tuple(axis) if isinstance(axis, list) else axis
        if op == "mean" or form in ("np", "method"):
            fn = NPAGG[op]
            if form == "method" and isinstance(a, unyt.unyt_array):
                return {"ret": getattr(a, fn)(axis=axis)}
            return {"ret": getattr(np, fn)(a, axis=axis)}
        name, _, method = op.partition(".")
        f = getattr(getattr(np, name), method)
        if form == "ufunc":
            return {"ret": f(a, axis=axis)}
        if form == "out":
            buf = ubuf()
            return {"ret": f(a, axis=axis, out=buf), "out": buf}
    elif cat == "product":
        a, b = args
        fn = {"dot": np.dot, "matmul": np.matmul, "vecdot": getattr(np, "vecdot", None), "inner": np.inner, "vdot": np.vdot,
              "outerprod": np.outer, "cross": np.cross}[op]
        if form == "op":
            return {"ret": a @ b}
        if form == "np":
            return {"ret": fn(a, b)}
        if form == "method":
            # ndarray.dot(quantity) is NumPy's C method: no protocol reaches unyt, so only a quantity's own method is a unyt call form
            return {"ret": a.dot(b) if isinstance(a, unyt.unyt_array) else np.dot(a, b)}
        if form == "out":
            buf = ubuf()
            return {"ret": fn(a, b, out=buf), "out": buf}
    raise AssertionError(("no executor", op, form))


# ------------------------------------------------------------------------------------------------ observation and judging
def observe(x):
    """-> (numbers ndarray, scale, dimvec, unit string or None)"""
    u = getattr(x, "units", None)
    if u is not None and isinstance(x, np.ndarray):
        num = np.asarray(x.d)
        return num, float(u.base_value), dims.of_expr(u.dimensions), str(u.expr)
    if isinstance(x, (np.ndarray, np.generic, bool, int, float)):
        return np.asarray(x), 1.0, dims.ZERO, None
    raise TypeError(f"result of type {type(x).__name__}")


def okind(x):
    dt = np.asarray(x).dtype
    tag = "" if dt == np.float64 else f"[{dt.kind}{dt.itemsize}]"
    if hasattr(x, "units") and isinstance(x, np.ndarray):
        return ("q" if x.shape == () else "a") + tag
    return ("b" if np.ndim(x) == 0 else "n") + tag


def relation(env, nd, objs, refs):
    """structural description of the operand units of a node (for keys and cells)"""
    a = [objs[i] for i in nd["args"]]
    if nd["op"] == "power":
        return "exp-" + nd["pkind"] + ("" if hasattr(a[0], "units") else ":bare-base")
    if len(a) == 1:
        u = getattr(a[0], "units", None)
        if u is None:
            return "bare"
        s = str(u.expr)
        return "atom" if s.isidentifier() else "compound"
    ua, ub = getattr(a[0], "units", None), getattr(a[1], "units", None)
    da, db = refs[nd["args"][0]].dim, refs[nd["args"][1]].dim
    sa = float(ua.base_value) if ua is not None else 1.0
    sb = float(ub.base_value) if ub is not None else 1.0
    if ua is None or ub is None:
        if da == db == dims.ZERO and sa != sb:
            return "scaled-pure-numbers"
        return "bare-operand"
    if da != db:
        return "other-dim"
    if da == dims.ZERO and sa != sb:
        return "scaled-pure-numbers"
    if str(ua.expr) == str(ub.expr):
        return "same-unit" if sa == sb else "same-symbol-other-registry"
    return "mixed-units"


def _f(num):
    a = np.asarray(num)
    return a.astype(complex) if a.dtype.kind == "c" else a.astype(float)


def compare(num, scale, ref, exact, extra_slack=0.0, undec=1e-3):
    """-> (ok, n_judged, worst) for magnitudes num*scale against the reference value; a failing element whose error bar exceeds
    undec (relative) is undecidable"""
    r = ref.si
    if ref.isbool:
        got = np.asarray(num)
        if got.shape != r.shape:
            return False, 0, "shape"
        m = ~ref.und
        if got.dtype.kind != "b":
            got = got != 0
        return bool(np.all(got[m] == r[m])), int(m.sum()), None
    with np.errstate(all="ignore"):
        si = _f(num) * scale
        if si.shape != r.shape:
            return False, 0, "shape"
        tol = ref.err * (1 + 1e-9) + extra_slack * np.abs(r)
        if not exact:
            tol = tol + 4 * EPS * np.abs(r)
        good = (np.abs(si - r) <= tol) | (np.isnan(si) & np.isnan(r)) | (si == r)
        undecidable = ref.und | ~np.isfinite(tol) | (tol > undec * np.abs(r)) & (tol > 0) & ~good
        m = ~undecidable
    return bool(np.all(good[m])), int(m.sum()), None


def si_of(x):
    num, scale, dim, us = observe(x)
    with np.errstate(all="ignore"):
        return _f(num) * scale if np.asarray(num).dtype.kind != "b" else np.asarray(num)


def nondyadic(scale):
    import math
    m, _ = math.frexp(scale)
    return m != 0.5


def root_slack(scale, exact):
    """extra relative tolerance for the scale of the result's unit.  unyt evaluates unit**(1/3) with float pow: the binary
    1/3 is 5.6e-17 off and the power amplifies that by ln(scale) (17 ulp for 2**96), and its cached unit rules hand such a
    unit object back later for any unit that compares equal (same expression, scale within 1e-9).  Dyadic pool: only when
    the observed scale is not a power of two; real pool: always."""
    import math
    if scale <= 0 or not math.isfinite(scale):
        return 0.0
    if exact and not nondyadic(scale):
        return 0.0
    return ((4 if exact else 0) + 0.5 * abs(math.log2(scale))) * EPS


FC = {"op": "call", "call": "call", "np": "call", "method": "call", "ufunc": "call", "outer": "outer", "out": "target", "outnd": "target", "iop": "target"}


def judge_node(env, rec, prog, j, i, nd, obs, ref, rel, kinds, left=None):
    """oracle (1) for all observables of node i of variant j; returns the list of violation keys (empty = held)"""
    op, form = nd["op"], nd["form"]
    tag = f"{op}/{FC[form]}"
    pool = env.pool
    refs = {"ret0": ref[0], "ret1": ref[1], "out0": ref[0], "out1": ref[1]} if isinstance(ref, tuple) else None
    ret_num = None
    keys = []
    where = describe(prog, j, i)
    bad = {}          # observable -> kind of its violation
    twin = {"out": "ret", "alias": "ret", "out0": "ret0", "out1": "ret1"}

    def viol(name, kind, key, desc):
        bad[name] = kind
        if bad.get(twin.get(name)) == kind:
            rec.count("target-repeats-the-violation-of-the-returned-value")   # same defect seen through the out=/alias view
            return
        keys.append(rec_v(rec, key, desc, prog, j, i))
    for name, x in obs.items():
        rv = refs[name] if refs else ref
        try:
            num, scale, dim, us = observe(x)
        except TypeError as e:
            viol(name, "type", f"C04:{tag}:result-type:{name}", f"{where} returned {e}")
            continue
        if name == "ret":
            ret_num = num
        if name in ("outnd",) or (name == "alias" and us is None):
            # a unit-less target: its numbers are the numbers of the returned quantity
            if ret_num is None or np.shape(num) != np.shape(ret_num) or not np.array_equal(_f(num), _f(ret_num), equal_nan=True):
                viol(name, "target", f"C04:{tag}:target-numbers-differ-from-result:{name}:{rel}",
                     f"{where}: {name} holds {np.asarray(num).tolist()} but the returned quantity holds {np.asarray(ret_num).tolist() if ret_num is not None else None}")
            else:
                rec.ok((pool.name, op, form, rel, kinds, name, "target"))
            continue
        if op == "divmod" and name in ("ret0", "out0") and left is not None and us is not None:
            lu = getattr(left, "units", None)
            if lu is not None and str(lu.expr) == us and not (dim == dims.ZERO and scale == 1.0):
                viol(name, "quotient-unit", f"C04:{tag}:quotient-carries-operand-unit",
                     f"{where}: the quotient {name} = {np.asarray(num).tolist()} is labelled {us} (the unit of the first operand); a quotient of commensurable quantities is a pure number")
                continue
        if dim != rv.dim:
            viol(name, "dimension", f"C04:{tag}:dimension:{name}:{rel}", f"{where}: {name} has unit {us} (dimension {dims.show(dim)}); "
                 f"dimensional analysis gives {dims.show(rv.dim)}")
            continue
        slack = root_slack(scale, pool.exact)
        if pool.exact and slack:
            rec.count("dyadic:result-scale-not-a-power-of-two")
        if pool.exact and env.noise:
            rec.count("dyadic:operand-unit-equals-a-noisy-unit-seen-earlier")
            slack = max(slack, env.noise)
        ok, n, why = compare(num, scale, rv, pool.exact, slack, env.undec)
        if why == "shape":
            viol(name, "shape", f"C04:{tag}:shape:{name}", f"{where}: {name} has shape {np.shape(num)}, expected {rv.shape}")
            continue
        if n == 0:
            rec.count("undecidable-observables")
            continue
        if not ok:
            with np.errstate(all="ignore"):
                got = (_f(num) * scale).tolist() if not rv.isbool else np.asarray(num).tolist()
            key = f"C04:{tag}:value:{name}:{rel}"
            if op == "divmod" and rel in ("mixed-units", "same-symbol-other-registry", "scaled-pure-numbers"):
                key = f"C04:{tag}:second-operand-not-rescaled"      # one mechanism (pass-through unit rule), whatever output shows it
                name_kind = "value-unscaled"
            else:
                name_kind = "value"
            viol(name, name_kind, key,
                 f"{where}: {name} = {np.asarray(num).tolist()} {us} = {got} SI; the same mathematics on the SI magnitudes gives {rv.si.tolist()} (bound {np.max(rv.err) if rv.err.size else 0:.3g})")
            continue
        rec.ok((pool.name, op, form, rel, kinds, name, "si"))
    return keys if keys or not bad else ['(repeat)']


def rec_v(rec, key, desc, prog, j, i):
    rec.violation(key, desc, {"program": prog, "variant": j, "node": i})
    return key


LEAFREPR = {}     # variant -> {leaf index: short repr of the actual operand}; refreshed per program


def describe(prog, j, i):
    nd = prog["nodes"][i]
    parts = []
    for a in nd["args"]:
        l = prog["nodes"][a]
        if l["op"] == "leaf":
            parts.append(LEAFREPR.get(j, {}).get(a) or f"{l['vals']} [{(l['units'] or ['bare'])[0]}] (variant 0)")
        else:
            parts.append(f"node{a}:{l['op']}")
    extra = "".join(f" {k}={nd[k]}" for k in ("p", "pkind", "axis") if k in nd)
    return f"[{prog['pool']}] {nd['op']}/{nd['form']}({', '.join(parts)}){extra}"


def short(x, reg):
    v = np.asarray(getattr(x, "d", x))
    v = f"{v.tolist()}" + ("" if v.dtype == np.float64 else f":{v.dtype}")
    u = getattr(x, "units", None)
    return v + (f" {u}" + (f"@{reg}" if reg not in (None, "default", "A") else "") if u is not None else " (bare)")


def left_unit_rule(env, rec, prog, j, i, nd, obs, objs, rel, kinds):
    if nd["op"] not in ("add", "subtract") or "ret" not in obs:
        return []
    left, right = objs[nd["args"][0]], objs[nd["args"][1]]
    lu, ru = getattr(left, "units", None), getattr(right, "units", None)
    if lu is None or ru is None:
        x = obs["ret"]
        xu = getattr(x, "units", None)
        q = lu if lu is not None else ru
        if q is not None and (xu is None or str(xu.expr) != str(q.expr)):
            rec.note(f"bare-operand:{nd['op']}:result-not-in-unit-of-the-quantity-operand")
        return []
    keys = []
    for name in ("ret", "out", "alias"):
        x = obs.get(name)
        if x is None:
            continue
        xu = getattr(x, "units", None)
        if xu is None or str(xu.expr) != str(lu.expr) or abs(float(xu.base_value) - float(lu.base_value)) > 1e-12 * abs(float(lu.base_value)):
            keys.append(rec_v(rec, f"C04:{nd['op']}/{FC[nd['form']]}:not-in-unit-of-left-operand:{name}:{rel}",
                              f"{describe(prog, j, i)}: {name} comes back in {xu} although the left-most operand is in {lu}", prog, j, i))
        else:
            rec.ok((env.pool.name, nd["op"], nd["form"], rel, kinds, name, "left-unit"))
            rec.count("left-unit-rule-held")
    return keys


# ------------------------------------------------------------------------------------------------ running a program
def run_program(env, rec, prog, group_log=None, rate=None, stats=None):
    """all variants of one program; returns True when something was judged.
    rate(prog, j) -> rounding charged per operation of variant j in units of the float64 default (leaf-dtype axis: the
    precision of the narrowest float leaf); stats: dict counting ("si", j) nodes judged against the reference and
    ("reexpr", j) nodes compared with variant 0"""
    if rate is None:
        return _run_program(env, rec, prog, group_log, None, stats)
    r0, n0, u0 = env.I.r, env.I.n, env.undec
    try:
        return _run_program(env, rec, prog, group_log, rate, stats)
    finally:
        env.I.r, env.I.n, env.undec = r0, n0, u0


def _run_program(env, rec, prog, group_log, rate, stats):
    nodes = prog["nodes"]
    nvar = prog["nvar"]
    pool = env.pool
    outcomes = []      # per variant: {node: ("ok", {name: si array}) | ("raise", exc class)}
    refvals = []
    judged = False
    for j in range(nvar):
        if rate is not None:
            k = rate(prog, j)
            env.I.r = 0.0 if pool.exact else siinterp.ROUND * EPS * k
            env.I.n = siinterp.NEAR * EPS * k
            env.undec = max(1e-3, 64 * EPS * k)      # float16 leaves: 3 significant digits, decidable up to 6 %
        try:
            objs, refs = build_leaves(env, prog, j, rec)
        except Skip:
            return judged
        if j == 0:
            LEAFREPR.clear()
        LEAFREPR[j] = {i: short(x, nodes[i]["reg"]) for i, x in objs.items()}
        out = {}
        for i, nd in enumerate(nodes):
            if nd["op"] == "leaf":
                continue
            try:
                refs[i] = G.ref_eval(env.I, nd, refs)
            except (siinterp.RefError, ValueError) as e:     # cannot happen for generated programs
                raise AssertionError(("reference declined a generated node", nd, str(e)))
            rel = relation(env, nd, objs, refs)
            if nd.get("cancel"):
                rel += ":cancel-" + nd["cancel"]       # leaf-dtype axis: class of the coefficient the unit product leaves behind
            kinds = "".join(okind(objs[a]) for a in nd["args"])
            rec.reach(f"{nd['op']}/{nd['form']}")
            try:
                with np.errstate(all="ignore"):
                    obs = exec_node(env, nd, objs)
            except AssertionError:
                raise
            except Exception as e:
                out[i] = ("raise", type(e).__name__, rel, kinds, str(e)[:160])
                if DEBUG:      # VERIF_C04_DEBUG=1: keep the message and raise site of every refusal in the notes
                    import traceback
                    rec.note(f"dbg:{type(e).__name__}:{str(e)[:120]} :: {describe(prog, j, i)} kinds={kinds} :: " + " | ".join(l.strip().replace(",", ";") for l in traceback.format_tb(e.__traceback__)[-3:]))
                break
            rec.count(f"{pool.name}:executed")
            env.noise = 0.0
            if pool.exact and env.noisy:
                for a_ in nd["args"]:
                    u_ = getattr(objs[a_], "units", None)
                    if u_ is not None and isinstance(objs[a_], np.ndarray):
                        env.noise = max(env.noise, env.noisy.get(str(u_.expr), 0.0))
            keys = judge_node(env, rec, prog, j, i, nd, obs, refs[i], rel, kinds, left=objs[nd["args"][0]])
            keys += left_unit_rule(env, rec, prog, j, i, nd, obs, objs, rel, kinds)
            if keys:
                return True
            judged = True
            if stats is not None:
                stats[("si", j)] = stats.get(("si", j), 0) + 1
            for n_, x_ in obs.items():        # what unyt hands on is only as exact as its unit scale: tell the reference
                if n_ in ("ret", "ret0", "ret1") and hasattr(x_, "units") and isinstance(x_, np.ndarray):
                    rv_ = refs[i][int(n_[-1])] if isinstance(refs[i], tuple) else refs[i]
                    sl_ = root_slack(float(x_.units.base_value), pool.exact)
                    if pool.exact and sl_:
                        k_ = str(x_.units.expr)
                        env.noisy[k_] = max(env.noisy.get(k_, 0.0), sl_)
                    sl_ = max(sl_, env.noise if pool.exact else 0.0)
                    if sl_ and not rv_.isbool:
                        rv_.err = rv_.err + sl_ * np.abs(rv_.si)
            try:
                out[i] = ("ok", {n: si_of(x) for n, x in obs.items() if n.startswith("ret")}, rel, kinds)
            except TypeError:
                out[i] = ("ok", {}, rel, kinds)
            objs[i] = obs["ret"] if "ret" in obs else (obs["ret0"], obs["ret1"])
        outcomes.append(out)
        refvals.append(refs)
    # ---- metamorphic law across the variants
    base = outcomes[0]
    for j in range(1, nvar):
        for i, nd in enumerate(nodes):
            if nd["op"] == "leaf":
                continue
            o0, oj = base.get(i), outcomes[j].get(i)
            if o0 is None and oj is None:
                break
            tag = f"{nd['op']}/{nd['form']}"
            if (o0 is None) != (oj is None) or o0[0] != oj[0]:
                a, b = (o0, oj) if (o0 and o0[0] == "raise") else (oj, o0)
                exc = a[1] if a else "?"
                rel_r = (a or b)[2]
                rec_v(rec, f"C04:{nd['op']}:refusal-depends-on-units:{exc}",
                      f"{describe(prog, 0, i)} {'raises ' + o0[1] + ': ' + o0[4] if o0 and o0[0] == 'raise' else 'returns'}, but with the operands re-expressed "
                      f"{describe(prog, j, i)} {'raises ' + oj[1] + ': ' + oj[4] if oj and oj[0] == 'raise' else 'returns'}", prog, j, i)
                return True
            if o0[0] == "raise":
                rec.note(f"refusal:{tag}:{o0[1]}")
                rec.ok((pool.name, nd["op"], nd["form"], o0[2], o0[3], "-", "refusal-consistent"))
                break
            r0, rj = refvals[0][i], refvals[j][i]
            bad = None
            for name, s0 in o0[1].items():
                sj = oj[1].get(name)
                R0 = (r0[int(name[-1])] if isinstance(r0, tuple) else r0)
                Rj = (rj[int(name[-1])] if isinstance(rj, tuple) else rj)
                if sj is None or sj.shape != s0.shape:
                    bad = name
                    break
                with np.errstate(all="ignore"):
                    if R0.isbool:
                        m = ~(R0.und | Rj.und)
                        good = (np.asarray(s0) == np.asarray(sj))
                    else:
                        tol = (R0.err + Rj.err) * (1 + 1e-9) + (0.0 if pool.exact else 8 * EPS * np.abs(R0.si))
                        if pool.exact and (R0.err.any() or Rj.err.any()):
                            tol = tol + 4 * EPS * np.abs(R0.si)
                        good = (np.abs(s0 - sj) <= tol) | (np.isnan(s0) & np.isnan(sj)) | (s0 == sj)
                        m = ~(R0.und | Rj.und | ~np.isfinite(tol) | ((tol > env.undec * np.abs(R0.si)) & ~good))
                if m.any() and not np.all(good[m]):
                    bad = name
                    break
                if m.any():
                    rec.ok((pool.name, nd["op"], nd["form"], oj[2], oj[3], name, "reexpression"))
                    rec.count(f"{pool.name}:reexpression-compared")
                    if stats is not None:
                        stats[("reexpr", j)] = stats.get(("reexpr", j), 0) + 1
            if bad is not None:
                rec_v(rec, f"C04:{nd['op']}/{FC[nd['form']]}:reexpression-changes-result:{bad}:{oj[2]}",
                      f"{describe(prog, j, i)} gives {np.asarray(oj[1].get(bad)).tolist()} SI but {describe(prog, 0, i)} gives {np.asarray(o0[1][bad]).tolist()} SI", prog, j, i)
                return True
    if group_log is not None and nvar == 1:
        for i, nd in enumerate(nodes):
            if nd["op"] != "leaf" and i in base:
                o = base[i]
                group_log.append((nd, o[0], o[1] if o[0] == "raise" else None, o[2], o[3], prog, describe(prog, 0, i)))
    return judged


# ------------------------------------------------------------------------------------------------ enumerated matrix
DY_UNITS = {
    "L": ["Lm", "L1", "L4096", "L4096**2/L1"], "T": ["Tm", "T1", "T4096"], "M": ["Mm", "M1", "M4096"], "A": ["Am", "A1", "A4096"],
    "D": ["dimensionless", "Dm", "D4096"], "V": ["L4096/T1", "L1/Tm", "Lm/T4096"], "H": ["L4096**(1/2)", "L1**(1/2)", "sqrt(Lm)"],
    "E": ["M1*L4096**2/T1**2", "M4096*L1**2/Tm**2"],
}
DY_ANY = ["Lm", "L1", "L4096", "T1", "T4096", "Mm", "A4096", "Dm", "D4096", "dimensionless", "L4096/T1", "1/L1", "1/L4096", "L4096**(1/2)", "1/Tm",
          "M1*L4096**2/T1**2", "1/(M4096*L1**2/Tm**2)"]


def real_units(tier):
    q = tier == "quick"
    fams = {}
    for k, v in G.REAL_FAMILIES.items():
        fams[k] = list(v[:5] if q else v)
    # tiny-magnitude neighbours and non-cancelling compound spellings are always present
    fams["L"] += [u for u in ("pm", "fm") if u not in fams["L"]]
    fams["T"] += [u for u in ("ps", "fs") if u not in fams["T"]]
    fams["M"] += [u for u in ("ng", "pg") if u not in fams["M"]]
    fams["M L2 T-2"] += [u for u in ("N*m", "eV", "keV", "kWh") if u not in fams["M L2 T-2"]]
    return fams


def matrix_programs(env, tier, ops, rnd, part=0, nparts=1):
    """yield depth-1 programs: every operation x form x ordered unit pair x operand kinds"""
    pool = env.pool
    q = tier == "quick"
    dy = pool.exact
    shapes2 = [((3,), (3,)), ((), (3,)), ((3,), ()), ((), ())] + ([] if q else [((2, 3), (3,)), ((3,), (2, 3))])
    main = "A" if dy else "default"
    if dy:
        fams = DY_UNITS
        anyu = DY_ANY
        regpairs = [("A", "A"), ("A", "B"), ("B", "A")]
    else:
        fams = real_units(tier)
        anyu = ["m", "km", "s", "hr", "g", "kJ", "N*m", "1/J", "1/(N*m)", "1/kJ", "bar", "m**2/N", "1/Pa", "kW", "s/J", "percent", "dimensionless",
                "sqrt(km)", "1/sqrt(m)", "1/cm", "1/ms", "degree", "code_length", "1/code_length", "code_time"]
        regpairs = [("default", "default"), ("R1", "R2"), ("R2", "default"), ("default", "R1")]
    for op in ops:
        cat, forms = G.CATALOGUE[op]
        for form in forms:
            if cat == "bin_same":
                for fam, units in fams.items():
                    for (ra, rb) in regpairs:
                        us_a = list(units) + ([c for c, (v, d) in G.REAL_CODE.get(ra, {}).items() if dims.D(d) == dims.D(fam)] if not dy else [])
                        us_b = list(units) + ([c for c, (v, d) in G.REAL_CODE.get(rb, {}).items() if dims.D(d) == dims.D(fam)] if not dy else [])
                        if (ra, rb) != regpairs[0]:
                            if dy and fam not in ("L", "T", "D"):
                                continue
                            if not dy and fam not in ("L", "T", "M"):
                                continue
                            if not dy:
                                us_a, us_b = us_a[-3:], us_b[-3:]
                        for ua, ub in itertools.product(us_a, us_b):
                            for (sa, sb) in (shapes2 if (ra, rb) == regpairs[0] else shapes2[:1]):
                                yield G.single_op_program(rnd, pool, op, form, [(ua, sa, ra), (ub, sb, rb)])
            elif cat == "bin_any":
                for (ra, rb) in regpairs[:2]:
                    for ua, ub in itertools.product(anyu, anyu):
                        if not dy and (("code" in ua and ra == "default") or ("code" in ub and rb == "default")):
                            continue
                        for (sa, sb) in (shapes2[:2] if q else shapes2[:4]):
                            yield G.single_op_program(rnd, pool, op, form, [(ua, sa, ra), (ub, sb, rb)])
                for ua in anyu:
                    if not dy and "code" in ua:
                        continue
                    for (sa, sb) in shapes2[:4]:
                        yield G.single_op_program(rnd, pool, op, form, [(ua, sa, main), (None, sb, None)])
                        yield G.single_op_program(rnd, pool, op, form, [(None, sa, None), (ua, sb, main)])
            elif cat in ("unary", "trig"):
                units = fams["A"] if cat == "trig" else [u for us in fams.values() for u in us] + ([] if not dy else DY_ANY)
                for u in units:
                    for reg in ([main] if not dy else ["A", "B"]):
                        for s in [(3,), (), (2, 3)]:
                            yield G.single_op_program(rnd, pool, op, form, [(u, s, reg)])
            elif cat == "power":
                units = [u for us in fams.values() for u in us[:3]]
                for u in units:
                    for ip, p in enumerate(G.POWERS):
                        if ip % nparts != part:
                            continue
                        for pk in G.PKINDS_MATRIX:
                            if pk == "int" and p != int(p):
                                continue
                            for s in [(3,), ()]:
                                if pk == "arrsame" and s == ():
                                    continue
                                yield G.single_op_program(rnd, pool, op, form, [(u, s, main)], extra=(int(p) if pk == "int" else p, pk))
                if form in ("op", "call"):      # bare base, exponent is a dimensionless quantity: 2.0 ** (50 percent)
                    for ip, p in enumerate(G.POWERS):
                        if ip % nparts == part:
                            for pk in ("qdimless", "qscaled"):
                                yield G.single_op_program(rnd, pool, op, form, [(None, (), None)], extra=(p, pk))
            elif cat == "reduce":
                units = [u for us in fams.values() for u in us[:3]]
                for u in units:
                    for s, axes in (((3,), [0, None]), ((2, 3), [0, 1, -1, None, (0, 1)]), ((3, 1), [0, 1])):
                        for ax in axes:
                            yield G.single_op_program(rnd, pool, op, form, [(u, s, main)], extra=ax)
            elif cat == "product":
                shp = {"dot": [((3,), (3,)), ((2, 3), (3,)), ((2, 3), (3, 2))], "matmul": [((3,), (3,)), ((2, 3), (3,)), ((2, 3), (3, 2))],
                       "vecdot": [((3,), (3,)), ((2, 3), (3,))], "inner": [((3,), (3,)), ((3,), (2, 3))], "vdot": [((3,), (3,))],
                       "outerprod": [((3,), (2,))], "cross": [((3,), (3,))]}[op]
                for (ra, rb) in regpairs[:2]:
                    for ua, ub in itertools.product(anyu[:12], anyu[:12]):
                        if not dy and (("code" in ua and ra == "default") or ("code" in ub and rb == "default")):
                            continue
                        for (sa, sb) in shp:
                            yield G.single_op_program(rnd, pool, op, form, [(ua, sa, ra), (ub, sb, rb)])


DT_OPS = {
    "exact": ["add", "subtract", "multiply", "maximum", "minimum", "less", "greater_equal", "equal", "not_equal", "floor_divide", "remainder"],
    "f8only": ["divide", "hypot"],           # inexact results: only between float64 / int64 operands (both computed in float64)
    "complex": ["add", "subtract", "multiply", "divide", "equal", "not_equal"],
}


def dtype_programs(env, tier, rnd):
    """dyadic pool only (all numbers exact): operand dtypes float32 / int64 / complex128 mixed with float64, every ordered unit pair"""
    pool = env.pool
    dts = ["f8", "f4", "i8", "c16"]
    L, T = DY_UNITS["L"][:3], DY_UNITS["T"][:3]
    shapes = [((3,), (3,)), ((), (3,)), ((3,), ())] + ([] if tier == "quick" else [((), ()), ((2, 3), (3,))])
    for da, db in itertools.product(dts, dts):
        if da == db == "f8":
            continue
        if "c16" in (da, db):
            ops = DT_OPS["complex"]
        else:
            ops = DT_OPS["exact"] + (DT_OPS["f8only"] if "f4" not in (da, db) else [])
        for op in ops:
            cat, forms = G.CATALOGUE[op]
            for form in forms:
                pairs = list(itertools.product(L, L)) + (list(itertools.product(L, T)) + [("L4096**2/L1", "L1")] if cat == "bin_any" else [])
                regs = [("A", "A")] + ([("A", "B")] if tier != "quick" or op in ("add", "less", "multiply") else [])
                for (ra, rb) in regs:
                    for ua, ub in pairs:
                        if "f4" in (da, db) and cat == "bin_same" and \
                                abs(dyadic.log2scale(ua, pool.table(ra)) - dyadic.log2scale(ub, pool.table(rb))) > dyadic.STEP:
                            continue      # a 2**24 ratio exhausts float32's 24-bit significand: the sum is not exact any more
                        for (sa, sb) in shapes:
                            yield G.single_op_program(rnd, pool, op, form, [(ua, sa, ra), (ub, sb, rb)], dtypes=(da, db))


def check_groups(env, rec, log):
    """matrix refusals: within one (operation, form, operand kinds, relation class) group every unit pair must agree"""
    groups = {}
    for (nd, status, exc, rel, kinds, prog, desc) in log:
        coarse = "same-dim" if rel in ("same-unit", "mixed-units", "same-symbol-other-registry", "scaled-pure-numbers") else rel
        leaves = [prog["nodes"][a] for a in nd["args"]]
        dimsig = tuple(dims.show(env.pool.ref(l["units"][0], l["reg"])[1]) if l["kind"] == "q" else "bare" for l in leaves)
        k = (nd["op"], nd["form"], kinds, coarse, dimsig, nd.get("p"), nd.get("pkind"), str(nd.get("axis")), str([(l["shape"], l.get("dtype")) for l in leaves]))
        groups.setdefault(k, {}).setdefault(status, []).append((exc, prog, desc))
    for k, g in groups.items():
        if "raise" in g and "ok" in g:
            exc, prog, desc = g["raise"][0]
            i = len(prog["nodes"]) - 1
            rec_v(rec, f"C04:{k[0]}:refusal-depends-on-units:{exc}",
                  f"{desc} raises {exc} but the same call on the same quantities written in other units, {g['ok'][0][2]}, returns", prog, 0, i)
        elif "raise" in g:
            rec.note(f"refusal:{k[0]}/{k[1]}:{g['raise'][0][0]}", len(g["raise"]))
            rec.ok((env.pool.name, k[0], k[1], k[3], k[2], "-", "refusal-consistent"), len(g["raise"]))


# ------------------------------------------------------------------------------------------------ worker
def worker(batch, rec):
    import unyt
    warnings.simplefilter("ignore")
    bid, payload = batch
    kind, pool = payload[0], payload[1]
    env = Env(unyt, pool)
    if kind == "rand":
        _, _, seed, n, nvar = payload
        r = core.rng(seed, bid)
        made = 0
        for _ in range(n):
            prog = G.random_program(r, env.pool, nvar, r.choice([3, 4, 5, 6, 8, 10]))
            if prog is None:
                continue
            made += 1
            rec.count(f"{pool}:programs")
            if run_program(env, rec, prog):
                rec.count(f"{pool}:programs-judged")
            if made <= 2:
                rec.sample({"program": prog})
    elif kind == "dtaxis":
        worker_dtaxis(env, rec, bid, payload)
    elif kind == "dtypes":
        r = core.rng(0, bid)
        log = []
        for prog in dtype_programs(env, payload[2], r):
            if prog is None:
                rec.count(f"{pool}:matrix-cells-rejected-by-generator")
                continue
            rec.count(f"{pool}:dtype-matrix-programs")
            run_program(env, rec, prog, log)
        check_groups(env, rec, log)
    else:
        _, _, tier, ops, part, nparts = payload
        r = core.rng(0, bid)
        log = []
        for prog in matrix_programs(env, tier, ops, r, part, nparts):
            if prog is None:
                rec.count(f"{pool}:matrix-cells-rejected-by-generator")
                continue
            rec.count(f"{pool}:matrix-programs")
            run_program(env, rec, prog, log)
        check_groups(env, rec, log)


def worker_dtaxis(env, rec, bid, payload):
    """leaf-dtype axis: enumerated depth-1 matrix (part i of n) or random multiplicative chains"""
    _, pool, tier, what, i, nparts, seed = payload
    q = tier == "quick"
    nvar = 4
    log = []

    def run(prog):
        stats = {}
        rec.count("dtaxis:programs")
        run_program(env, rec, prog, None, DA.rate_ulps, stats)
        nsi0 = stats.get(("si", 0), 0)
        for c in prog["dtclasses"]:
            if c in DA.CLASSES and nsi0:
                rec.count(f"dtaxis:{c}-leaves:judged-against-reference", nsi0)
        cancels = {nd.get("cancel") for nd in prog["nodes"]} - {None, "none", "chain"}
        if nsi0 and cancels and any(c in ("int", "uint", "pyint") for c in prog["dtclasses"]):
            rec.count("dtaxis:integer-leaves-with-cancelling-units:judged", nsi0)
        if stats.get(("reexpr", 1)):
            rec.count("dtaxis:as-float64-compared", stats[("reexpr", 1)])
        n = sum(v for (k, j), v in stats.items() if k == "reexpr" and j >= 2)
        if n:
            rec.count("dtaxis:reexpressed-compared", n)
        for nd in prog["nodes"]:
            if nd["op"] == "leaf" and nd["kind"] == "q":
                for j in range(2, prog["nvar"]):
                    if nd["dtypes"][j] in DA.INTLIKE and nd["units"][j] != nd["units"][0]:
                        rec.count("dtaxis:integer-preserving-reexpressions")
    if what == "matrix":
        r = core.rng(0, bid)
        for k, cell in enumerate(DA.matrix_cells(env.pool, tier)):
            if k % nparts != i:
                continue
            prog = DA.cell_program(r, env.pool, cell, nvar)
            if prog is None:
                rec.count("dtaxis:cells-rejected-by-generator")
                continue
            rec.count(f"dtaxis:{pool}:matrix-programs")
            run(prog)
    else:
        r = core.rng(seed, bid)
        made = 0
        for _ in range(220 if q else 1000):
            prog = DA.random_chain(r, env.pool, nvar)
            if prog is None:
                rec.count("dtaxis:chains-rejected-by-generator")
                continue
            made += 1
            rec.count(f"dtaxis:{pool}:chain-programs")
            run(prog)
            if made <= 1:
                rec.sample({"program": prog})


DT_NEED = ["dtaxis:real:matrix-programs", "dtaxis:dyadic:matrix-programs", "dtaxis:real:chain-programs", "dtaxis:dyadic:chain-programs",
           "dtaxis:as-float64-compared", "dtaxis:reexpressed-compared", "dtaxis:integer-preserving-reexpressions",
           "dtaxis:integer-leaves-with-cancelling-units:judged"] + [f"dtaxis:{c}-leaves:judged-against-reference" for c in DA.CLASSES]


def extra(tier, seed, results):
    counters = {}
    reached = set()
    for bid, r in results:
        for k, v in r.get("counters", {}).items():
            counters[k] = counters.get(k, 0) + v
        reached.update(r.get("reached", []))
    catalogue = {f"{op}/{f}" for op, (c, forms) in G.CATALOGUE.items() for f in forms}
    need = ["dyadic:executed", "real:executed", "dyadic:reexpression-compared", "real:reexpression-compared", "dyadic:matrix-programs",
            "real:matrix-programs", "dyadic:dtype-matrix-programs", "left-unit-rule-held"] + DT_NEED
    zero = [k for k in need if not counters.get(k)]
    if zero:
        raise core.Inconclusive("sub-monitor-saw-nothing:" + ",".join(zero))
    skipped = sum(v for bid, r in results for k, v in r.get("notes", {}).items() if k.startswith("leaf-"))
    programs = sum(counters.get(k, 0) for k in ("dyadic:programs", "real:programs", "dyadic:matrix-programs", "real:matrix-programs"))
    if skipped > 0.05 * max(programs, 1):
        raise core.Inconclusive(f"{skipped}-of-{programs}-programs-skipped:leaf-units-disagree-with-the-reference-table")
    return {"unreached": sorted(catalogue - reached), "catalogue_size": len(catalogue), "sub_monitor_counters": {k: counters.get(k, 0) for k in need}}
