"""C03 - conversion identity, inverse, composition and route agreement."""
import math, itertools
from fractions import Fraction
import numpy as np
from vf import core
from vf.ref import defs, dims, names
from .common import all_names, chunks, udim
from vf.gen import c03_dataaxis as DA

RULE = ("ordered triples (A,B,C) of commensurable units: exhaustive inside the offset families (temperature incl. SI-prefixed and "
        "delta units; angles incl. lat/lon), the CGS<->SI electromagnetic pairs (prefixed too), random triples per dimension from the "
        "full name table and generated commensurable compounds; x dtypes f8/f4/c16/i8 x shapes ()/(3,)/(2,2) x values over 24 decades. "
        "Checked: identity bit-for-bit, A->B->A, A->B->C vs A->C, and agreement (numbers and unit) of to/in_units/to_value/"
        "convert_to_units/in_base/convert_to_base/in_cgs/in_mks/convert_to_cgs/convert_to_mks/hand-applied get_conversion_factor. "
        "Error bound derived from the affine parameters of A,B,C (k*eps*(|x|+|offsets|)), eps of the narrowest float. "
        "distinct = (law, A, B[, C], dtype, shape) tuples. "
        "Data axis (vf/gen/c03_dataaxis.py): every ordered pair of ten commensurable pools (whole-number, fractional, huge/tiny and affine "
        "factors) and random name-table pairs x int8..uint64/float16..complex128 x magnitudes at the edges of the dtype (first integers "
        "beyond the result float's mantissa, iinfo.max/min, value*factor across the integer range, results near the top/bottom of the "
        "result float) x forms (quantity, full array, one extreme element among harmless ones, strided, 2-d): all routes incl. the "
        "in_base family against the factor applied by the harness in exact rational arithmetic, identity, A->B->A, A->B->C; bound "
        "K*eps*(|v*f|+|o|) with eps of the float format the result is delivered in; distinct = (data law, A, B, dtype, form)")
ASSUMPTIONS = ("affine parameters used for the error bound come from vf/ref/defs.py; the laws themselves need no reference values",
               "the symbolic part of the quantifier (all real scale/offset parameters) is out of reach of runtime monitoring and not claimed",
               "data axis: 'the same numbers up to floating-point rounding' is read in the float format the result is delivered in (integers -> float "
               "of their own item size, >= 16 bit; C17's rule): K=8 eps of that format times (|v*f|+|offset|); an integer the result float cannot hold "
               "comes back rounded once under identity (<= 1 eps), not bit-identical",
               "data axis: cases whose exact result, offset, factor (or inverse factor, for A->B->A) leave the normal range of the result float are a "
               "range matter (DESIGN 4.13), discarded and counted; convert_to_units on 1-byte integers is a documented refusal (no 8-bit float): noted, "
               "the copying routes of the same request are still judged")
MIN_EVALS = 3000
TIMEOUT = 900

TEMP = ["K", "R", "degC", "degF", "delta_degC", "delta_degF", "mK", "kK", "mdegC", "kdegC", "mdelta_degC", "udegC", "MK", "celsius", "fahrenheit", "rankine", "kelvin"]
ANGLE = ["rad", "degree", "lat", "lon", "arcmin", "arcsec", "mas", "hourangle", "rev", "gradian", "mrad", "latitude", "longitude", "deg"]
EM = [("C", "statC"), ("A", "statA"), ("T", "G"), ("V", "statV"), ("ohm", "statohm"), ("mC", "mstatC"), ("kA", "kstatA"), ("uT", "uG"),
      ("mV", "mstatV"), ("kohm", "kstatohm"), ("coulomb", "esu"), ("tesla", "gauss")]
DTYPES = ["float64", "float32", "complex128", "int64"]
SHAPES = [(), (3,), (2, 2)]
VALS = [0.0, 1.0, -1.0, 2.5, -40.0, 98.6, 1e-12, 3.7e-6, 1234.5678, 6.02e11, -7.5e12, 300.0, 0.125]


CUSTOM = {}   # per-child: name -> (a, b) of generated custom-registry units (base = a*reading + b); only used for the error bound


def affine(name):
    """base = a*reading + b ; returns (a, b) for a documented atomic name, (scale, 0) otherwise"""
    if name in CUSTOM:
        return CUSTOM[name]
    r = names.resolve(name)
    if r is None:
        return None
    f, s, _ = r
    de = defs.T[s]
    a = de.value * f
    if de.offset == 0.0:
        return a, 0.0
    if s in ("degC", "degF"):
        return a, -de.value * de.offset
    return a, -de.value * de.offset   # lat/lon (never prefixed)


def eps_of(dt):
    dt = np.dtype(dt)
    if dt.kind == "c":
        return np.finfo(np.dtype("f%d" % (dt.itemsize // 2))).eps
    if dt.kind == "f":
        return np.finfo(dt).eps
    return np.finfo("f%d" % max(2, dt.itemsize)).eps


def make(unyt, r, unit, dtype, shape, reg=None, layout="c"):
    n = int(np.prod(shape)) if shape else 1
    vals = [r.choice(VALS) for _ in range(n)]
    if np.dtype(dtype).kind in "iu":
        vals = [int(max(-1e9, min(1e9, round(v)))) for v in vals]
    a = np.array(vals, dtype=dtype).reshape(shape)
    if np.dtype(dtype).kind == "c":
        a = a + 1j * np.array([r.choice(VALS[:6]) for _ in range(n)]).reshape(shape)
    kw = {} if reg is None else {"registry": reg}
    if shape == ():
        return unyt.unyt_quantity(a[()], unit, **kw)
    if layout == "strided":      # every second element of a larger buffer: a non-contiguous view
        big = np.zeros((a.shape[0] * 2,) + a.shape[1:], dtype=a.dtype)
        big[::2] = a
        return unyt.unyt_array(big, unit, **kw)[::2]
    if layout == "fortran" and a.ndim == 2:
        return unyt.unyt_array(np.asfortranarray(a), unit, **kw)
    if layout == "transposed" and a.ndim == 2:
        return unyt.unyt_array(np.ascontiguousarray(a.T), unit, **kw).T
    return unyt.unyt_array(a, unit, **kw)


def mag(x):
    return np.abs(np.asarray(x, dtype=complex))


def bound(eps, x, A, B, C=None, k=16):
    """k*eps*(|x| + zero points expressed in A readings + magnitude of intermediate readings mapped back to A)"""
    aA = affine(A) or (1.0, 0.0)
    aB = affine(B) or (1.0, 0.0)
    xA = mag(x)
    offA = abs(aA[1] / aA[0])
    offB = abs(aB[1] / aB[0]) * abs(aB[0] / aA[0])
    yB = np.abs((aA[0] * xA + abs(aA[1]) + abs(aB[1])) / aA[0])
    extra = 0.0
    if C is not None:
        aC = affine(C) or (1.0, 0.0)
        extra = abs(aC[1] / aA[0])
    return k * eps * (xA + offA + offB + yB + extra)


def in_range(v, dtype):
    """all numbers finite and (if non-zero) well inside the normal range of the float type: otherwise overflow/denormals decide"""
    if v is None or isinstance(v, str):
        return True
    a = np.abs(np.asarray(v, dtype=complex))
    dt = np.dtype(dtype)
    ft = np.finfo("f%d" % (dt.itemsize // 2) if dt.kind == "c" else ("f%d" % max(2, dt.itemsize) if dt.kind in "iu" else dt))
    if not np.all(np.isfinite(a)):
        return False
    nz = a[a != 0]
    return bool(np.all(nz > ft.tiny * 1e8) and np.all(nz < ft.max / 1e8))


def numbers(q):
    return np.asarray(q.d if hasattr(q, "d") else q)


def run_routes(unyt, x, B, objects=False):
    """all copying and in-place routes for the request 'x in units B' -> {route: (numbers, unit-or-None)} or exception names"""
    out = {}

    def rec(name, fn):
        try:
            out[name] = fn()
        except Exception as e:
            out[name] = ("EXC", type(e).__name__, str(e)[:120])
    rec("to", lambda: (lambda y: (numbers(y), y.units))(x.to(B)))
    rec("in_units", lambda: (lambda y: (numbers(y), y.units))(x.in_units(B)))
    rec("to_value", lambda: (np.asarray(x.to_value(B)), None))

    def inplace():
        c = x.copy()
        c.convert_to_units(B)
        return numbers(c), c.units
    rec("convert_to_units", inplace)
    if objects:
        try:
            ub_ = unyt.Unit(B, registry=x.units.registry)
        except Exception:
            ub_ = None
        if ub_ is not None:
            rec("to(Unit)", lambda: (lambda y: (numbers(y), y.units))(x.to(ub_)))
            rec("in_units(Unit)", lambda: (lambda y: (numbers(y), y.units))(x.in_units(ub_)))
            rec("to_value(Unit)", lambda: (np.asarray(x.to_value(ub_)), None))
            rec("to(quantity)", lambda: (lambda y: (numbers(y), y.units))(x.to(unyt.unyt_quantity(1.0, ub_))))

            def inplace_obj():
                c = x.copy()
                c.convert_to_units(ub_)
                return numbers(c), c.units
            rec("convert_to_units(Unit)", inplace_obj)

    def byhand():
        ub = unyt.Unit(B, registry=x.units.registry)
        f, o = x.units.get_conversion_factor(ub, x.dtype)
        v = x.d * f
        if o:
            v = v - o
        return np.asarray(v), None
    rec("by-hand", byhand)
    return out


def agree(rec, law, key, vals, tol, ops, units=None):
    """vals: dict route -> numbers; all must agree within tol (array) ; units: dict route -> unit"""
    items = list(vals.items())
    base_name, base = items[0]
    for name, v in items[1:]:
        a = np.asarray(base, dtype=complex); b = np.asarray(v, dtype=complex)
        if a.shape != b.shape or not np.all((np.abs(a - b) <= tol) | (np.isnan(a) & np.isnan(b))):
            rec.violation(f"C03:{law}:{key}:{base_name}-vs-{name}", f"{law} {ops}: {base_name} -> {np.asarray(base).tolist()} but {name} -> {np.asarray(v).tolist()} (tol {np.max(tol):.3g})", ops)
            return False
    if units:
        us = list(units.items())
        for name, u in us[1:]:
            if u is not None and us[0][1] is not None and not (u == us[0][1] and str(u) == str(us[0][1])):
                rec.violation(f"C03:{law}:{key}:unit:{us[0][0]}-vs-{name}", f"{law} {ops}: {us[0][0]} gives unit {us[0][1]} but {name} gives {u}", ops)
                return False
    return True


LAYOUTS = ["c", "c", "strided", "fortran", "transposed"]


def check_triple(unyt, rec, r, A, B, C, dtype, shape, fam, reg=None):
    layout = r.choice(LAYOUTS) if shape else "c"
    objects = r.random() < 0.35
    x = make(unyt, r, A, dtype, shape, reg, layout)
    x0 = x.copy()
    rec.count("layout:" + layout)
    if objects:
        rec.count("unit-object-targets")
    eps = eps_of(dtype)
    ops = {"A": A, "B": B, "C": C, "dtype": dtype, "shape": list(shape), "x": np.asarray(x.d).tolist()}
    cell = (fam, A, B, C, dtype, len(shape))
    # identity
    ident = run_routes(unyt, x, A, objects)
    for name, v in ident.items():
        if isinstance(v[0], str) and v[0] == "EXC":
            rec.violation(f"C03:identity:{fam}:{name}:raises", f"{A}->{A} via {name} raised {v[1]}: {v[2]}", ops); return
        got = np.asarray(v[0])
        want = np.asarray(x0.d)
        if np.dtype(dtype).kind in "fc":
            okk = got.shape == want.shape and np.array_equal(got.astype(complex), want.astype(complex), equal_nan=True)
        else:
            okk = got.shape == want.shape and np.array_equal(got.astype(float), want.astype(float))
        if not okk:
            rec.violation(f"C03:identity:{fam}:{name}", f"{A}->{A} via {name}: {want.tolist()} became {got.tolist()}", ops); return
    # conversion factors that under/overflow the float type are a range matter, not a conversion law
    try:
        bv = [abs(unyt.Unit(u, registry=x.units.registry).base_value) for u in (A, B, C) if u is not None]
        ft = np.finfo("f%d" % (np.dtype(dtype).itemsize // 2) if np.dtype(dtype).kind == "c" else ("f%d" % max(2, np.dtype(dtype).itemsize) if np.dtype(dtype).kind in "iu" else dtype))
        for p_ in bv:
            for q_ in bv:
                if not (ft.tiny * 1e20 < p_ / q_ < ft.max / 1e20):
                    rec.count("discarded:factor-out-of-float-range"); return
    except Exception:
        pass
    # A -> B by all routes
    ab = run_routes(unyt, x, B, objects)
    if not in_range(ab.get("to", (None,))[0], dtype):
        rec.count("discarded:out-of-float-range"); return
    excs = {k: v for k, v in ab.items() if isinstance(v[0], str)}
    if excs:
        if len(excs) != len(ab):
            # by-hand cannot cross the EM bridge (different dimensions): not a route for that request
            real = {k: v for k, v in excs.items() if not (fam == "em" and k == "by-hand")}
            if real and len(real) != len(ab) - (1 if fam == "em" else 0):
                rec.violation(f"C03:routes:{fam}:some-routes-raise", f"{A}->{B}: {sorted(real)} raise ({list(real.values())[0][1]}) but {sorted(set(ab) - set(excs))} return", ops); return
        if len(excs) == len(ab) or (fam == "em" and len(excs) == len(ab)):
            rec.note(f"all-routes-refuse:{fam}"); return
        ab = {k: v for k, v in ab.items() if k not in excs}
    tolB = bound(eps, x.d, A, B) * abs((affine(A) or (1, 0))[0] / (affine(B) or (1, 0))[0]) if fam != "em" and fam != "compound" else None
    if tolB is None:
        ref = np.asarray(ab["to"][0])
        tolB = 16 * eps * np.abs(ref.astype(complex))
    if not agree(rec, "routes", fam, {k: v[0] for k, v in ab.items()}, tolB, ops, {k: v[1] for k, v in ab.items()}):
        return
    if np.any(x.d != x0.d) or x.units != x0.units or str(x.units) != str(x0.units):
        rec.violation(f"C03:copying-route-mutated-input:{fam}", f"{A}->{B}: input changed", ops); return
    y = x.to(B)
    # inverse
    try:
        back = y.to(A)
    except Exception as e:
        rec.violation(f"C03:inverse:{fam}:raises", f"{A}->{B} worked but {B}->{A} raised {type(e).__name__}", ops); return
    if fam in ("em", "compound", "dim"):
        tolA = 32 * eps * mag(x0.d) if fam != "dim" else bound(eps, x0.d, A, B, k=32)
    else:
        tolA = bound(eps, x0.d, A, B, k=32)
    if not np.all(np.abs(np.asarray(back.d, dtype=complex) - np.asarray(x0.d, dtype=complex)) <= tolA):
        rec.violation(f"C03:inverse:{fam}", f"{A}->{B}->{A}: {np.asarray(x0.d).tolist()} came back as {np.asarray(back.d).tolist()} (bound {np.max(tolA):.3g})", ops); return
    # composition
    if C is not None:
        try:
            direct = x.to(C); via = y.to(C)
            if not in_range(direct.d, dtype) or not in_range(via.d, dtype):
                rec.count("discarded:out-of-float-range"); return
        except Exception as e:
            rec.violation(f"C03:composition:{fam}:raises", f"{A}->{C} / {B}->{C} raised {type(e).__name__}: {e}", ops); return
        aA = affine(A) or (1, 0); aC = affine(C) or (1, 0)
        if fam in ("em", "compound"):
            tolC = 32 * eps * mag(direct.d)
        else:
            tolC = bound(eps, x0.d, A, B, C, k=32) * abs(aA[0] / aC[0])
        if not np.all(np.abs(np.asarray(direct.d, dtype=complex) - np.asarray(via.d, dtype=complex)) <= tolC):
            rec.violation(f"C03:composition:{fam}", f"{A}->{C} = {np.asarray(direct.d).tolist()} but {A}->{B}->{C} = {np.asarray(via.d).tolist()} (bound {np.max(tolC):.3g})", ops); return
        if str(direct.units) != str(via.units):
            rec.violation(f"C03:composition:{fam}:unit", f"{direct.units} vs {via.units}", ops); return
    rec.count("laws-held:" + fam.split("-")[0] + (":offset-unit" if any((affine(u) or (1, 0))[1] != 0 for u in (A, B, C) if u) else ""))
    rec.ok(cell)


def check_base_routes(unyt, rec, r, A, dtype, shape, fam):
    """in_base/in_cgs/in_mks vs their in-place twins vs .to(get_*_equivalent())"""
    x = make(unyt, r, A, dtype, shape)
    eps = eps_of(dtype)
    for label, copyf, inplf, equivf in (
            ("mks", lambda q: q.in_mks(), lambda q: q.convert_to_mks(), lambda u: u.get_mks_equivalent()),
            ("cgs", lambda q: q.in_cgs(), lambda q: q.convert_to_cgs(), lambda u: u.get_cgs_equivalent()),
            ("base", lambda q: q.in_base(), lambda q: q.convert_to_base(), lambda u: u.get_base_equivalent()),
            ("base-mks", lambda q: q.in_base("mks"), lambda q: q.convert_to_base("mks"), lambda u: u.get_base_equivalent("mks")),
            ("base-imperial", lambda q: q.in_base("imperial"), lambda q: q.convert_to_base("imperial"), lambda u: u.get_base_equivalent("imperial"))):
        ops = {"A": A, "system": label, "dtype": dtype, "x": np.asarray(x.d).tolist()}
        res = {}
        for name, fn in (("copy", lambda: copyf(x)), ("in-place", lambda: (lambda c: (inplf(c), c)[1])(x.copy())),
                         ("to(equivalent)", lambda: x.to(equivf(x.units)))):
            try:
                res[name] = fn()
            except Exception as e:
                res[name] = ("EXC", type(e).__name__)
        excs = [k for k, v in res.items() if isinstance(v, tuple)]
        if excs:
            if len(excs) != len(res):
                rec.violation(f"C03:base-routes:{fam}:{label}:some-raise", f"{A}: {excs} raise ({res[excs[0]][1]}) but the others return", ops)
            else:
                rec.note(f"base-routes-all-refuse:{label}")
            continue
        if not all(in_range(v.d, dtype) for v in res.values()):
            rec.count("discarded:out-of-float-range"); continue
        ref = np.asarray(res["copy"].d, dtype=complex)
        aA = affine(A) or (1.0, 0.0)
        tol = 32 * eps * (np.abs(ref) + abs(aA[1]) / max(1e-300, abs(res["copy"].units.base_value)) + mag(x.d) * abs(aA[0] / res["copy"].units.base_value))
        if agree(rec, "base-routes", f"{fam}:{label}", {k: v.d for k, v in res.items()}, tol, ops, {k: v.units for k, v in res.items()}):
            rec.ok(("base-routes", label, A, dtype, len(shape)))


def gen_compound(r, pools):
    """three commensurable spellings of one random compound dimension"""
    k = r.randint(1, 3)
    picks = r.sample(list(pools), k)
    exps = [r.choice(["", "**2", "**-1", "**-2", "**3", "**(1/2)", "**(3/2)", "**-3"]) for _ in picks]
    outs = []
    for j in range(3):
        outs.append("*".join(f"({r.choice(pools[p])}){e}" for p, e in zip(picks, exps)))
    return outs


# ---- generated affine families: the run-time counterpart of "all real scale/offset parameters" --------------------------------
AFF_SCALES = [1.0, 0.5, 2.0, 4096.0, 1.8, 5 / 9, 1e-3, 1e6, 3.25, 0.1, 7.0, 1 / 3]
AFF_OFFSETS = [0.0, -273.15, -459.67, 32.0, 90.0, -180.0, 0.5, -4096.0, 1e4, -1e-3, 7.25, 1 / 3]
AFF_PREFIXES = {"k": 1e3, "m": 1e-3, "M": 1e6, "u": 1e-6, "c": 1e-2, "G": 1e9}


def build_affine_registry(unyt, r, tag):
    """a registry with generated offset units in four dimension families -> (registry, {family: [names]})
    CUSTOM receives the affine map (a, b) of every generated name (base = a*reading + b), which only feeds the error bound:
    plain unit (s, o): a = s, b = -s*o ; prefixed p: the library keeps one fixed map per name (a = p*s; b = -o for temperature,
    -p*s*o elsewhere) - whichever it is, the laws are judged on the library's own results only."""
    from unyt import dimensions as D
    reg = unyt.UnitRegistry()
    fams = {}
    dimsets = {"temperature": (D.temperature, ["K", "degC", "degF", "R", "mK", "kdegC", "delta_degC"]),
               "angle": (D.angle, ["rad", "degree", "lat", "lon", "arcmin", "mrad"]),
               "length": (D.length, ["m", "km", "inch", "pc"]),
               "energy": (D.energy, ["J", "erg", "eV", "kWh"])}
    for fam, (dim, builtin) in dimsets.items():
        names_ = list(builtin)
        for i in range(5):
            s_ = r.choice(AFF_SCALES) if r.random() < 0.6 else math.exp(r.uniform(-12, 12))
            o_ = r.choice(AFF_OFFSETS) if r.random() < 0.6 else r.uniform(-1, 1) * 10 ** r.randint(-3, 4)
            if i == 0:
                o_ = 0.0          # a plain (offset-free) user unit among the affine ones
            pref = r.random() < 0.6
            nm = f"q{fam[:2]}{tag}x{i}"
            reg.add(nm, s_, dim, offset=o_, prefixable=pref)
            CUSTOM[nm] = (s_, -s_ * o_)
            names_.append(nm)
            if pref:
                for p_, f_ in r.sample(sorted(AFF_PREFIXES.items()), 2):
                    CUSTOM[p_ + nm] = (f_ * s_, -o_ if fam == "temperature" else -f_ * s_ * o_)
                    names_.append(p_ + nm)
        fams[fam] = names_
    return reg, fams


# ---- data axis: magnitudes at the edges of every dtype, judged against the factor applied exactly by the harness ------------------
REFUSAL_1BYTE = "Can't convert memory buffer in place"


def _amax(z):
    return max(abs(z.real), abs(z.imag)) if isinstance(z, complex) else abs(z)


def _fmt(parts):
    return [float(p[0]) if p[1] == 0 else complex(float(p[0]), float(p[1])) for p in parts]


def data_judge(rec, law, res, want, tol, unit, dt, ops, strict_unit=True):
    """res: {route: (numbers, unit-or-None) | ('EXC', name, msg)} judged element-wise against exact `want` within `tol`"""
    oc = DA.opclass(dt)
    good = True
    for name, v in res.items():
        if isinstance(v[0], str) and v[0] == "EXC":
            if np.dtype(dt).itemsize == 1 and np.dtype(dt).kind in "iu" and name.startswith("convert_to") and REFUSAL_1BYTE in v[2]:
                rec.note("data-axis:documented-refusal:in-place-1-byte-int"); continue
            rec.violation(f"C03:data-axis:{law}:{name}:raises:{oc}", f"{law} {ops['A']}->{ops.get('B')} {dt} via {name} raised {v[1]}: {v[2]}", ops)
            good = False; continue
        bad = DA.compare(v[0], want, tol)
        if bad is not None:
            i, kind = bad
            g = np.asarray(v[0]).ravel()
            rec.violation(f"C03:data-axis:{law}:{name}:{kind}:{oc}",
                          f"{law} {ops['A']}->{ops.get('B')} {dt} {ops['form']} via {name}: element {i} of input {ops['x'][i] if 0 <= i < len(ops['x']) else '?'} "
                          f"gave {g[i].item() if 0 <= i < g.size else g.shape!r}, the factor {ops.get('factor')} applied by hand gives "
                          f"{_fmt(want)[i] if 0 <= i < len(want) else '?'} (bound {float(tol[i]) if 0 <= i < len(tol) else 0:.3g})", ops)
            good = False; continue
        if strict_unit and v[1] is not None and unit is not None and not (v[1] == unit and str(v[1]) == str(unit)):
            rec.violation(f"C03:data-axis:{law}:{name}:unit:{oc}", f"{law} {ops['A']}->{ops.get('B')} via {name} gives unit {v[1]}, requested {unit}", ops)
            good = False
    return good


def zero_points(units, target):
    """sum of the zero points of the named scales expressed in readings of `target` (the library's own offsets carry a rounding
    error proportional to these, whatever the data are); 0 for offset-free and compound units"""
    at = affine(target) or (1.0, 0.0)
    z = Fraction(0)
    for u in units:
        au = affine(u)
        if au and au[1]:
            z += abs(Fraction(au[1])) / abs(Fraction(at[0]))
    return z


def data_forms(r, dt, kept, harmless, n_single):
    """-> [(form, vals)]: one array with every magnitude, then single extremes as a quantity and inside a small array"""
    out = [(r.choice(["array", "array", "strided", "2d"]), list(kept))]
    if len(kept) > n_single:
        # always the largest magnitudes, the rest at random
        by = sorted(kept, key=_amax)
        pick = by[-max(1, n_single // 3):] + r.sample(by[:-1], n_single - max(1, n_single // 3))
    else:
        pick = list(kept)
    for v in pick:
        out.append(("quantity", [v]))
        out.append(("mixed", ([harmless[0], v, harmless[1]] if harmless else [v, v])))
    return out


def data_select(unyt, dt, A, f, o, r, nrand, need_inverse=False):
    """magnitudes of dtype dt that pass the range gate for factor (f, o) -> (kept, harmless, discarded) ; None if the factor itself is out"""
    vals = DA.magnitudes(dt, f, o, r, nrand)
    arr = np.array(vals, dtype=dt)
    parts = DA.exact_parts(arr)
    gate = DA.in_gate(dt, parts, f, o, need_inverse)
    if gate is None:
        return None
    vals = arr.tolist()
    kept = [v for v, g in zip(vals, gate) if g]
    small = np.array([1, 2], dtype=dt)
    sg = DA.in_gate(dt, DA.exact_parts(small), f, o)
    harmless = small.tolist() if sg and all(sg) else None
    return kept, harmless, len(vals) - len(kept)


def data_counters(rec, dt, vals, f, o):
    dt = np.dtype(dt)
    rec.count("data-axis:cases")
    rec.count("data-axis:" + DA.opclass(dt) + ":" + DA.factor_class(f, o))
    if dt.kind in "iu":
        ii = np.iinfo(dt); p = np.finfo(DA.resfloat(dt)).nmant + 1
        m = max(abs(int(v)) for v in vals)
        if m > 2 ** p:
            rec.count("data-axis:int-beyond-result-mantissa")
            rec.count("data-axis:int-beyond-result-mantissa:" + DA.factor_class(f, o))
        if m >= int(ii.max) - 2:
            rec.count("data-axis:int-at-iinfo-limit")
        if m * abs(f) > int(ii.max):
            rec.count("data-axis:int-product-beyond-int-range")
            if m > 2 ** p:
                rec.count("data-axis:int-beyond-mantissa-and-product-beyond-int-range:" + DA.factor_class(f, o))
    else:
        ft = np.finfo(DA.resfloat(dt))
        m = max(_amax(v) for v in vals)
        if m * abs(f) + abs(o or 0) > float(ft.max) / 16:
            rec.count("data-axis:float-result-near-top")
        if 0 < m * abs(f) < float(ft.tiny) * 64:
            rec.count("data-axis:float-result-near-bottom")
        if dt.itemsize // (2 if dt.kind == "c" else 1) <= 4:
            rec.count("data-axis:narrow-float")


def check_data_pair(unyt, rec, r, A, B, C, dt, fam, n_single, nrand, reg=None):
    """one (A, B[, C], dtype): all forms x all routes vs the hand-applied factor, identity, inverse, composition"""
    kw = {} if reg is None else {"registry": reg}
    ua, ub = unyt.Unit(A, **kw), unyt.Unit(B, **kw)
    ndt = np.dtype(dt)
    # the by-hand route in both spellings of the call: with and without the dtype argument (they must name the same map)
    f, o = ua.get_conversion_factor(ub, ndt)
    f0, o0 = ua.get_conversion_factor(ub)
    if not (f0 == f and (o0 or 0.0) == (o or 0.0)):
        eps = float(np.finfo(DA.resfloat(dt)).eps)
        if abs(f0 - f) > eps * abs(f0) or abs((o0 or 0.0) - (o or 0.0)) > eps * abs(o0 or 0.0):
            rec.violation(f"C03:data-axis:by-hand:factor-depends-on-dtype:{DA.opclass(dt)}", f"{A}.get_conversion_factor({B}) = {(f0, o0)} but with dtype {dt} = {(f, o)}", {"A": A, "B": B, "dtype": dt})
            return
    f = float(f); o = float(o) if o else 0.0
    sel = data_select(unyt, dt, A, f, o, r, nrand)
    if sel is None:
        rec.count("data-axis:discarded:factor-out-of-float-range"); return
    kept, harmless, ndisc = sel
    if ndisc:
        rec.count("data-axis:discarded:result-out-of-float-range", ndisc)
    if not kept:
        return
    fclass = DA.factor_class(f, o)
    ft = np.finfo(DA.resfloat(dt))
    eps = Fraction(float(ft.eps)); sub = Fraction(float(ft.smallest_subnormal)); fmax = Fraction(float(ft.max)); tiny = Fraction(float(ft.tiny))
    F = abs(Fraction(f)); O = abs(Fraction(o))
    inv_ok = tiny <= 1 / F <= fmax
    for form, vals in data_forms(r, dt, kept, harmless, n_single):
        x = DA.build(unyt, dt, vals, A, form, reg)
        if x.dtype != ndt:
            rec.violation(f"C03:data-axis:harness:dtype-not-kept:{DA.opclass(dt)}", f"constructor turned {dt} data into {x.dtype}", {"A": A, "dtype": dt}); return
        x0d = np.array(x.d, copy=True)
        parts = DA.exact_parts(x0d)
        ops = {"A": A, "B": B, "dtype": dt, "form": form, "factor": [f, o], "factor_class": fclass, "x": np.asarray(x0d).ravel().tolist()[:40]}
        data_counters(rec, dt, np.asarray(x0d).ravel().tolist(), f, o)
        good = True
        # identity: the input rounded once into the result float
        if form in ("quantity", "array", "strided", "2d"):
            rf = DA.resfloat(dt)
            wantI = parts
            if ndt.kind in "iu":
                rounded = DA.exact_parts(np.asarray(x0d).astype(rf))
                tolI = [Fraction(0) if rr == pp else eps * abs(pp[0]) for rr, pp in zip(rounded, parts)]
            else:
                tolI = [Fraction(0)] * len(parts)
            good &= data_judge(rec, "identity", run_routes(unyt, x, A, True), wantI, tolI, ua, dt, dict(ops, B=A))
        # A -> B by every route
        want = DA.hand(parts, f, o)
        tol = DA.tolerances(dt, parts, f, o)
        good &= data_judge(rec, "routes", run_routes(unyt, x, B, True), want, tol, ub, dt, ops)
        if not np.array_equal(np.asarray(x.d), x0d) or x.dtype != ndt or str(x.units) != str(ua):
            rec.violation(f"C03:data-axis:copying-route-mutated-input:{DA.opclass(dt)}", f"{A}->{B}: input changed", ops); good = False
        if not good:
            continue
        # A -> B -> A
        if inv_ok and all(max(abs(p[0]), abs(p[1])) + O / F <= fmax * Fraction(98, 100) for p in parts):
            y = x.to(B)

            def back_inplace():
                c = y.copy(); c.convert_to_units(A); return numbers(c), c.units
            res = {}
            for name, fn in (("to.to", lambda: (lambda z: (numbers(z), z.units))(y.to(A))), ("to.convert_to_units", back_inplace)):
                try:
                    res[name] = fn()
                except Exception as e:
                    res[name] = ("EXC", type(e).__name__, str(e)[:120])
            tolA = [3 * DA.K * eps * (max(abs(p[0]), abs(p[1])) + O / F + zero_points((A, B), A)) + DA.K * sub * (1 + 1 / F) for p in parts]
            good &= data_judge(rec, "inverse", res, parts, tolA, ua, dt, ops)
            rec.count("data-axis:inverse-judged")
        # A -> B -> C vs A -> C
        if C is not None and good:
            uc = unyt.Unit(C, **kw)
            fac, oac = ua.get_conversion_factor(uc, ndt); fbc, obc = ub.get_conversion_factor(uc, ndt)
            fac = float(fac); oac = float(oac) if oac else 0.0; fbc = float(fbc); obc = float(obc) if obc else 0.0
            gate = DA.in_gate(dt, parts, fac, oac)
            FBC = abs(Fraction(fbc))
            if gate is None or not all(gate) or not (tiny <= FBC <= fmax):
                rec.count("data-axis:discarded:composition-out-of-float-range")
            else:
                zc = zero_points((A, B, C), C)
                sc = [s + abs(Fraction(obc)) + O * FBC + zc for s in DA.scales(parts, fac, oac)]
                if max(sc) > fmax * Fraction(98, 100):
                    rec.count("data-axis:discarded:composition-out-of-float-range")
                else:
                    tolC = [3 * DA.K * eps * s + DA.K * sub * (1 + FBC) for s in sc]
                    res = {}
                    for name, fn in (("to(C)", lambda: (lambda z: (numbers(z), z.units))(x.to(C))), ("to(B).to(C)", lambda: (lambda z: (numbers(z), z.units))(x.to(B).to(C)))):
                        try:
                            res[name] = fn()
                        except Exception as e:
                            res[name] = ("EXC", type(e).__name__, str(e)[:120])
                    good &= data_judge(rec, "composition", res, DA.hand(parts, fac, oac), tolC, uc, dt, dict(ops, C=C, factor_AC=[fac, oac]))
                    rec.count("data-axis:composition-judged")
        if good:
            rec.ok(("data", fam, A, B, dt, form))
            rec.count("laws-held:data-axis:" + fclass)


def check_data_base(unyt, rec, r, A, dt, n_single, nrand):
    """in_base / in_mks / in_cgs and their in-place twins on edge-of-dtype data vs the hand-applied factor to the equivalent unit"""
    ua = unyt.Unit(A)
    ndt = np.dtype(dt)
    for sysname in DA.SYSTEMS:
        try:
            E = ua.get_base_equivalent(sysname)
        except Exception:
            rec.note("data-axis:base-equivalent-refused:%s" % sysname); continue
        f, o = ua.get_conversion_factor(E, ndt)
        f = float(f); o = float(o) if o else 0.0
        sel = data_select(unyt, dt, A, f, o, r, nrand)
        if sel is None:
            rec.count("data-axis:discarded:factor-out-of-float-range"); continue
        kept, harmless, ndisc = sel
        if ndisc:
            rec.count("data-axis:discarded:result-out-of-float-range", ndisc)
        if not kept:
            continue
        for form, vals in data_forms(r, dt, kept, harmless, n_single):
            x = DA.build(unyt, dt, vals, A, form)
            x0d = np.array(x.d, copy=True)
            parts = DA.exact_parts(x0d)
            ops = {"A": A, "B": str(E), "system": sysname, "dtype": dt, "form": form, "factor": [f, o], "factor_class": DA.factor_class(f, o), "x": np.asarray(x0d).ravel().tolist()[:40]}
            data_counters(rec, dt, np.asarray(x0d).ravel().tolist(), f, o)

            def inpl(fn):
                def g():
                    c = x.copy(); fn(c); return numbers(c), c.units
                return g

            def cp(fn):
                return lambda: (lambda z: (numbers(z), z.units))(fn())
            routes = {"in_base": cp(lambda: x.in_base(sysname) if sysname else x.in_base()),
                      "convert_to_base": inpl(lambda c: c.convert_to_base(sysname) if sysname else c.convert_to_base()),
                      "to(equivalent)": cp(lambda: x.to(E)),
                      "convert_to_units(equivalent)": inpl(lambda c: c.convert_to_units(E))}
            if sysname == "mks":
                routes["in_mks"] = cp(lambda: x.in_mks()); routes["convert_to_mks"] = inpl(lambda c: c.convert_to_mks())
            if sysname == "cgs":
                routes["in_cgs"] = cp(lambda: x.in_cgs()); routes["convert_to_cgs"] = inpl(lambda c: c.convert_to_cgs())
            res = {}
            for name, fn in routes.items():
                try:
                    res[name] = fn()
                except Exception as e:
                    res[name] = ("EXC", type(e).__name__, str(e)[:120])
            ok_ = data_judge(rec, "base-routes", res, DA.hand(parts, f, o), DA.tolerances(dt, parts, f, o), E, dt, ops)
            if not np.array_equal(np.asarray(x.d), x0d) or x.dtype != ndt:
                rec.violation(f"C03:data-axis:base-routes:copying-route-mutated-input:{DA.opclass(dt)}", f"{A} in {sysname}: input changed", ops); ok_ = False
            if ok_:
                rec.ok(("data-base", sysname, A, dt, form))
                rec.count("laws-held:data-axis-base-routes")


def data_pairs():
    out = []
    for fam, pool in DA.POOLS.items():
        for A in pool:
            for B in pool:
                if A != B:
                    out.append((fam, A, B))
    return out


def batches(tier, seed):
    b = []
    tt = list(itertools.product(TEMP, TEMP))
    b += [("temperature/%d" % i, ("fam", ("temperature", TEMP, c, seed))) for i, c in enumerate(chunks(tt, 8))]
    aa = list(itertools.product(ANGLE, ANGLE))
    b += [("angle/%d" % i, ("fam", ("angle", ANGLE, c, seed))) for i, c in enumerate(chunks(aa, 4))]
    b += [("em", ("em", seed))]
    n = 16 if tier == "quick" else 64
    per = 1200 if tier == "quick" else 8000
    b += [("dim/%d" % i, ("dim", (seed, i, per))) for i in range(n)]
    b += [("compound/%d" % i, ("compound", (seed, i, per))) for i in range(n)]
    b += [("base-routes/%d" % i, ("base", (seed, i, 8))) for i in range(8)]
    na = 16 if tier == "quick" else 96
    b += [("affine/%d" % i, ("affine", (seed, i, 260 if tier == "quick" else 1200))) for i in range(na)]
    # data axis: every ordered pair of the pools x dtypes rotating with the seed (quick: 3 dtypes per pair, thorough: 6 and one more
    # single-extreme form per pair - about 2.6x the quick size)
    quick = tier == "quick"
    nd = len(DA.ALL_DTYPES)
    per = 3 if quick else 6
    work = []
    for j, (fam, A, B) in enumerate(data_pairs()):
        work.append((fam, A, B, [DA.ALL_DTYPES[(per * j + k + seed) % nd] for k in range(per)]))
    nb = 16 if quick else 32
    b += [("data/%d" % i, ("data", (seed, i, work[i::nb], 3 if quick else 4, 4 if quick else 6))) for i in range(nb)]
    units = [u for pool in DA.POOLS.values() for u in pool]
    bw = [(A, [DA.ALL_DTYPES[(per * j + k + seed + 5) % nd] for k in range(per)]) for j, A in enumerate(units)]
    nbb = 4 if quick else 8
    b += [("data-base/%d" % i, ("data-base", (seed, i, bw[i::nbb], 2 if quick else 3, 3 if quick else 4))) for i in range(nbb)]
    ndm = 4 if quick else 8
    b += [("data-dim/%d" % i, ("data-dim", (seed, i, 120 if quick else 180))) for i in range(ndm)]
    return b


def worker(batch, rec):
    import unyt
    bid, (kind, payload) = batch
    if kind == "fam":
        fam, pool, pairs, seed = payload
        r = core.rng(seed, bid)
        for (A, B) in pairs:
            Cs = r.sample(pool, 3)
            for C in Cs:
                dtype = r.choice(DTYPES); shape = r.choice(SHAPES)
                check_triple(unyt, rec, r, A, B, C, dtype, shape, fam)
            for dtype in DTYPES:   # every dtype at least once per ordered pair
                check_triple(unyt, rec, r, A, B, None, dtype, r.choice(SHAPES), fam)
        rec.sample({"family": fam, "first_pair": list(pairs[0])})
    elif kind == "em":
        r = core.rng(payload, "em")
        for (m, c) in EM:
            for (A, B) in ((m, c), (c, m)):
                for dtype in DTYPES:
                    for shape in SHAPES:
                        check_triple(unyt, rec, r, A, B, None, dtype, shape, "em")
                        check_base_routes(unyt, rec, r, A, dtype, shape, "em")
        # composition across the bridge: C -> statC -> esu ; statC -> C -> mC
        for (A, B, C) in (("C", "statC", "esu"), ("statC", "C", "mC"), ("T", "G", "mG"), ("G", "T", "uT"), ("A", "statA", "mstatA"), ("statV", "V", "kV"), ("ohm", "statohm", "kstatohm")):
            for dtype in DTYPES:
                check_triple(unyt, rec, r, A, B, C, dtype, (3,), "em")
        rec.sample({"em_pairs": EM[:3]})
    elif kind == "dim":
        seed, i, n = payload
        r = core.rng(seed, "dim", i)
        bydim = {}
        for x in all_names():
            rr = names.resolve(x)
            if rr and "°" not in x and x not in ("", "_") and defs.T[rr[1]].dim != dims.D("LOG"):
                bydim.setdefault(defs.T[rr[1]].dim, []).append(x)
        keys = [k for k, v in bydim.items() if len(v) >= 3]
        for k in range(n):
            lst = bydim[r.choice(keys)]
            A, B, C = r.sample(lst, 3)
            check_triple(unyt, rec, r, A, B, C, r.choice(DTYPES), r.choice(SHAPES), "dim")
        rec.sample({"random_triples": n})
    elif kind == "compound":
        seed, i, n = payload
        r = core.rng(seed, "compound", i)
        pools = {"L": ["m", "km", "cm", "inch", "ft", "mile", "pc", "AU", "angstrom", "nmi"], "T": ["s", "hr", "day", "yr", "ms", "min", "Myr"],
                 "M": ["kg", "g", "lb", "Msun", "oz", "amu", "t"], "E": ["J", "erg", "eV", "cal", "BTU", "kWh", "N*m"],
                 "P": ["Pa", "bar", "atm", "psi", "dyn/cm**2"], "F": ["N", "dyn", "lbf", "kip"], "V": ["L", "m**3", "gal_US", "cm**3"]}
        for k in range(n):
            A, B, C = gen_compound(r, pools)
            check_triple(unyt, rec, r, A, B, C, r.choice(DTYPES), r.choice(SHAPES), "compound")
        rec.sample({"compound_example": gen_compound(r, pools)})
    elif kind == "affine":
        seed, i, n = payload
        r = core.rng(seed, "affine", i)
        reg, fams = build_affine_registry(unyt, r, i)
        for k in range(n):
            fam = r.choice(sorted(fams))
            pool = fams[fam]
            A, B, C = r.choice(pool), r.choice(pool), r.choice(pool)
            if not any(u in CUSTOM for u in (A, B, C)):
                A = r.choice([u for u in pool if u in CUSTOM])
            check_triple(unyt, rec, r, A, B, C if r.random() < 0.8 else None, r.choice(DTYPES), r.choice(SHAPES), "affine-" + fam, reg)
            rec.count("affine-triples")
        rec.sample({"affine_registry": {k_: list(v) for k_, v in list(CUSTOM.items())[:4]}})
    elif kind == "data":
        import warnings
        warnings.simplefilter("ignore")
        seed, i, work, n_single, nrand = payload
        r = core.rng(seed, "data", i)
        with np.errstate(all="ignore"):
            for (fam, A, B, dts) in work:
                pool = [u for u in DA.POOLS[fam] if u not in (A, B)]
                for dt in dts:
                    check_data_pair(unyt, rec, r, A, B, r.choice(pool) if r.random() < 0.6 else None, dt, fam, n_single, nrand)
        rec.sample({"data_axis_first": list(work[0][:3]), "dtypes": work[0][3]})
    elif kind == "data-base":
        import warnings
        warnings.simplefilter("ignore")
        seed, i, work, n_single, nrand = payload
        r = core.rng(seed, "data-base", i)
        with np.errstate(all="ignore"):
            for (A, dts) in work:
                for dt in dts:
                    check_data_base(unyt, rec, r, A, dt, n_single, nrand)
    elif kind == "data-dim":
        import warnings
        warnings.simplefilter("ignore")
        seed, i, n = payload
        r = core.rng(seed, "data-dim", i)
        bydim = {}
        for x in all_names():
            rr = names.resolve(x)
            if rr and "\u00b0" not in x and x not in ("", "_") and defs.T[rr[1]].dim != dims.D("LOG"):
                bydim.setdefault(defs.T[rr[1]].dim, []).append(x)
        keys = sorted((k for k, v in bydim.items() if len(v) >= 3), key=str)
        with np.errstate(all="ignore"):
            for k in range(n):
                lst = bydim[r.choice(keys)]
                A, B, C = r.sample(lst, 3)
                check_data_pair(unyt, rec, r, A, B, C if r.random() < 0.5 else None, r.choice(DA.ALL_DTYPES), "dim", 2, 3)
        rec.sample({"data_axis_random_pairs": n})
    elif kind == "base":
        seed, i, n = payload
        r = core.rng(seed, "base", i)
        units = (TEMP + ANGLE + ["km", "mile", "lb", "erg", "eV", "psi", "hp", "kt", "km/hr", "g/cm**3", "lbf*ft", "J/K", "W/m**2", "mph", "Msun/yr", "statC", "C", "G", "T"])[i::n]
        for A in units:
            for dtype in DTYPES:
                for shape in SHAPES:
                    check_base_routes(unyt, rec, r, A, dtype, shape, "base")
        rec.sample({"base_route_units": units[:4]})


def extra(tier, seed, results):
    """sub-monitor counters; a family that never completed a judged triple makes the run inconclusive"""
    c = {}
    for _, r in results:
        for k, v in (r.get("counters") or {}).items():
            c[k] = c.get(k, 0) + v
    need = ["laws-held:temperature:offset-unit", "laws-held:angle:offset-unit", "laws-held:em", "laws-held:dim", "laws-held:compound",
            "laws-held:affine:offset-unit", "unit-object-targets", "layout:strided",
            # data axis: every dtype kind x factor class, the magnitude classes, and each law
            "data-axis:cases", "data-axis:inverse-judged", "data-axis:composition-judged", "laws-held:data-axis-base-routes",
            "laws-held:data-axis:whole", "laws-held:data-axis:fractional", "laws-held:data-axis:unit-fraction", "laws-held:data-axis:huge",
            "laws-held:data-axis:tiny", "laws-held:data-axis:affine",
            "data-axis:int-beyond-result-mantissa", "data-axis:int-at-iinfo-limit", "data-axis:int-product-beyond-int-range",
            "data-axis:int-beyond-mantissa-and-product-beyond-int-range:whole", "data-axis:int-beyond-mantissa-and-product-beyond-int-range:fractional",
            "data-axis:float-result-near-top", "data-axis:float-result-near-bottom", "data-axis:narrow-float"]
    need += ["data-axis:%s:%s" % (DA.opclass(dt), fc) for dt in DA.ALL_DTYPES for fc in ("whole", "fractional", "affine")]
    missing = [k for k in need if not c.get(k)]
    if missing:
        raise core.Inconclusive("sub-monitors-never-evaluated:" + ",".join(missing))
    return {"sub_monitor_counters": {k: v for k, v in sorted(c.items()) if k.startswith(("laws-held", "layout", "unit-object", "affine", "data-axis"))}}
