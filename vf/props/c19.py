"""C19 - unit-checking helpers decide by physical equality, not by spelling.

Oracle: verdicts computed on SI magnitudes with the independent unit evaluator (vf.gen.c19_spell over vf.ref) and the
independent dimension table vf.ref.c19_dimtable; the helpers under judgement are never called by the oracle.
"""
import inspect, pickle
from fractions import Fraction as Fr
import numpy as np
from vf import core
from vf.ref import dims, c19_dimtable as DT
from vf.gen import c19_spell as SP, c19_hist as HG, c19_shape as SG
from vf.monitors import c19_history as HM, c19_shape as SM
from .common import chunks

RULE = ("one evaluation = one call of a helper (allclose_units, assert_allclose_units, np.allclose, np.isclose, np.array_equal, "
        "np.array_equiv, assert_array_equal_units, or a function wrapped by accepts/returns) whose verdict (True/False/exception "
        "class, call count and identity of the wrapped function's arguments and result) is compared with the verdict computed on SI "
        "magnitudes from independently evaluated unit scales and dimension vectors; near-boundary cases (margin below 64 eps of "
        "the narrowest float) are discarded and counted. distinct = (helper, call form, operand kinds, spelling classes of the "
        "units, rtol kind, atol kind, expected verdict) for the comparison helpers and (decorator, template, call form, dimension "
        "name, argument form, expected verdict) for the decorators.  History parts (hist-deco, hist-close): one evaluation = one "
        "such call made as a step of a history over ONE unit symbol that has several definitions (another dimension or another scale "
        "per user registry, through a to_json/from_json registry, in the default registry vs a user registry, or removed and added "
        "again in one registry, eagerly or between the calls), the steps calling the same or a new decorated function / the same helper "
        "first with one definition, then the other, then the first again (both orders, both stated dimensions, positional/keyword/"
        "return forms; symbol against an ordinary unit, symbol against the same symbol of another registry, atol written in the symbol); "
        "the verdict is compared with the reference as above and, for every 2nd (thorough: 4th) step and for every step judged wrong, "
        "with the verdict of the same single call in a process that has executed nothing else; distinct additionally = (scenario, "
        "stated dimension is this/the other definition, call order, same/new function, position in the history | operand profile).  "
        "Shape part (shape, shape-random): one evaluation = one call of a closeness/equality helper on two operands of DIFFERENT "
        "size that broadcast (0-d, size-1, partial against full; first or second operand the small one; equal size but different "
        "shape; same-shape controls) written in two commensurable units (both orders), with every tolerance spelling (default, bare, "
        "quantity in the first operand's unit, in the second's, in a third unit; rtol zero/default/bare) and the difference placed at "
        "zero, well/just inside, just/well/far outside the tolerance - for a bare or default atol relative to both of its possible "
        "readings and between them - judged (a) against the SI verdict as above and (b) against the verdict of the same call with "
        "both operands written out at the common shape (elementwise for np.isclose), which must be identical; (b) is judged only when "
        "every element is at least 64 eps from the boundary under each reading; distinct additionally = (size relation, the two "
        "shapes, tolerance spelling, placement, which operand carries the difference)")
ASSUMPTIONS = (
    "scales/dimensions of every unit spelling come from vf/ref (defs, names, uexpr); a spelling whose unyt base_value or dimension "
    "disagrees with the reference (subject of C02/C14/C20) is dropped from the pools and counted, not judged here",
    "dimension vectors of the names in unyt.dimensions come from vf/ref/c19_dimtable.py (transcribed from the physical definitions)",
    "refusal = the helper returns False or any exception escapes (DESIGN 1.10); the exception class is recorded; for accepts/"
    "returns the property names TypeError, so another class is a violation",
    "a bare operand (list, ndarray, float, tuple) is dimensionless with scale 1 for allclose_units/assert_*/array_equal/array_equiv; "
    "np.allclose/np.isclose are judged only on two quantities (the statement says 'on quantities'; DESIGN O: 'on two quantities'), "
    "a bare operand there adopts the other operand's unit by the library's documented idiom: recorded, not judged",
    "bare atol of np.allclose/np.isclose: numpy has no actual/desired roles, so the verdict must agree with atol read in the unit "
    "of either operand; judged only where both readings give the same verdict",
    "offset temperatures: rtol*|desired| depends on the common unit, so a case is judged only when kelvin, actual's unit and "
    "desired's unit give the same decisive verdict; a quantity-valued atol in degC/degF is a difference (scale only)",
    "incommensurable atol / dimensional rtol: judged only on inputs whose values disagree beyond the remaining tolerance (expected: "
    "refuse); when the values agree anyway the tolerance is irrelevant and the case is recorded, not judged",
    "array_equal/array_equiv/assert_array_equal_units: units equal iff reference scales agree to 1e-12 and zero points are equal; "
    "scale ratios between 1e-12 and 1e-6 from 1 and degC-vs-delta_degC style pairs are not judged; scalar-vs-array broadcasting of "
    "assert_array_equal_units is numpy's business and not judged",
    "SI and Gaussian electromagnetic units of the same quantity (C vs statC, T vs G) have different dimension vectors but unyt converts "
    "between them by design (EM route, DESIGN 3): such pairs are neither used as commensurable nor as incommensurable operands",
    "numpy's own defaults apply to np.allclose/np.isclose (rtol=1e-5, atol=1e-8 bare); cases whose conversions leave the normal range "
    "of the narrowest float involved (float32: 1e-30..1e30) are discarded and counted",
    "mechanism attribution of a wrong verdict is itself an observation: the same call is repeated with each unit-carrying tolerance "
    "replaced by its plain-number equivalent, then with the operands re-expressed in one unit; the first replacement that makes the "
    "helper agree with the oracle names the key (rtol-percent, rtol-qty, atol-qty, atol-bare, operand-units, else plain)",
    "accepts: only explicitly passed arguments are 'checked arguments' (DESIGN 4.8); binding of a call to parameter names is "
    "computed with inspect.signature on the undecorated function; Unit objects, None and strings as arguments are not judged",
    "returns: the checked values are the returned tuple zipped with the stated dimensions; surplus values or surplus dimensions "
    "are not judged",
    "histories: the reference scale and dimension of a user symbol are the numbers handed to UnitRegistry.add (dimension vector of "
    "the named dimension from c19_dimtable); symbols are dataset-style names (code_magnetic, sim_tick, ...) that resolve to nothing "
    "in the default registry for both the reference resolver and unyt (a clashing symbol is dropped and counted: a user symbol that "
    "reads as a built-in spelling is C12's subject)",
    "histories: a value keeps the definition its unit was created with: a quantity made before the symbol was removed and added "
    "again is judged by the old dimension/scale, one made afterwards by the new one (the statement speaks of the dimension of the "
    "argument, i.e. of the unit object the value carries); the registry edits themselves are C12/C13's subject",
    "histories: 'fresh process' = a fork of a server that was forked from the worker before any workload ran (import-time state of "
    "unyt plus the import of unyt._array_functions; the reference tables of vf.ref are warm, they are not under judgement); it "
    "builds the one history and makes the one call.  A wrong verdict that is right in the fresh process is keyed history-dependent "
    "and the key then drops the call form (the mechanism is the history); at most 150 wrong steps per batch are replayed, the rest "
    "is keyed fresh-not-sampled",
    "histories, closeness/equality helpers: two operands that carry the same symbol from two registries are compared physically by "
    "the reference scales (equal definition -> equal units; other scale or other dimension -> different units, whatever the "
    "spelling); pairs of an SI and a Gaussian electromagnetic dimension are not used there (EM route, as for the pools); only "
    "default rtol/atol, and rtol=0 with an atol written in the symbol, are driven in histories",
    "operand shapes: writing an operand as a 0-d / size-1 / partial array or as the same values at the common shape is a spelling of "
    "the same physical comparison, so the verdict (elementwise for np.isclose) must be the same; in particular a bare or default "
    "atol of np.allclose/np.isclose may be read in either operand's unit (see above) but the reading has to follow the operand "
    "positions, not their sizes: the law compares two real calls and never needs to know which reading the library uses; a wrong "
    "SI verdict whose explicitly broadcast twin is judged right is keyed :shape-asymmetric:<size relation>; offset units are not "
    "used in the shape part",
)
MIN_EVALS = 3000
TIMEOUT = 1500

QUICK_FAMS = ["length", "mass", "time", "velocity", "energy", "pressure", "force", "power", "angle", "temperature", "dimensionless",
              "frequency", "angular_frequency", "charge_mks", "charge_cgs", "magnetic_field_mks", "magnetic_field_cgs", "area",
              "volume", "density", "solid_angle", "logarithmic"]
CLOSE_FNS = ("allclose_units", "assert_allclose_units", "np.allclose", "np.isclose")
EQ_FNS = ("np.array_equal", "np.array_equiv", "assert_array_equal_units")


def fam_vectors(tier):
    """family name -> dimension vector; one family per distinct vector"""
    out, seen = {}, set()
    srcs = [(k, DT.VEC[k]) for k in QUICK_FAMS]
    if tier != "quick":
        srcs += list(DT.VEC.items()) + list(DT.XVEC.items())
    for k, v in srcs:
        if v not in seen:
            seen.add(v)
            out[k] = v
    return out


ALLV = dict(DT.VEC)
ALLV.update(DT.XVEC)


# ------------------------------------------------------------------------------------------------ pools
def build_pool(unyt, rec, d, n, r, need_exact=True, allow_offset=False):
    cand = SP.spellings(d, r, n + 4, need_exact=need_exact, allow_offset=allow_offset)
    out = []
    for u in cand:
        try:
            uu = unyt.Unit(u.s)
            ok = dims.of_expr(uu.dimensions) == d
            if ok and need_exact:
                ok = abs(float(uu.base_value) / u.a - 1.0) <= 1e-12
                if ok and (u.b != 0.0 or float(uu.base_offset) != 0.0):
                    # unyt: base = base_value*reading + base_offset*base_value?  compare through the conversion of 0 and 1 is C08's
                    # business; here only the presence of a zero point has to agree
                    ok = (u.b != 0.0) == (float(uu.base_offset) != 0.0)
            if not ok:
                rec.count("pool-dropped:disagrees-with-reference:" + u.cls)
                continue
        except Exception as e:
            rec.count("pool-dropped:unyt-cannot-parse:" + u.cls)
            continue
        out.append(u)
        if len(out) >= n:
            break
    return out


# ------------------------------------------------------------------------------------------------ operands
QKINDS = ("arr", "qty", "f4", "i8", "mul", "qlist", "restored", "view")
BKINDS = ("list", "bare", "float", "tuple")


def opclass(kind):
    return "QL" if kind == "qlist" else ("Q" if kind in QKINDS else "B")


def make_operand(unyt, kind, readings, u):
    """-> (object, readings actually carried as float64 ndarray)"""
    x = np.array(readings, dtype="f8")
    if u.s is None or kind in BKINDS:
        if kind == "list":
            return x.tolist(), x
        if kind == "float" and x.shape == ():
            return float(x), x
        if kind == "tuple" and x.ndim == 1:
            return tuple(x.tolist()), x
        return x.copy(), x
    if kind == "f4":
        y = x.astype("f4")
        return unyt.unyt_array(y, u.s), y.astype("f8")
    if kind == "i8":
        y = np.rint(x).astype("i8")
        return unyt.unyt_array(y, u.s), y.astype("f8")
    if kind == "qty" and x.shape == ():
        return unyt.unyt_quantity(float(x), u.s), x
    if kind == "mul":
        return x.copy() * unyt.Unit(u.s), x
    if kind == "qlist" and x.ndim == 1:
        return [unyt.unyt_quantity(float(v), u.s) for v in x], x
    if kind == "restored":
        return pickle.loads(pickle.dumps(unyt.unyt_array(x.copy(), u.s))), x
    if kind == "view":
        big = np.empty(x.shape[:-1] + (2 * x.shape[-1],) if x.ndim else (2,), dtype="f8")
        big[...] = -7.0
        if x.ndim:
            big[..., ::2] = x
            return unyt.unyt_array(big, u.s)[..., ::2], x
        big[0] = x
        return unyt.unyt_array(big, u.s)[0], x
    return unyt.unyt_array(x.copy(), u.s), x


def eps_kind(k):
    return 1.2e-7 if k == "f4" else 2.3e-16


# ------------------------------------------------------------------------------------------------ oracle for closeness
def close_verdict(ra, ua, rb, ub, rtol, t_si_options, eps, equal_nan=False):
    """elementwise verdict on SI magnitudes.
    ra, rb: readings (float64 arrays); ua, ub: U; rtol: float; t_si_options: list of atol values in base units (scale only) -
    all must give the same verdict.  Returns (verdict array of {1 accept, 0 refuse, -1 undecided}) broadcast over the operands."""
    views = [(1.0, 0.0)]
    if ua.b != 0.0 or ub.b != 0.0:
        views += [(ua.a, ua.b), (ub.a, ub.b)]
    a_si = ua.a * ra + ua.b
    b_si = ub.a * rb + ub.b
    a_si, b_si = np.broadcast_arrays(a_si, b_si)
    res = None
    with np.errstate(all="ignore"):
        for (A, B) in views:
            ac = (a_si - B) / A
            bc = (b_si - B) / A
            for t_si in t_si_options:
                tc = t_si / abs(A)
                diff = np.abs(ac - bc)
                tol = tc + rtol * np.abs(bc)
                margin = diff - tol
                thr = 64 * eps * (np.abs(ac) + np.abs(bc) + abs(tc) + (abs(ua.b) + abs(ub.b) + abs(B)) / abs(A)) + 1e-300
                v = np.where(margin <= -thr, 1, np.where(margin >= thr, 0, -1))
                # identical finite readings in the same unit are equal whatever the tolerance
                if ua.s == ub.s and ra.shape == rb.shape:
                    v = np.where(np.broadcast_to(ra == rb, v.shape), 1, v)
                fin = np.isfinite(ac) & np.isfinite(bc)
                sameinf = np.isinf(ac) & np.isinf(bc) & (np.sign(ac) == np.sign(bc))
                bothnan = np.isnan(ac) & np.isnan(bc)
                v = np.where(fin, v, np.where(sameinf, 1, np.where(bothnan & equal_nan, 1, 0)))
                res = v if res is None else np.where(res == v, res, -1)
    return res


def outcome_close(fn, unyt, a, b, rt, at, form, extra_kw):
    """call the real helper; -> ('accept'|'refuse', detail, elementwise-or-None)"""
    args = [a, b]
    kw = dict(extra_kw)
    if form == "pos":
        npf = fn.startswith("np.")
        args += [(1e-5 if npf else 1e-7) if rt is None else rt, (1e-8 if npf else 0) if at is None else at]
    else:
        if rt is not None:
            kw["rtol"] = rt
        if at is not None:
            kw["atol"] = at
    try:
        if fn == "allclose_units":
            r = unyt.allclose_units(*args, **kw)
        elif fn == "assert_allclose_units":
            r = unyt.testing.assert_allclose_units(*args, **kw)
            return ("accept", "returned", None) if r is None else ("refuse", f"returned-{type(r).__name__}", None)
        elif fn == "np.allclose":
            r = np.allclose(*args, **kw)
        else:
            r = np.isclose(*args, **kw)
            arr = np.asarray(r)
            if arr.dtype != bool:
                return ("refuse", f"non-bool-{arr.dtype}", None)
            return ("accept" if bool(arr.all()) else "refuse", "array", arr)
    except Exception as e:
        return ("refuse", "raises-" + type(e).__name__, None)
    if isinstance(r, (bool, np.bool_)):
        return ("accept" if bool(r) else "refuse", "False" if not r else "True", None)
    return ("refuse", f"returned-{type(r).__name__}", None)


def tolclass(rk, ak):
    """the single most exotic tolerance feature of a call (every feature also occurs alone in the enumerated matrix, so a defect
    of a lower-ranked feature still gets its own key)"""
    if ak == "qty":
        return "atol-qty"
    if rk == "percent":
        return "rtol-percent"
    if rk == "dimless-qty":
        return "rtol-qty"
    if ak == "bare":
        return "atol-bare"
    return "plain"


def tol_object(unyt, kind, value, u):
    """spell a tolerance: kind in none|bare|qty|mul ; u: U or None"""
    if kind == "none":
        return None
    if kind == "bare":
        return float(value)
    if kind == "mul":
        return float(value) * unyt.Unit(u.s)
    return unyt.unyt_quantity(float(value), u.s)


def judge_close(rec, unyt, fn, form, a, b, ka, kb, ra, rb, ua, ub, rk, rtol_obj, rtol_val, ak, atol_obj, t_opts, expect_forced, famcls, case,
                equal_nan=False):
    """one helper call against the oracle.  expect_forced: None or a reason for a dimension/tolerance refusal"""
    extra_kw = {"equal_nan": True} if equal_nan else {}
    oca, ocb = opclass(ka), opclass(kb)
    if fn.startswith("np.") and (oca != "Q" or ocb != "Q"):
        if (oca == "B" and ocb == "B") or oca == "QL" or ocb == "QL":
            return
        out = outcome_close(fn, unyt, a, b, rtol_obj, atol_obj, form, extra_kw)
        rec.note(f"{fn}:bare-operand-adopts-unit:{out[0]}")
        return
    out, detail, elem = outcome_close(fn, unyt, a, b, rtol_obj, atol_obj, form, extra_kw)
    rec.count("calls:" + fn)
    famtail = ":dimensionless-family" if ua.dim == dims.ZERO and ub.dim == dims.ZERO else ""
    cell = (fn, form, ka, kb, ua.cls, ub.cls, rk, ak)
    call = f"{fn}({show(a)}, {show(b)}, rtol={show(rtol_obj)}, atol={show(atol_obj)})"
    if expect_forced is not None:
        rec.count(f"sub:{fn}:refuse-expected")
        if out == "accept":
            rec.violation(f"C19:{fn}:accepts-{expect_forced}", f"{call} accepted although {expect_forced}", case)
        else:
            rec.note(f"refusal-form:{fn}:{expect_forced}:{detail}")
            rec.ok(cell + ("refuse:" + expect_forced,))
        return
    eps = max(eps_kind(ka), eps_kind(kb))
    v = close_verdict(ra, ua, rb, ub, rtol_val, t_opts, eps, equal_nan)
    dec = v >= 0
    elementwise = fn == "np.isclose"

    def status(out_, elem_):
        """'ok' | 'accepts-unequal' | 'refuses-equal' against the SI verdict v"""
        if elementwise and elem_ is not None:
            el = np.broadcast_to(elem_, v.shape)
            if (dec & (v == 0) & el).any():
                return "accepts-unequal"
            if (dec & (v == 1) & ~el).any():
                return "refuses-equal"
            return "ok"
        if elementwise:      # raised: every element refused
            return "refuses-equal" if (dec & (v == 1)).any() and not (v == 0).any() else ("ok" if (v == 0).any() else "ok")
        exp_ = "refuse" if (v == 0).any() else "accept"
        if out_ == exp_:
            return "ok"
        return "accepts-unequal" if out_ == "accept" else "refuses-equal"

    if elementwise:
        if elem is not None:
            try:
                np.broadcast_to(elem, v.shape)
            except ValueError:
                rec.violation(f"C19:{fn}:result-shape", f"{call}: result shape {elem.shape}, operands broadcast to {v.shape}", case)
                return
        if not dec.any():
            rec.count("discarded:near-boundary")
            return
        exp = "accept" if (v[dec] == 1).all() else "refuse"
    else:
        if (v == 0).any():
            exp = "refuse"
        elif (v == 1).all():
            exp = "accept"
        else:
            rec.count("discarded:near-boundary")
            return
    rec.count(f"sub:{fn}:{exp}-expected")
    st = status(out, elem)
    if st == "ok":
        if out == "refuse" and detail.startswith("raises-") and not (fn == "assert_allclose_units" and detail == "raises-AssertionError"):
            rec.note(f"refusal-form:{fn}:values:{detail}")
        rec.ok(cell + (exp,))
        return
    # attribution: which unit-carrying tolerance, replaced by its plain-number equivalent, makes the helper agree with the oracle?
    feature = None
    rt_plain = float(rtol_val) if rk in ("percent", "dimless-qty") else None
    at_plain = []
    if ak == "qty":
        at_plain = [float(t_opts[0] / ub.a)] + ([float(t_opts[0] / ua.a)] if fn.startswith("np.") and ua.a != ub.a else [])
    trials = []
    if rt_plain is not None:
        trials.append(("rtol-" + ("percent" if rk == "percent" else "qty"), rt_plain, [atol_obj]))
    if at_plain:
        trials.append(("atol-qty", rtol_obj, at_plain))
    if rt_plain is not None and at_plain:
        trials.append(("rtol-" + ("percent" if rk == "percent" else "qty") + "+atol-qty", rt_plain, at_plain))
    for name, rt_, ats in trials:
        for at_ in ats:
            o2, d2, e2 = outcome_close(fn, unyt, a, b, rt_, at_, "kw", extra_kw)
            if status(o2, e2) == "ok":
                feature = name
                break
        if feature:
            break
    if feature is None and ak == "bare" and ub.s is not None and not fn.startswith("np."):
        # the bare atol written out with the unit it is documented to be read in
        o2, d2, e2 = outcome_close(fn, unyt, a, b, rtol_obj, unyt.unyt_quantity(float(atol_obj), ub.s), "kw", extra_kw)
        if status(o2, e2) == "ok":
            feature = "atol-bare"
    if feature is None:
        # operands re-expressed (by the reference scales) in one unit, plain-number tolerances in that unit
        try:
            with np.errstate(all="ignore"):
                b2, _ = make_operand(unyt, "arr" if ua.s is not None else "bare", (ub.a * rb + ub.b - ua.b) / ua.a, ua)
            o2, d2, e2 = outcome_close(fn, unyt, a, b2, None if rtol_obj is None else float(rtol_val),
                                       None if atol_obj is None else float(t_opts[0] / ua.a), "kw", extra_kw)
            if status(o2, e2) == "ok":
                feature = "operand-units"
        except Exception:
            pass
    if feature is None:
        feature = "atol-bare" if ak == "bare" else "plain"
    if feature not in ("operand-units", "plain", "atol-bare"):
        famtail = ""
    what = f"elementwise {np.asarray(elem).tolist()} vs SI verdict {v.tolist()} (1 close, 0 not, -1 undecided)" if elem is not None else f"{detail}; SI verdict elementwise {v.tolist()}"
    if st == "accepts-unequal":
        rec.violation(f"C19:{fn}:accepts-unequal:{feature}{famtail}", f"{call} accepted: {what}; the values differ by more than the tolerance", case)
    else:
        rec.violation(f"C19:{fn}:refuses-equal:{feature}{famtail}", f"{call} refused: {what}; the values agree within the tolerance", case)


def show(x):
    if x is None:
        return "default"
    if isinstance(x, list) and x and hasattr(x[0], "units"):
        return "[" + ", ".join(f"{float(q.d)!r} {q.units}" for q in x[:4]) + "]"
    if hasattr(x, "units"):
        return f"{np.asarray(x.d).tolist()!r} {x.units}" + ("" if np.asarray(x.d).dtype == np.float64 else f" ({np.asarray(x.d).dtype})")
    if isinstance(x, np.ndarray):
        return f"array({x.tolist()!r})"
    return repr(x)


# ------------------------------------------------------------------------------------------------ closeness cases
def run_close(rec, unyt, r, fam, spec, fns, forms):
    """spec: dict(ua, ub, ut, ka, kb, b_si, rho (array, >1 = beyond tolerance), sign, rk, rtol, ak, t_si, equal_nan, special)"""
    ua, ub, ut = spec["ua"], spec["ub"], spec["ut"]
    b_si = np.asarray(spec["b_si"], dtype="f8")
    rk, ak = spec["rk"], spec["ak"]
    rtol = {"default": 1e-7, "zero": 0.0}.get(rk, spec["rtol"])
    t_si = 0.0 if ak == "default" else spec["t_si"]
    rho = np.broadcast_to(np.asarray(spec["rho"], dtype="f8"), np.broadcast(b_si, np.zeros(spec["ashape"])).shape)
    bb = np.broadcast_to(b_si, rho.shape)
    forced = None
    if rk == "dimensional":
        forced = "dimensional-rtol"
        tol = t_si + 0.0 * np.abs(bb)
        rho = np.maximum(rho, 3.0)
    elif ak == "incommensurable":
        forced = "incommensurable-atol"
        tol = rtol * np.abs(bb - 0.0)
        rho = np.maximum(rho, 3.0)
    else:
        tol = t_si + rtol * np.abs(bb)
    scale_m = np.maximum(np.abs(bb - ub.b), ub.a * 1e-3)
    delta = np.where(tol > 0, rho * tol, np.where(rho > 1, 1e-5 * scale_m, 0.0))
    if forced:
        delta = np.maximum(delta, 1e-3 * scale_m)
    a_si = bb + spec["sign"] * delta
    ra = (a_si - ua.b) / ua.a
    rb = (b_si - ub.b) / ub.a
    if spec.get("special"):
        idx, what = spec["special"]
        if ra.ndim and rb.shape == ra.shape and spec["ka"] != "i8" and spec["kb"] != "i8":
            ra = ra.copy(); rb = rb.copy()
            fa, fb = {"inf": (np.inf, np.inf), "nan": (np.nan, np.nan), "inf-finite": (np.inf, rb.flat[idx % rb.size]),
                      "inf-opposite": (np.inf, -np.inf)}[what]
            ra.flat[idx % ra.size] = fa
            rb.flat[idx % rb.size] = fb
    a, ra = make_operand(unyt, spec["ka"], ra, ua)
    b, rb = make_operand(unyt, spec["kb"], rb, ub)
    # conversions that leave the normal range of the narrowest float are a range matter, not a verdict of the helper
    lo, hi = (1e-30, 1e30) if "f4" in (spec["ka"], spec["kb"]) else (1e-280, 1e280)
    with np.errstate(all="ignore"):
        mags = np.concatenate([np.abs(ua.a * ra).ravel(), np.abs(ub.a * rb).ravel(), [abs(spec["t_si"]) if ak != "default" else 0.0]])
    mags = mags[np.isfinite(mags) & (mags > 0)]
    scs = (ua.a, ub.a, ut.a)
    for sc in scs:
        if (mags.size and (mags.min() / sc < lo or mags.max() / sc > hi)) or any(not (lo < sc / s2 < hi) for s2 in scs):
            rec.count("discarded:outside-float-range")      # readings or the conversion factor itself
            return
    # tolerance objects
    if rk in ("default",):
        rt_obj = None
    elif rk in ("zero", "bare"):
        rt_obj = float(rtol)
    elif rk == "dimless-qty":
        rt_obj = unyt.unyt_quantity(float(rtol), "dimensionless")
    elif rk == "percent":
        rt_obj = unyt.unyt_quantity(float(rtol) * 100.0, "%")
        rtol = float(rt_obj.d) * 0.01
    else:
        rt_obj = unyt.unyt_quantity(0.5, ut.s if (ut.s and ALLV[fam] != dims.ZERO) else "m")
    case = {"family": fam, "actual": [spec["ka"], ua.s], "desired": [spec["kb"], ub.s], "rtol": [rk, float(rtol)], "atol": [ak, ut.s],
            "a_readings": np.asarray(ra).tolist(), "b_readings": np.asarray(rb).tolist()}
    for fn in fns:
        t_opts = [t_si]
        rtol_fn = 1e-5 if (rk == "default" and fn.startswith("np.")) else float(rtol)
        if ak == "default":
            at_obj = None
            if fn.startswith("np."):
                t_opts = [1e-8 * ua.a, 1e-8 * ub.a]       # numpy's own defaults: rtol=1e-5, atol=1e-8 (bare)
        elif ak == "bare":
            t_read = t_si / ub.a
            at_obj = float(t_read)
            t_opts = [t_read * ub.a] if not fn.startswith("np.") else [t_read * ub.a, t_read * ua.a]
        elif ak == "incommensurable":
            with np.errstate(all="ignore"):
                dr = np.abs(ra - (np.broadcast_to(rb, np.broadcast(ra, rb).shape) * ub.a + ub.b - ua.b) / ua.a)
            val = 10.0 * float(np.nanmax(np.where(np.isfinite(dr), dr, 0.0))) or 1.0
            at_obj = unyt.unyt_quantity(val, spec["uwrong"].s) if spec["uwrong"].s else unyt.unyt_quantity(val, "dimensionless")
        else:
            val = t_si / ut.a
            at_obj = tol_object(unyt, "mul" if ak == "qty-mul" else "qty", val, ut)
            t_opts = [float(val) * ut.a]
        case["atol_obj"] = show(at_obj)
        for form in forms:
            if form == "pos" and spec.get("equal_nan"):
                continue
            judge_close(rec, unyt, fn, form, a, b, spec["ka"], spec["kb"], ra, rb, ua, ub, rk, rt_obj, rtol_fn,
                        ak.replace("qty-mul", "qty"), at_obj, t_opts, forced, fam, case, equal_nan=bool(spec.get("equal_nan")))


def run_incommensurable(rec, unyt, r, famA, ua, famB, ub, ka, kb, readings, tol_kind, ut, fns):
    """same readings, different dimensions -> every helper must refuse, whatever the tolerances"""
    a, ra = make_operand(unyt, ka, readings, ua)
    b, rb = make_operand(unyt, kb, readings, ub)
    rt_obj, at_obj, rk, ak = None, None, "default", "default"
    if tol_kind == "loose-bare":
        rt_obj, at_obj, rk, ak = 0.5, 10.0 * float(np.max(np.abs(readings)) + 1), "bare", "bare"
    elif tol_kind == "loose-qty":
        rt_obj, at_obj, rk, ak = 0.5, unyt.unyt_quantity(10.0 * float(np.max(np.abs(readings)) + 1), ut.s if ut.s else "dimensionless"), "bare", "qty"
    case = {"actual": [ka, ua.s, famA], "desired": [kb, ub.s, famB], "readings": np.asarray(readings).tolist(), "tolerances": tol_kind}
    for fn in fns:
        judge_close(rec, unyt, fn, "kw", a, b, ka, kb, ra, rb, ua, ub, rk, rt_obj, 0.0, ak, at_obj, [0.0],
                    "incommensurable-operands" if (ua.dim != dims.ZERO and ub.dim != dims.ZERO) else "dimensionless-vs-dimensional-operands",
                    famA, case)


SHAPES = [(), (3,), (2, 2), (5,), (1,)]
RHO_ACC = [0.0, 0.3, 0.9]
RHO_REF = [1.1, 3.0, 1e3]


def base_values(r, fam, ref, shape):
    n = int(np.prod(shape)) if shape else 1
    if fam == "temperature":
        v = np.array([ref.b * 0 + 10 ** r.uniform(0.3, 3.0) for _ in range(n)])   # kelvin, positive
        return v.reshape(shape), float(np.median(v))
    v = np.array([r.choice([-1, 1]) * 10 ** r.uniform(-1, 3) for _ in range(n)]) * ref.a
    return v.reshape(shape), float(np.median(np.abs(v)))


def pick_kinds(r, fam, shape, u, readings_big, allow_bare):
    ks = ["arr", "arr", "arr", "f4", "mul", "restored", "view"]
    if shape == ():
        ks += ["qty", "qty", "qty"]
    if len(shape) == 1:
        ks += ["qlist"]
    if readings_big:
        ks += ["i8"]
    if allow_bare and u.s is None:
        return r.choice(["list", "bare", "float" if shape == () else "list", "tuple" if len(shape) == 1 else "bare"])
    return r.choice(ks)


def random_close(rec, unyt, r, fam, pool, wrong_pool, ncases, K, fns):
    dimless = ALLV[fam] == dims.ZERO
    for ci in range(ncases):
        shape = r.choice(SHAPES)
        bshape = () if (shape and r.random() < 0.12) else shape
        ref = r.choice(pool)
        b_si, med = base_values(r, fam, ref, bshape)
        rk = r.choice(["default", "default", "zero", "bare", "bare", "dimless-qty", "percent", "dimensional" if r.random() < 0.3 else "bare"])
        ak = r.choice(["default", "bare", "bare", "qty", "qty", "qty-mul", "incommensurable" if r.random() < 0.4 else "qty"])
        if rk == "zero" and ak == "default":
            ak = "qty"
        rtol = 10 ** r.uniform(-6, -1)
        t_si = med * 10 ** r.uniform(-3, 0) if fam != "temperature" else ref.a * 10 ** r.uniform(-2, 1.5)
        n = int(np.prod(shape)) if shape else 1
        if r.random() < 0.55:
            rho = np.array([r.choice(RHO_ACC) for _ in range(n)])
        else:
            rho = np.array([r.choice(RHO_ACC) for _ in range(n)])
            rho[r.randrange(n)] = r.choice(RHO_REF)
        rho = rho.reshape(shape)
        special = None
        equal_nan = False
        if shape and r.random() < 0.06:
            special = (r.randrange(n), r.choice(["inf", "nan", "inf-finite", "inf-opposite"]))
            equal_nan = special[1] == "nan" and r.random() < 0.6
        sign = r.choice([-1.0, 1.0])
        for k in range(K):
            ua = r.choice(pool)
            ub = ua if r.random() < 0.2 else r.choice(pool)
            ut = r.choice(pool)
            if dimless and r.random() < 0.35:
                if r.random() < 0.5:
                    ua = SP.BARE
                else:
                    ub = SP.BARE
                if r.random() < 0.2:
                    ua = ub = SP.BARE
            big = fam != "temperature" and med / max(ua.a, ub.a) > 50 and med / min(ua.a, ub.a) < 1e15
            spec = {"ua": ua, "ub": ub, "ut": ut, "uwrong": r.choice(wrong_pool) if not dimless else r.choice(wrong_pool),
                    "ka": pick_kinds(r, fam, shape, ua, big, True), "kb": pick_kinds(r, fam, bshape, ub, big, True),
                    "b_si": b_si, "ashape": shape, "rho": rho, "sign": sign, "rk": rk, "rtol": rtol, "ak": ak, "t_si": t_si,
                    "special": special, "equal_nan": equal_nan}
            if ak == "incommensurable" and r.random() < 0.3 and not dimless:
                spec["uwrong"] = SP.BARE._replace(s=None)     # dimensionless-quantity atol on dimensional operands
            run_close(rec, unyt, r, fam, spec, fns, [r.choice(["kw", "pos"])])


MATRIX_CFG = [("default", 1e-7, "default", 0.0), ("default", 1e-7, "default", 3000.0), ("zero", 0.0, "bare", 0.5), ("zero", 0.0, "bare", 2.0),
              ("zero", 0.0, "qty", 0.5), ("zero", 0.0, "qty", 2.0), ("bare", 1e-3, "qty", 0.5), ("bare", 1e-3, "qty", 2.0),
              ("percent", 1e-3, "default", 0.5), ("percent", 1e-3, "default", 2.0), ("dimless-qty", 1e-3, "bare", 0.5),
              ("dimless-qty", 1e-3, "bare", 2.0)]


def matrix_close(rec, unyt, r, fam, pool, wrong_pool, fns):
    n = len(pool)
    ref = pool[0]
    if fam == "temperature":
        b_si = np.array([300.0, 77.5, 1000.0])
        t_si = 0.75 * ref.a
    else:
        b_si = np.array([1.0, 2.5, -40.0]) * ref.a
        t_si = 0.05 * ref.a
    for i, ua in enumerate(pool):
        for j, ub in enumerate(pool):
            ut = pool[(i + j + 1) % n]
            for (rk, rtol, ak, rho1) in MATRIX_CFG:
                rho = np.array([0.0, rho1, 0.3 if rho1 else 0.0])
                spec = {"ua": ua, "ub": ub, "ut": ut, "uwrong": wrong_pool[(i + j) % len(wrong_pool)], "ka": "arr", "kb": "arr", "b_si": b_si,
                        "ashape": (3,), "rho": rho, "sign": 1.0, "rk": rk, "rtol": rtol, "ak": ak, "t_si": t_si}
                run_close(rec, unyt, r, fam, spec, fns, ["kw"])
            if abs(ua.a / ub.a - 1.0) > 1e-3 or ua.b != ub.b:
                # the same numbers written in two different units are not the same quantity
                rd = np.array([300.0, 77.5, 1000.0]) if fam == "temperature" else np.array([1.0, 2.5, -40.0])
                a_, ra_ = make_operand(unyt, "arr", rd, ua)
                b_, rb_ = make_operand(unyt, "arr", rd, ub)
                for fn in fns:
                    judge_close(rec, unyt, fn, "kw", a_, b_, "arr", "arr", ra_, rb_, ua, ub, "default", None, 1e-5 if fn.startswith("np.") else 1e-7,
                                "default", None, [1e-8 * ua.a, 1e-8 * ub.a] if fn.startswith("np.") else [0.0], None, fam,
                                {"family": fam, "actual": ["arr", ua.s], "desired": ["arr", ub.s], "profile": "same-readings-different-units"})
            # incommensurable operand / tolerance for this pair
            w = wrong_pool[(i * n + j) % len(wrong_pool)]
            run_incommensurable(rec, unyt, r, fam, ua, "other", w, "arr", "arr", np.array([1.0, 2.5, -40.0]),
                                ("default", "loose-bare", "loose-qty")[(i + j) % 3], ut, fns)
            spec = {"ua": ua, "ub": ub, "ut": ut, "uwrong": w, "ka": "arr", "kb": "arr", "b_si": b_si, "ashape": (3,),
                    "rho": np.array([0.0, 3.0, 0.0]), "sign": 1.0, "rk": "bare", "rtol": 1e-6, "ak": "incommensurable", "t_si": t_si}
            run_close(rec, unyt, r, fam, spec, fns, ["kw"])
            spec = dict(spec, rk="dimensional", ak="qty")
            run_close(rec, unyt, r, fam, spec, fns, ["kw"])


# ------------------------------------------------------------------------------------------------ equal-units helpers
def unit_relation(ua, ub):
    """'equal' | 'unequal' | None (not judged)"""
    if ua.dim != ub.dim:
        return "unequal"
    ratio = ua.a / ub.a
    if abs(ratio - 1.0) <= 1e-12:
        if ua.b == ub.b:
            return "equal"
        if (ua.b == 0.0) != (ub.b == 0.0) or abs(ua.b - ub.b) > 1e-9 * max(abs(ua.b), abs(ub.b)):
            return None if (ua.b == 0.0) != (ub.b == 0.0) else "unequal"
        return "equal"
    if abs(ratio - 1.0) >= 1e-6:
        return "unequal"
    return None


def outcome_equal(fn, unyt, a, b, kw):
    try:
        if fn == "np.array_equal":
            r = np.array_equal(a, b, **kw)
        elif fn == "np.array_equiv":
            r = np.array_equiv(a, b)
        else:
            r = unyt.testing.assert_array_equal_units(a, b, **kw)
            return ("accept", "returned") if r is None else ("refuse", f"returned-{type(r).__name__}")
    except Exception as e:
        return ("refuse", "raises-" + type(e).__name__)
    if isinstance(r, (bool, np.bool_)):
        return ("accept" if bool(r) else "refuse", str(bool(r)))
    return ("refuse", f"returned-{type(r).__name__}")


def run_equal(rec, unyt, ua, ub, ka, kb, ra, rb, label, fns, objs=None):
    """ra/rb: readings. Expected: accept iff units equal and readings equal elementwise (array_equal: same shape; array_equiv:
    broadcastable).  objs: operands already built by the caller (units of user registries)"""
    rel = unit_relation(ua, ub)
    if objs is not None:
        (a, b), ra, rb = objs, np.asarray(ra, dtype="f8"), np.asarray(rb, dtype="f8")
    else:
        a, ra = make_operand(unyt, ka, ra, ua)
        b, rb = make_operand(unyt, kb, rb, ub)
    if rel is None:
        rec.note("equal:unit-relation-not-judged")
        return
    same_shape = ra.shape == rb.shape
    try:
        bro = np.broadcast(ra, rb)
        vals_equal = bool(np.all(ra == rb))
    except ValueError:
        vals_equal = False
    case = {"a": [ka, ua.s, np.asarray(ra).tolist()], "b": [kb, ub.s, np.asarray(rb).tolist()], "units": rel, "profile": label}
    oca, ocb = opclass(ka), opclass(kb)
    for fn in fns:
        if oca == "B" and ocb == "B" and fn != "assert_array_equal_units":
            continue                      # plain numpy, unyt is not involved
        if oca == "QL" or ocb == "QL":
            continue
        if not same_shape and fn == "assert_array_equal_units":
            rec.note("equal:assert-broadcast-not-judged")
            continue
        if fn == "np.array_equal":
            exp = "accept" if (rel == "equal" and same_shape and vals_equal) else "refuse"
        else:
            exp = "accept" if (rel == "equal" and vals_equal) else "refuse"
        out, detail = outcome_equal(fn, unyt, a, b, {})
        rec.count("calls:" + fn)
        rec.count(f"sub:{fn}:{exp}-expected")
        why = label + ":" + ("units-" + rel)
        cell = (fn, ka, kb, ua.cls, ub.cls, why, exp)
        if out == exp:
            if out == "refuse":
                rec.note(f"refusal-form:{fn}:{detail}")
            rec.ok(cell)
        elif out == "accept":
            rec.violation(f"C19:{fn}:accepts:{why}:{oca}/{ocb}", f"{fn}({show(a)}, {show(b)}) accepted; reference: units {rel}, readings {'equal' if vals_equal else 'differ'}", case)
        else:
            rec.violation(f"C19:{fn}:refuses:{detail}:{why}:{oca}/{ocb}", f"{fn}({show(a)}, {show(b)}) refused ({detail}); reference: units equal ({ua.s} = {ub.s}) and readings equal", case)


def equal_cases(rec, unyt, r, fam, pool, wrong_pool, n_random, fns):
    dimless = ALLV[fam] == dims.ZERO
    # equal-unit spellings inside the pool plus a few constructed ones
    base = np.array([1.0, 2.5, -40.0])
    pairs = [(ua, ub) for ua in pool for ub in pool]
    for (ua, ub) in pairs:
        if fam == "temperature":
            base = np.array([300.0, 77.5, 1000.0])
        run_equal(rec, unyt, ua, ub, "arr", "arr", base, base, "same-readings", fns)
        if ua.s != ub.s and ua.b == 0.0 and ub.b == 0.0:
            # physically equal, written in different units
            run_equal(rec, unyt, ua, ub, "arr", "arr", base, base * (ua.a / ub.a), "physically-equal", fns)
        d2 = base.copy(); d2[1] *= 1.0 + 1e-3
        run_equal(rec, unyt, ua, ub, "arr", "arr", base, d2, "one-reading-differs", fns)
    for _ in range(n_random):
        ua = r.choice(pool)
        ub = r.choice([u for u in pool if unit_relation(ua, u) == "equal"] or [ua]) if r.random() < 0.5 else r.choice(pool)
        if r.random() < 0.2:
            ub = r.choice(wrong_pool)
        shape = r.choice([(), (3,), (2, 2), (4,)])
        n = int(np.prod(shape)) if shape else 1
        ra = np.array([r.choice([-1, 1]) * round(10 ** r.uniform(-1, 3), 3) for _ in range(n)]).reshape(shape)
        prof = r.choice(["same-readings", "same-readings", "one-reading-differs", "broadcast", "last-ulp"])
        rb = ra.copy()
        if prof == "one-reading-differs":
            rb = rb.copy(); rb.flat[r.randrange(n)] *= 1.0 + 10 ** r.uniform(-9, -1)
        elif prof == "last-ulp":
            rb = rb.copy(); i = r.randrange(n); rb.flat[i] = np.nextafter(rb.flat[i], np.inf)
        elif prof == "broadcast":
            if shape == () or len(shape) != 1:
                prof = "same-readings"
            else:
                ra = np.full(shape, ra.flat[0]); rb = np.array(ra.flat[0])
        ka = pick_kinds(r, fam, ra.shape, ua, False, False)
        kb = pick_kinds(r, fam, rb.shape, ub, False, False)
        if dimless and r.random() < 0.4:
            if r.random() < 0.5:
                ua, ka = SP.BARE, r.choice(["list", "bare"])
            else:
                ub, kb = SP.BARE, r.choice(["list", "bare"])
        elif r.random() < 0.08:
            ub, kb = SP.BARE, r.choice(["list", "bare"])     # bare against a dimensional quantity: units differ
        if ka == "f4" or kb == "f4":
            ra = ra.astype("f4").astype("f8"); rb_ = rb.astype("f4").astype("f8")
            if prof in ("one-reading-differs", "last-ulp") and np.all(rb_ == ra):
                continue
            rb = rb_
        run_equal(rec, unyt, ua, ub, ka, kb, ra, rb, prof, fns)


# ------------------------------------------------------------------------------------------------ operand shape asymmetry
SHAPE_QUICK_FAMS = ["length", "mass", "time", "energy", "dimensionless", "frequency"]
SHAPE_MORE_FAMS = ["velocity", "pressure", "angle", "charge_mks", "force", "power"]


def shape_unit_pairs(pool, npairs):
    """ordered (first unit, second unit, third unit) with different scales; every pair also the other way round"""
    out, n = [], len(pool)
    for i in range(n):
        for j in range(i + 1, n):
            if abs(pool[i].a / pool[j].a - 1.0) <= 1e-3:
                continue
            ks = [k for k in range(n) if k not in (i, j)]
            ks.sort(key=lambda k: (abs(pool[k].a / pool[i].a - 1.0) <= 1e-3) + (abs(pool[k].a / pool[j].a - 1.0) <= 1e-3))
            ut = pool[ks[0]] if ks else pool[i]
            out += [(pool[i], pool[j], ut), (pool[j], pool[i], ut)]
            if len(out) >= npairs:
                return out
    return out


_UNITS = {}


def shape_unit(unyt, u):
    """the unyt Unit of a spelling, parsed once per process (the parser is the subject of C20, not of this part)"""
    k = u.s
    if k not in _UNITS:
        _UNITS[k] = unyt.Unit(k)
    return _UNITS[k]


def shape_operand(unyt, kind, readings, u):
    x = np.array(readings, dtype="f8")
    if kind == "qty" and x.shape == ():
        return unyt.unyt_quantity(float(x), shape_unit(unyt, u)), x
    if kind == "arr":
        return unyt.unyt_array(x.copy(), shape_unit(unyt, u)), x
    return make_operand(unyt, kind, readings, u)


def shape_kind(r, shape, plain):
    if shape == ():
        return r.choice(["qty", "arr"])
    # 'restored' rarely: every unpickled array brings its own registry, whose first hash costs milliseconds
    return "arr" if plain else r.choice(["arr"] * 6 + ["mul"] * 3 + ["view"] * 3 + ["restored"])


def shape_tolerances(unyt, cfg, group, ua, ub, ut, c, mag, r):
    """-> (rk, rtol object, rtol value, ak, atol object, t_opts used by the judge, readings for the placements, atol unit tag)"""
    name, rk, rtol, ak, profile = cfg
    npf = group == "np"
    if rk == "default":
        rt_obj, rt_val = None, (1e-5 if npf else 1e-7)
    else:
        rt_obj, rt_val = float(rtol), float(rtol)
    t_base = mag * 10 ** r.uniform(-3, -1)
    if ak == "default":
        at_obj = None
        if npf:
            t_opts = [1e-8 * ua.a, 1e-8 * ub.a]        # numpy's own default, a bare number
            reads = list(t_opts)
        else:
            t_opts, reads = [0.0], [0.0]
        return rk, rt_obj, rt_val, "default", at_obj, t_opts, reads, "none"
    if ak == "bare":
        x = float(t_base / ub.a)
        both = [x * ub.a, x * ua.a]
        # placements are laid out against both readings for every helper: for allclose_units the reading in actual's unit is
        # the WRONG one, and a value between the two tells them apart
        return rk, rt_obj, rt_val, "bare", x, (both if npf else [x * ub.a]), both, "bare"
    u = {"qty-a": ua, "qty-b": ub, "qty-t": ut}[ak]
    val = float(t_base / u.a)
    at_obj = val * shape_unit(unyt, u) if r.random() < 0.3 else unyt.unyt_quantity(val, shape_unit(unyt, u))
    t = val * u.a
    return rk, rt_obj, rt_val, "qty", at_obj, [t], [t], {"qty-a": "in-first-unit", "qty-b": "in-second-unit", "qty-t": "in-third-unit"}[ak]


def shape_cfg(rec, unyt, r, fam, ua, ub, ut, sa, sb, cfg, state, plain=True, only_labels=None):
    """one (unit pair, shape pair, tolerance spelling): every placement of the difference, both helper groups"""
    name, rk0, rtol0, ak0, profile = cfg
    rel = SG.relation(sa, sb)
    full = SG.full_shape(sa, sb)
    ref = max(ua.a, ub.a)
    c = 0.0 if profile == "zero" else r.choice([-1.0, 1.0]) * 10 ** r.uniform(0, 2) * ref
    mag = abs(c) or ref
    eps = eps_kind("arr")
    for group, fns in (("np", ("np.isclose", "np.allclose")), ("units", ("allclose_units", "assert_allclose_units"))):
        rk, rt_obj, rt_val, ak, at_obj, t_opts, reads, atag = shape_tolerances(unyt, cfg, group, ua, ub, ut, c, mag, r)
        T = [t + rt_val * abs(c) for t in reads]
        for label, diff in SG.placements(min(T), max(T), rt_val > 0):
            if only_labels is not None and label not in only_labels and label != "any-difference":
                continue
            if diff is None:
                diff = 1e-6 * mag
            state["n"] += 1
            perturb = "ab"[state["n"] % 2]
            sign = (1.0, -1.0)[(state["n"] // 2) % 2]
            a_si, b_si, k = SG.layout(r, sa, sb, c, diff, min(T), perturb, sign)
            with np.errstate(all="ignore"):
                ra0, rb0 = a_si / ua.a, b_si / ub.a
            allv = np.concatenate([np.abs(ra0).ravel(), np.abs(rb0).ravel(), [abs(t) / s_ for t in t_opts for s_ in (ua.a, ub.a)]])
            allv = allv[allv > 0]
            if allv.size and (allv.min() < 1e-250 or allv.max() > 1e250 or not np.isfinite(allv).all()):
                rec.count("discarded:shape:outside-float-range")
                continue
            ka, kb = shape_kind(r, sa, plain), shape_kind(r, sb, plain)
            a, ra = shape_operand(unyt, ka, ra0, ua)
            b, rb = shape_operand(unyt, kb, rb0, ub)
            twin = None
            if rel != "same-shape":
                fa, _ = shape_operand(unyt, "arr", np.broadcast_to(ra, full).copy(), ua)
                fb, _ = shape_operand(unyt, "arr", np.broadcast_to(rb, full).copy(), ub)
                twin = (fa, fb, np.broadcast_to(ra, full).copy(), np.broadcast_to(rb, full).copy())
            form = ("kw", "pos")[(state["n"] // 4) % 2]
            case = {"family": fam, "first": [ka, ua.s, list(sa)], "second": [kb, ub.s, list(sb)], "relation": rel, "tolerances": name,
                    "rtol": rt_obj, "atol": at_obj, "placement": label, "perturbed-operand": perturb,
                    "first_readings": np.asarray(ra).tolist(), "second_readings": np.asarray(rb).tolist()}
            cellx = ("shape", rel, str(sa), str(sb), name, label, "perturb-" + perturb)
            # is every element decided under each single reading of the tolerance?  (law judged only then)
            per_reading = [close_verdict(ra, ua, rb, ub, rt_val, [t], eps) for t in t_opts]
            settled = all((v >= 0).all() for v in per_reading)
            between = settled and len(per_reading) == 2 and bool((per_reading[0] != per_reading[1]).any())
            for fn in fns:
                if fn == "assert_allclose_units" and state["n"] % 3:
                    continue                      # a thin wrapper of allclose_units: a third of the cases
                cap = HM.CapRec()
                judge_close(cap, unyt, fn, form, a, b, ka, kb, ra, rb, ua, ub, rk, rt_obj, rt_val, ak, at_obj, t_opts, None, fam, case)
                cap2 = None
                if twin is not None and SM.violated(cap.events):
                    cap2 = HM.CapRec()
                    judge_close(cap2, unyt, fn, form, twin[0], twin[1], "arr", "arr", twin[2], twin[3], ua, ub, rk, rt_obj, rt_val, ak,
                                at_obj, t_opts, None, fam, case)
                SM.replay(rec, cap.events, cellx, rel, None if cap2 is None else cap2.events)
                rec.count("sub:shape-rel:" + rel)
                if twin is None:
                    continue
                if not settled:
                    rec.count("discarded:shape:law-near-boundary")
                    continue
                extra_kw = {}
                og = outcome_close(fn, unyt, a, b, rt_obj, at_obj, form, extra_kw)
                ot = outcome_close(fn, unyt, twin[0], twin[1], rt_obj, at_obj, form, extra_kw)
                same, text = SM.same_verdict(fn, og, ot, full)
                rec.count("sub:shape-law:" + fn)
                if between:
                    rec.count("sub:shape-law:between-readings")
                if same:
                    rec.ok(("shape-law", fn, rel, str(sa), str(sb), name, label, "between-readings" if between else "readings-agree"))
                else:
                    tc = {"default": "atol-default", "bare": "atol-bare", "qty": "atol-qty"}[ak]
                    rec.violation(f"C19:{fn}:verdict-depends-on-operand-shape:{tc}:{rel}",
                                  f"{fn}({show(a)}, {show(b)}, rtol={show(rt_obj)}, atol={show(at_obj)}): {text}; the same values, units and "
                                  f"tolerances, only the operands written at shapes {sa} / {sb} instead of {full}", case)


def shape_incommensurable(rec, unyt, r, fam, ua, w, sa, sb, fns):
    """operands of different dimension are refused whatever their shapes"""
    rel = SG.relation(sa, sb)
    ra0 = np.full(sa, 1.0)
    rb0 = np.full(sb, 1.0)
    ka, kb = shape_kind(r, sa, True), shape_kind(r, sb, True)
    for (u1, u2) in ((ua, w), (w, ua)):
        a, ra = shape_operand(unyt, ka, ra0, u1)
        b, rb = shape_operand(unyt, kb, rb0, u2)
        if u1.s is None or u2.s is None:
            continue
        forced = "incommensurable-operands" if (u1.dim != dims.ZERO and u2.dim != dims.ZERO) else "dimensionless-vs-dimensional-operands"
        case = {"family": fam, "first": [ka, u1.s, list(sa)], "second": [kb, u2.s, list(sb)], "relation": rel}
        for fn in fns:
            cap = HM.CapRec()
            judge_close(cap, unyt, fn, "kw", a, b, ka, kb, ra, rb, u1, u2, "default", None, 0.0, "default", None, [0.0], forced, fam, case)
            SM.replay(rec, cap.events, ("shape", rel, str(sa), str(sb), "incommensurable"), rel)


def shape_equal(rec, unyt, r, fam, ua, ub, sa, sb, fns):
    """array_equal / array_equiv / assert_array_equal_units on operands of different shape: equal units and equal values decide,
    array_equiv must give the answer it gives for the operands written at the common shape"""
    rel = SG.relation(sa, sb)
    full = SG.full_shape(sa, sb)
    c = r.choice([-1.0, 1.0]) * round(10 ** r.uniform(0, 2), 3)
    for prof in ("same-readings", "one-reading-differs"):
        ra0 = np.full(sa, c)
        rb0 = np.full(sb, c)
        if prof == "one-reading-differs":
            big = rb0 if SG.size(sb) >= SG.size(sa) else ra0
            if big.shape == ():
                big = big * (1.0 + 1e-3)
                if SG.size(sb) >= SG.size(sa):
                    rb0 = big
                else:
                    ra0 = big
            else:
                big.flat[r.randrange(big.size)] *= 1.0 + 1e-3
        ka, kb = shape_kind(r, sa, True), shape_kind(r, sb, True)
        cap = HM.CapRec()
        run_equal(cap, unyt, ua, ub, ka, kb, ra0, rb0, prof, fns)
        SM.replay(rec, cap.events, ("shape", rel, str(sa), str(sb)), rel)
        if rel == "same-shape" or "np.array_equiv" not in fns or unit_relation(ua, ub) is None:
            continue
        a, _ = shape_operand(unyt, ka, ra0, ua)
        b, _ = shape_operand(unyt, kb, rb0, ub)
        fa, _ = shape_operand(unyt, "arr", np.broadcast_to(ra0, full).copy(), ua)
        fb, _ = shape_operand(unyt, "arr", np.broadcast_to(rb0, full).copy(), ub)
        og = outcome_equal("np.array_equiv", unyt, a, b, {})
        ot = outcome_equal("np.array_equiv", unyt, fa, fb, {})
        rec.count("sub:shape-law:np.array_equiv")
        if og[0] == ot[0]:
            rec.ok(("shape-law", "np.array_equiv", rel, str(sa), str(sb), prof, ua.cls, ub.cls))
        else:
            rec.violation(f"C19:np.array_equiv:verdict-depends-on-operand-shape:{rel}",
                          f"np.array_equiv({show(a)}, {show(b)}) is {og[1]}, with both operands written at shape {full} it is {ot[1]}",
                          {"family": fam, "first": [ka, ua.s, list(sa)], "second": [kb, ub.s, list(sb)], "profile": prof})


def shape_matrix(rec, unyt, r, fam, pool, wrong, npairs, which):
    """enumerated: unit pairs (both orders) x shape pairs x tolerance spellings x placements; which: index of the ordered pair"""
    pairs = shape_unit_pairs(pool, npairs)
    if which >= len(pairs):
        rec.note(f"shape-family-skipped:{fam}/{which}")
        return
    rec.reach("shape-family:" + fam)
    state = {"n": 0}
    for pi, (ua, ub, ut) in list(enumerate(pairs))[which:which + 1]:
        for (sa, sb) in SG.SHAPE_PAIRS:
            rec.reach(f"shape-pair:{sa}/{sb}")
            for cfg in SG.TOL_CFGS:
                rec.reach("shape-tolerances:" + cfg[0])
                shape_cfg(rec, unyt, r, fam, ua, ub, ut, sa, sb, cfg, state)
            if pi < 2:
                shape_incommensurable(rec, unyt, r, fam, ua, wrong[(pi + len(sa)) % len(wrong)], sa, sb, CLOSE_FNS)
            shape_equal(rec, unyt, r, fam, ua, ub, sa, sb, EQ_FNS)
            if pi == 0:
                shape_equal(rec, unyt, r, fam, ua, ua, sa, sb, EQ_FNS)
                same = [u for u in pool if u.s != ua.s and unit_relation(ua, u) == "equal"]
                if same:
                    shape_equal(rec, unyt, r, fam, ua, same[0], sa, sb, EQ_FNS)
    rec.sample({"shape-family": fam, "unit-pair": [u.s for u in pairs[which]], "shape-pairs": len(SG.SHAPE_PAIRS),
                "tolerance-spellings": [c[0] for c in SG.TOL_CFGS]})


def shape_random(rec, unyt, r, fam, pool, wrong, ncases):
    """drawn: any two broadcastable shapes, any two units of the pool (equal ones too), operand kinds view/mul/restored"""
    rec.reach("shape-family:" + fam)
    state = {"n": r.randrange(12)}
    done = 0
    for _ in range(ncases * 6):
        if done >= ncases:
            break
        sa, sb = r.choice(SG.RANDOM_SHAPES), r.choice(SG.RANDOM_SHAPES)
        if not SG.broadcastable(sa, sb) or (sa == sb and r.random() < 0.8):
            continue
        done += 1
        ua, ub, ut = r.choice(pool), r.choice(pool), r.choice(pool)
        cfg = r.choice(SG.TOL_CFGS)
        labels = None if r.random() < 0.3 else set(r.sample(["equal", "well-inside", "just-inside", "just-outside-smaller-reading",
                                                             "between-readings", "just-inside-larger-reading", "just-outside",
                                                             "well-outside", "far-outside"], 3))
        shape_cfg(rec, unyt, r, fam, ua, ub, ut, sa, sb, cfg, state, plain=False, only_labels=labels)
        if r.random() < 0.2:
            shape_equal(rec, unyt, r, fam, ua, ub, sa, sb, EQ_FNS)
        if r.random() < 0.1:
            shape_incommensurable(rec, unyt, r, fam, ua, r.choice(wrong), sa, sb, CLOSE_FNS)


# ------------------------------------------------------------------------------------------------ accepts / returns
SENT = object()


def dim_object(unyt, name, how, r):
    """the dimension handed to the decorator: module attribute, composite of base dimensions, or read off a Unit"""
    D = unyt.dimensions
    if how == "attr" and hasattr(D, name):
        return getattr(D, name)
    return dim_from_vec(unyt, ALLV[name])


def dim_from_vec(unyt, vec):
    import sympy
    D = unyt.dimensions
    basis = [D.mass, D.length, D.time, D.temperature, D.angle, D.current_mks, D.luminous_intensity, D.logarithmic]
    e = sympy.Integer(1)
    for bsym, p in zip(basis, vec):
        if p != 0:
            e = e * bsym ** sympy.Rational(p.numerator, p.denominator)
    return e


def make_arg(unyt, r, u, form, registry=None):
    """value passed to / returned from the wrapped function; registry: the user registry the unit symbol is read in"""
    if u.s is None:
        return r.choice([3.5, np.array([1.0, 2.0]), 7, [1.0, 2.0]]) if form != "bare-float" else 3.5
    kw = {} if registry is None else {"registry": registry}
    if form == "qty":
        return unyt.unyt_quantity(2.5, u.s, **kw)
    if form == "arr":
        return unyt.unyt_array([1.0, 2.0, 3.0], u.s, **kw)
    if form == "int":
        return unyt.unyt_array(np.array([1, 2, 3]), u.s, **kw)
    if form == "mul":
        return 2.5 * unyt.Unit(u.s, **kw)
    if form == "restored":
        return pickle.loads(pickle.dumps(unyt.unyt_quantity(2.5, u.s, **kw)))
    if form == "arith":
        try:
            return unyt.unyt_quantity(5.0, u.s, **kw) * 3.0 / 2.0
        except Exception:            # offset and logarithmic units refuse arithmetic (C08): pass the plain quantity
            return unyt.unyt_quantity(2.5, u.s, **kw)
    if form == "converted":
        return unyt.unyt_array([2.5, 1.0], u.s, **kw).in_units(u.s)[0]
    return unyt.unyt_quantity(2.5, u.s, **kw)


ARG_FORMS = ["qty", "arr", "mul", "restored", "int", "arith", "converted"]


def templates(log):
    """name -> (raw function, {form: builder(x, y, filler) -> (args, kwargs)}); x -> parameter a, y -> parameter b"""
    def plain2(a, b):
        log.append(((a, b), {})); return SENT

    def with_locals(a, b):
        tmp = a; other = b; b2 = tmp
        log.append(((a, b), {})); return SENT

    def default3(a, c=11, b=None):
        log.append(((a, c, b), {})); return SENT

    def middle(a, u, b):
        log.append(((a, u, b), {})); return SENT

    def kwonly(a, *, b):
        log.append(((a,), {"b": b})); return SENT

    def varargs_kwonly(a, *rest, b):
        log.append(((a,) + rest, {"b": b})); return SENT

    def varkw(a, **kw):
        log.append(((a,), dict(kw))); return SENT

    def posonly(a, b, /):
        log.append(((a, b), {})); return SENT

    def varargs(a, b, *rest):
        log.append(((a, b) + rest, {})); return SENT

    class K:
        def method(self, a, b):
            log.append(((a, b), {})); return SENT
    T = {
        "plain2": (plain2, {"pos": lambda x, y, f: ((x, y), {}), "kw": lambda x, y, f: ((), {"a": x, "b": y}),
                            "mixed": lambda x, y, f: ((x,), {"b": y}), "kw-reversed": lambda x, y, f: ((), {"b": y, "a": x})}),
        "with-locals": (with_locals, {"pos": lambda x, y, f: ((x, y), {}), "mixed": lambda x, y, f: ((x,), {"b": y})}),
        "default3": (default3, {"pos": lambda x, y, f: ((x, f, y), {}), "kw": lambda x, y, f: ((), {"a": x, "b": y}),
                                "b-omitted": lambda x, y, f: ((x,), {}), "b-omitted-kw": lambda x, y, f: ((), {"a": x, "c": f})}),
        "middle-unchecked": (middle, {"pos": lambda x, y, f: ((x, f, y), {}), "kw": lambda x, y, f: ((), {"u": f, "a": x, "b": y})}),
        "kwonly": (kwonly, {"kw": lambda x, y, f: ((x,), {"b": y}), "all-kw": lambda x, y, f: ((), {"a": x, "b": y})}),
        "varargs+kwonly": (varargs_kwonly, {"no-extra": lambda x, y, f: ((x,), {"b": y}), "extra": lambda x, y, f: ((x, f, f), {"b": y})}),
        "varkw": (varkw, {"kw": lambda x, y, f: ((x,), {"b": y}), "kw+extra": lambda x, y, f: ((x,), {"zz": f, "b": y})}),
        "posonly": (posonly, {"pos": lambda x, y, f: ((x, y), {})}),
        "varargs": (varargs, {"pos": lambda x, y, f: ((x, y), {}), "extra": lambda x, y, f: ((x, y, f, f), {})}),
        "method": (K.method, {"pos": lambda x, y, f: ((K(), x, y), {}), "kw": lambda x, y, f: ((K(),), {"a": x, "b": y})}),
    }
    return T


def spelled(r, u):
    return u.cls


def run_accepts(rec, unyt, r, tname, form, dname_a, dname_b, how, xa, xb, filler, stacked_returns=None, shared=None):
    """xa/xb: (value, U, argform).  Expected: pass iff every explicitly bound checked parameter has the stated dimension.
    shared: dict that keeps the decorated function between calls (the same function called again); None: a new function"""
    skey = ("accepts", tname, dname_a, dname_b, how)
    if shared is not None and skey in shared:
        log, raw, forms, wrapped = shared[skey]
        del log[:]
    else:
        log = []
        raw, forms = templates(log)[tname]
        da, db = dim_object(unyt, dname_a, how, r), dim_object(unyt, dname_b, how, r)
        try:
            wrapped = unyt.accepts(a=da, b=db)(raw)
        except Exception as e:
            rec.violation(f"C19:accepts:{tname}:decorating-raises:{type(e).__name__}", f"accepts(a={dname_a}, b={dname_b}) on template {tname} raised {e}", None)
            return
        if shared is not None:
            shared[skey] = (log, raw, forms, wrapped)
    args, kwargs = forms[form](xa[0], xb[0], filler)
    try:
        bound = inspect.signature(raw).bind(*args, **kwargs).arguments
    except TypeError:
        return
    passed = {}
    for k, v in bound.items():
        p = inspect.signature(raw).parameters[k]
        if p.kind == p.VAR_KEYWORD:
            passed.update(v)
        elif p.kind != p.VAR_POSITIONAL:
            passed[k] = v
    want = {"a": (ALLV[dname_a], xa), "b": (ALLV[dname_b], xb)}
    bad = [k for k, (vec, x) in want.items() if k in passed and passed[k] is x[0] and x[1].dim != vec]
    exp = "pass" if not bad else "refuse"
    try:
        res = wrapped(*args, **kwargs)
        out = "pass"
    except TypeError as e:
        out, res = "refuse", e
    except Exception as e:
        out, res = "other:" + type(e).__name__, e
    rec.count("calls:accepts")
    rec.reach(f"accepts:{tname}/{form}")
    rec.count(f"sub:accepts:{exp}-expected")
    case = {"template": tname, "form": form, "a": [dname_a, xa[1].s, xa[2]], "b": [dname_b, xb[1].s, xb[2]], "dimension-given-as": how,
            "outcome": out if out != "refuse" else "TypeError: " + str(res)[:120]}
    cell = ("accepts", tname, form, dname_a, dname_b, xa[2], xb[2], how, exp)
    offending = lambda k: f"{want[k][1][2]}/{want[k][1][1].cls}"
    if exp == "pass":
        if out == "pass":
            if len(log) != 1:
                rec.violation(f"C19:accepts:{tname}/{form}:call-count", f"wrapped function called {len(log)} times for one accepted call", case)
            elif res is not SENT:
                rec.violation(f"C19:accepts:{tname}/{form}:result-altered", f"accepted call returned {res!r}, not the wrapped function's result", case)
            elif not all(any(v is x for x in args) or any(v is x for x in kwargs.values()) or v in (11, None) or type(v).__name__ == "K"
                         for v in list(log[0][0]) + list(log[0][1].values())):
                rec.violation(f"C19:accepts:{tname}/{form}:arguments-altered", "wrapped function received objects other than those passed", case)
            else:
                rec.ok(cell)
        else:
            rec.violation(f"C19:accepts:{tname}/{form}:refuses-valid:{out if out != 'refuse' else 'TypeError'}:{how}",
                          f"accepts(a={dname_a}, b={dname_b}) [{tname}/{form}] refused a={xa[1].s} ({xa[2]}), b={xb[1].s} ({xb[2]}): {str(res)[:150]}", case)
    else:
        if log:
            rec.violation(f"C19:accepts:{tname}/{form}:called-on-refusal", f"wrapped function was called {len(log)}x although argument(s) {bad} have the wrong dimension (outcome {out})", case)
        elif out == "pass":
            rec.violation(f"C19:accepts:{tname}/{form}:lets-through:{how}:" + ",".join(f"{k}:{offending(k)}" for k in bad),
                          f"accepts(a={dname_a}, b={dname_b}) let through {', '.join(k + '=' + str(want[k][1][1].s) for k in bad)}", case)
        elif out != "refuse":
            rec.violation(f"C19:accepts:{tname}/{form}:wrong-exception:{out}", f"refusal raised {out} instead of TypeError", case)
        else:
            rec.ok(cell)


RET_TEMPLATES = ["single", "tuple2", "tuple3", "surplus-values", "r_unit-keyword", "with-arguments", "stacked-accepts"]


def run_returns(rec, unyt, r, tname, how, items, shared=None):
    """items: list of (dimension name, (value, U, argform)) for the returned values.  shared: as for run_accepts"""
    import warnings
    log = []
    vals = [x[0] for _, x in items]
    checked = items
    if tname in ("single", "r_unit-keyword", "with-arguments", "stacked-accepts"):
        RET = vals[0]
        checked = items[:1]
    elif tname == "surplus-values":
        RET = tuple(vals)
        checked = items[:1]
    else:
        RET = tuple(vals)
    skey = ("returns", tname, how, tuple(dn for dn, _ in checked))
    call_args, call_kw = (), {}
    if tname == "stacked-accepts":
        call_args, call_kw = (vals[0],), {"k": 5}
    elif tname == "with-arguments":
        call_args, call_kw = (vals[0], 4), {"k": "v"}
    if shared is not None and skey in shared:
        log, box, wrapped = shared[skey]       # the same decorated function, returning the new value this time
        del log[:]
        box[0] = RET
    else:
        dobjs = [dim_object(unyt, dn, how, r) for dn, _ in checked]
        box = [RET]

        def f(*args, **kw):
            log.append((args, kw)); return box[0]

        def g(a, k=None):
            log.append(((a,), {"k": k})); return box[0]
        try:
            with warnings.catch_warnings():
                warnings.simplefilter("ignore")
                if tname == "r_unit-keyword":
                    wrapped = unyt.returns(r_unit=dobjs[0])(f)
                elif tname == "stacked-accepts":
                    wrapped = unyt.accepts(a=dobjs[0])(unyt.returns(*dobjs)(g))
                else:
                    wrapped = unyt.returns(*dobjs)(f)
        except Exception as e:
            rec.violation(f"C19:returns:{tname}:decorating-raises:{type(e).__name__}", f"returns(...) raised {e}", None)
            return
        if shared is not None:
            shared[skey] = (log, box, wrapped)
    bad = [i for i, (dn, x) in enumerate(checked) if x[1].dim != ALLV[dn]]
    exp = "pass" if not bad else "refuse"
    try:
        with warnings.catch_warnings():
            warnings.simplefilter("ignore")
            res = wrapped(*call_args, **call_kw)
        out = "pass"
    except TypeError as e:
        out, res = "refuse", e
    except Exception as e:
        out, res = "other:" + type(e).__name__, e
    rec.count("calls:returns")
    rec.reach("returns:" + tname)
    rec.count(f"sub:returns:{exp}-expected")
    case = {"template": tname, "returned": [[dn, x[1].s, x[2]] for dn, x in items], "dimension-given-as": how,
            "outcome": out if out != "refuse" else "TypeError: " + str(res)[:120]}
    cell = ("returns", tname, how, tuple(dn for dn, _ in checked), tuple(x[2] for _, x in checked), exp)
    off = lambda i: f"{checked[i][1][2]}/{checked[i][1][1].cls}"
    if len(log) != 1 and not (tname == "stacked-accepts" and exp == "refuse" and len(log) in (0, 1)):
        rec.violation(f"C19:returns:{tname}:call-count", f"wrapped function called {len(log)} times for one call", case)
        return
    if log and tname == "with-arguments":
        a_, k_ = log[0]
        if not (len(a_) == 2 and a_[0] is vals[0] and a_[1] == 4 and k_ == {"k": "v"}):
            rec.violation(f"C19:returns:{tname}:arguments-altered", "wrapped function received other arguments than passed", case)
            return
    if exp == "pass":
        if out == "pass":
            same = res is RET and (not isinstance(RET, tuple) or all(p is q for p, q in zip(res, vals)))
            if not same:
                rec.violation(f"C19:returns:{tname}:result-altered", f"returns(...) handed back {res!r} instead of the wrapped function's own result object", case)
            else:
                rec.ok(cell)
        else:
            rec.violation(f"C19:returns:{tname}:refuses-valid:{out if out != 'refuse' else 'TypeError'}:{how}",
                          f"returns({', '.join(dn for dn, _ in checked)}) refused {[x[1].s for _, x in checked]}: {str(res)[:150]}", case)
    else:
        if out == "pass":
            rec.violation(f"C19:returns:{tname}:lets-through:{how}:" + ",".join(off(i) for i in bad),
                          f"returns({', '.join(dn for dn, _ in checked)}) let through {[checked[i][1][1].s for i in bad]}", case)
        elif out != "refuse":
            rec.violation(f"C19:returns:{tname}:wrong-exception:{out}", f"refusal raised {out} instead of TypeError", case)
        else:
            rec.ok(cell)


# ------------------------------------------------------------------------------------------------ histories over registries
class History:
    """one unit symbol with several definitions (vf.gen.c19_hist): builds the registries, performs the edits, hands out values.
    needs: role -> {key: maker(registry)}: every value of a definition that a later step uses, so that in the re-add scenarios
    they are created while that definition is the current one"""

    def __init__(self, unyt, spec, needs):
        from unyt.unit_registry import UnitRegistry
        self.unyt, self.spec, self.needs = unyt, spec, needs
        self.sym, self.scen = spec["sym"], spec["scenario"]
        self.chain = list(spec["roles"])
        self.readd = self.scen.startswith("readd")
        self.regs, self.vals, self.shared, self.cur = {}, {}, {}, -1
        if self.readd:
            R = UnitRegistry()
            for role in self.chain:
                self.regs[role] = R
            self._define(0)
            if self.scen == "readd":
                for j in range(1, len(self.chain)):
                    self._define(j)
        for j, role in enumerate(spec["variants"]):
            if role in self.regs:
                continue
            first = self.chain and role == self.chain[0]
            if self.scen == "default-vs-user" and first:
                reg = unyt.unit_registry.default_unit_registry
            else:
                reg = UnitRegistry()
            self._add(reg, role)
            if self.scen == "json-registry" and first:
                reg = UnitRegistry.from_json(reg.to_json())
            self.regs[role] = reg

    def _add(self, reg, role):
        name, scale = self.spec["variants"][role]
        D = self.unyt.dimensions
        reg.add(self.sym, float(scale), getattr(D, name) if hasattr(D, name) else dim_from_vec(self.unyt, ALLV[name]))

    def _define(self, j):
        R = self.regs[self.chain[j]]
        if self.cur >= 0:
            old = self.chain[self.cur]
            for key, maker in self.needs.get(old, {}).items():
                self.value(old, key, maker)
            R.remove(self.sym)
        self._add(R, self.chain[j])
        self.cur = j

    def registry_arg(self, role):
        reg = self.regs[role]
        return None if reg is self.unyt.unit_registry.default_unit_registry else reg

    def value(self, role, key, maker):
        k = (role, key)
        if k not in self.vals:
            if self.readd and role in self.chain:
                j = self.chain.index(role)
                if j < self.cur:
                    raise RuntimeError(f"history plan incomplete: value {k} of an earlier definition requested after the edit")
                while self.cur < j:
                    self._define(self.cur + 1)
            self.vals[k] = maker(self.registry_arg(role))
        return self.vals[k]

    def U(self, role, tagged=False):
        name, scale = self.spec["variants"][role]
        return SP.U(f"{self.sym}@{role}" if tagged else self.sym, float(scale), 0.0, ALLV[name], "registry-symbol", True)


def hist_reqs(unyt, spec, st):
    """the values of S one step needs: [(slot, role, key, maker)]"""
    sym = spec["sym"]
    out = []
    if st["h"] in ("accepts", "returns"):
        u = SP.U(sym, 1.0, 0.0, dims.ZERO, "registry-symbol", True)
        form = st["argform"]
        out.append(("arg", st["role"], "arg:" + form, lambda reg, form=form: make_arg(unyt, None, u, form, registry=reg)))
        return out
    for slot in ("x", "y"):
        o = st[slot]
        if o[0] == "S":
            rd = [float(v) for v in o[2]]
            out.append((slot, o[1], "arr:" + repr(rd), lambda reg, rd=rd: unyt.unyt_array(np.array(rd), sym, **({} if reg is None else {"registry": reg}))))
    if st.get("atol"):
        role, t = st["atol"]
        out.append(("atol", role, "atol:" + repr(float(t)), lambda reg, t=t: unyt.unyt_quantity(float(t), sym, **({} if reg is None else {"registry": reg}))))
    return out


def hist_build(unyt, spec, only=None):
    """only: build for that single step (the cold process)"""
    needs = {}
    for st in (spec["steps"] if only is None else [spec["steps"][only]]):
        for slot, role, key, maker in hist_reqs(unyt, spec, st):
            needs.setdefault(role, {}).setdefault(key, maker)
    return History(unyt, spec, needs)


def hist_step(unyt, H, spec, i, cap):
    """one helper call of a history, judged against the reference into the recorder cap"""
    st = spec["steps"][i]
    got = {slot: (H.value(role, key, maker), role) for slot, role, key, maker in hist_reqs(unyt, spec, st)}
    if st["h"] in ("accepts", "returns"):
        val, role = got["arg"]
        x = (val, H.U(role), st["argform"])
        sname = spec["variants"][st.get("stated", spec["stated"])][0]
        pn, pu = spec["partner"]
        pU = SP.BARE if pu is None else SP.evaluate(pu, "atomic")
        pform = "bare-float" if pu is None else "qty"
        y = (make_arg(unyt, None, pU, pform), pU, "bare" if pu is None else "qty")
        how = spec["how"]
        shared = H.shared if st.get("sharing", spec["sharing"]) == "same-function" else None
        if st["h"] == "accepts":
            fill = unyt.unyt_quantity(2.5, "K")
            if spec["side"] == "a":
                run_accepts(cap, unyt, None, st["tname"], st["form"], sname, pn, how, x, y, fill, shared=shared)
            else:
                run_accepts(cap, unyt, None, st["tname"], st["form"], pn, sname, how, y, x, fill, shared=shared)
        else:
            y2 = (make_arg(unyt, None, pU, pform), pU, y[2])
            items = [(sname, x), (pn, y), (pn, y2)]
            if st["tname"] == "tuple2":
                items = items[:2]
            if spec["s_last"] and st["tname"] in ("tuple2", "tuple3"):
                items = items[::-1]
            run_returns(cap, unyt, None, st["tname"], how, items, shared=shared)
        return
    ps, pcls = spec["partner"]
    pU = SP.evaluate(ps, pcls)

    def operand(slot):
        o = st[slot]
        if o[0] == "S":
            return got[slot][0], np.array(o[2], dtype="f8"), H.U(o[1], tagged=True)
        rd = np.array(o[1], dtype="f8")
        return unyt.unyt_array(rd.copy(), pU.s), rd, pU
    a, ra, ua = operand("x")
    b, rb, ub = operand("y")
    fn = st["fn"]
    case = {"symbol": spec["sym"], "scenario": spec["scenario"], "definitions": spec["variants"], "x": st["x"], "y": st["y"],
            "partner-unit": ps, "profile": st["profile"]}
    if st["h"] == "equal":
        run_equal(cap, unyt, ua, ub, "arr", "arr", ra, rb, st["profile"], [fn], objs=(a, b))
        return
    npf = fn.startswith("np.")
    forced = None
    if ua.dim != ub.dim:
        forced = "incommensurable-operands" if (ua.dim != dims.ZERO and ub.dim != dims.ZERO) else "dimensionless-vs-dimensional-operands"
    if st.get("atol"):
        at_obj, arole = got["atol"]
        au = H.U(arole)
        if au.dim != ua.dim:
            forced = "incommensurable-atol"
        case["atol"] = st["atol"]
        judge_close(cap, unyt, fn, "kw", a, b, "arr", "arr", ra, rb, ua, ub, "zero", 0.0, 0.0, "qty", at_obj, [float(st["atol"][1]) * au.a],
                    forced, spec["fam"], case)
    else:
        judge_close(cap, unyt, fn, "kw", a, b, "arr", "arr", ra, rb, ua, ub, "default", None, 1e-5 if npf else 1e-7, "default", None,
                    [1e-8 * ua.a, 1e-8 * ub.a] if npf else [0.0], forced, spec["fam"], case)


def hist_cold(unyt):
    """handler of the cold process: build the one history, make the one call, report what the judge said"""
    def handler(req):
        cap = HM.CapRec()
        H = hist_build(unyt, req["spec"], only=req["step"])
        hist_step(unyt, H, req["spec"], req["step"], cap)
        return cap.wire()
    return handler


def hist_cellx(spec, i):
    st = spec["steps"][i]
    if spec["kind"] == "deco":
        stated = st.get("stated", spec["stated"])
        pos = "revisit" if st.get("revisit") else ("first", "second", "again")[min(i // 2, 2)]
        return ("history", spec["scenario"], "stated-is-" + ("this" if stated == st["role"] else "other") + "-definition",
                spec["order"], st.get("sharing", spec["sharing"]), pos)
    return ("history", spec["scenario"], spec["order"], st["profile"])


def hist_coarse(key):
    """C19:accepts:<template/form>:<kind>:... / C19:returns:<template>:<kind>:... -> C19:<decorator>:<kind>;
    C19:<helper>:<kind>:... -> C19:<helper>:<kind>"""
    p = key.split(":")
    if len(p) > 3 and p[1] in ("accepts", "returns"):
        return ":".join([p[0], p[1], p[3]])
    return ":".join(p[:3])


def run_histories(rec, unyt, srv, specs, fresh_every=1, on_demand=150):
    """all steps in order in this process (whose earlier steps are the history); every fresh_every-th step, and every step the
    reference judges wrong (up to on_demand of them), also alone in a cold process"""
    Hs = {}
    n = 0
    for hi, spec in enumerate(specs):
        rec.reach("history-scenario:" + spec["kind"] + "/" + spec["scenario"])
        for i in range(len(spec["steps"])):
            n += 1
            cap = HM.CapRec()
            if hi not in Hs:
                Hs[hi] = hist_build(unyt, spec)
            hist_step(unyt, Hs[hi], spec, i, cap)
            sampled = (n + hi) % fresh_every == 0
            if not sampled and on_demand > 0 and any(e[0] == "violation" for e in cap.events):
                sampled = True
                on_demand -= 1
            fresh = HM.NOT_SAMPLED
            if sampled:
                fresh = srv.call({"spec": spec, "step": i})
                if fresh is None:
                    rec.note("history:cold-process-failed:" + str(getattr(srv, "last_error", "timeout"))[:80])
            v = HM.merge(rec, cap.events, fresh, ":history/" + spec["scenario"], hist_cellx(spec, i),
                         {"history": {k: spec[k] for k in ("sym", "scenario", "roles", "variants", "order")}, "step": spec["steps"][i], "step-index": i},
                         coarse=hist_coarse)
            if v == "unjudged":
                rec.count("history:steps-not-judged")
        Hs.pop(hi, None)


# ------------------------------------------------------------------------------------------------ batches / worker
def wrong_pool_for(unyt, rec, fam, r):
    d = ALLV[fam]
    vecs = SP.near_misses(d)[:2] + [dims.ZERO if d != dims.ZERO else ALLV["length"]]
    if fam in ("frequency", "rate"):
        vecs.append(ALLV["angular_frequency"])
    out = []
    for v in vecs:
        out += build_pool(unyt, rec, v, 2, r, need_exact=True)
    return out


def batches(tier, seed):
    fams = list(fam_vectors(tier))
    quick = tier == "quick"
    b = []
    for f in fams:
        b.append((f"close-matrix/{f}", ("matrix", [f], 0, 5 if quick else 8)))
    seeds = [seed] if quick else [seed, seed + 101, seed + 202]
    for sd in seeds:
        for i, c in enumerate(chunks(fams, 12 if quick else 28)):
            b.append((f"close-random/s{sd}/{i}", ("random", c, sd, (25, 3, 7) if quick else (80, 4, 12))))
        for i, c in enumerate(chunks(fams, 6 if quick else 12)):
            b.append((f"equal/s{sd}/{i}", ("equal", c, sd, (5, 40) if quick else (7, 150))))
        dn = sorted(ALLV)
        for i, c in enumerate(chunks(dn, 10 if quick else 20)):
            b.append((f"deco/s{sd}/{i}", ("deco", c, sd, (5, 5) if quick else (12, 10))))
    # histories: one symbol with several definitions (user registries, registry edits), each call also alone in a cold process
    for sd in ([seed] if quick else [seed, seed + 101]):
        for i, c in enumerate(chunks(sorted(ALLV), 8 if quick else 16)):
            b.append((f"hist-deco/s{sd}/{i}", ("hist-deco", c, sd, 0 if quick else 1)))
        for i, c in enumerate(chunks(fams, 4 if quick else 12)):
            b.append((f"hist-close/s{sd}/{i}", ("hist-close", c, sd, 0 if quick else 1)))
    # operand shape asymmetry: enumerated per family (seed-independent) and drawn
    # (the thorough tier is three times the quick one here: the mechanism does not depend on the unit family)
    sfams = SHAPE_QUICK_FAMS if quick else SHAPE_QUICK_FAMS + SHAPE_MORE_FAMS
    for f in sfams:
        for k in range(2 if quick else 3):      # one batch per ordered unit pair: (u0,u1), (u1,u0), (u0,u2)
            b.append((f"shape/{f}/{k}", ("shape", [f], 0, (2 if quick else 4, k))))
    for sd in seeds:
        for i, c in enumerate(chunks([f for f in QUICK_FAMS if f != "temperature"], 4)):
            b.append((f"shape-random/s{sd}/{i}", ("shape-random", c, sd, 12)))
    b.append(("catalogue", ("catalogue", [], 0, None)))
    return b


def module_dimension_names(unyt):
    import sympy
    D = unyt.dimensions
    return sorted(k for k, v in vars(D).items() if not k.startswith("_") and isinstance(v, sympy.Basic) and k not in ("k", "v"))


def worker(batch, rec):
    import unyt
    import unyt.testing
    bid, (part, items, seed, size) = batch
    r = core.rng(seed, bid)
    import time as _time
    t0 = _time.process_time()
    try:
        _worker(unyt, rec, bid, part, items, seed, size, r)
    finally:
        rec.count("batch-cpu-ms", int(1000 * (_time.process_time() - t0)))


def symbol_is_free(unyt, sym):
    """a history symbol must mean nothing in the default registry (neither for the reference resolver nor for unyt)"""
    from vf.ref import names
    if names.resolve(sym) is not None:
        return False
    try:
        unyt.Unit(sym)
    except Exception:
        return True
    return False


def _worker(unyt, rec, bid, part, items, seed, size, r):
    if part in ("hist-deco", "hist-close"):
        from vf.monitors.c12_coldserver import ColdServer
        import unyt._array_functions              # an import, not workload: every process that calls np.* on a quantity has it
        SP.evaluate("km/s", "atomic")             # warm the REFERENCE side (vf.ref tables), which is not under judgement
        srv = ColdServer(hist_cold(unyt))         # before any workload: the server keeps the import-time state of unyt
        try:
            wide = bool(size)
            k0 = r.randrange(1000)
            if part == "hist-deco":
                tforms = {t: sorted(fs) for t, (_, fs) in templates([]).items()}
                specs = HG.deco_histories(r, items, ALLV, tforms, RET_TEMPLATES, ARG_FORMS, k0, wide)
            else:
                pools = {}
                for fam in items:
                    pr = core.rng(seed, "hist-pool", fam)
                    pool = build_pool(unyt, rec, ALLV[fam], 4, pr, need_exact=True, allow_offset=False)
                    if pool:
                        pools[fam] = [[u.s, u.a, u.cls] for u in pool]
                        rec.reach("history-family:" + fam)
                    else:
                        rec.note(f"history-family-skipped:{fam}")
                specs = HG.close_histories(r, items, ALLV, pools, CLOSE_FNS, EQ_FNS, k0, wide)
            free = {}
            keep = []
            for sp in specs:
                if sp["sym"] not in free:
                    free[sp["sym"]] = symbol_is_free(unyt, sp["sym"])
                if free[sp["sym"]]:
                    keep.append(sp)
                else:
                    rec.count("history:symbol-clashes-with-default-registry")
            rec.count("history:histories", len(keep))
            for sp in keep[:2]:
                rec.sample({"history": {k: sp[k] for k in ("kind", "sym", "scenario", "roles", "variants", "order")}, "steps": len(sp["steps"]), "first-steps": sp["steps"][:3]})
            run_histories(rec, unyt, srv, keep, fresh_every=2 if not wide else 4)
        finally:
            rec.count("history:cold-calls", srv.calls)
            rec.count("history:cold-failed", srv.failed)
            srv.close()
        return
    if part == "catalogue":
        D = unyt.dimensions
        for name in module_dimension_names(unyt):
            if name not in DT.VEC:
                rec.note("dimension-name-without-reference:" + name)
                continue
            got = dims.of_expr(getattr(D, name))
            if got != DT.VEC[name]:
                rec.violation(f"C19:dimension-catalogue:{name}", f"unyt.dimensions.{name} = {getattr(D, name)} but the physical dimension is {dims.show(DT.VEC[name])}", {"name": name})
            else:
                rec.ok(("catalogue", name))
        listed = [dims.of_expr(x) for x in D.dimensions]
        rec.count("catalogue:listed-dimensions", len(listed))
        return
    if part in ("matrix", "random", "equal"):
        for fam in items:
            n = size if part == "matrix" else size[2] if part == "random" else size[0]
            pr = core.rng(0 if part != "random" else seed, "pool", fam, part)
            pool = build_pool(unyt, rec, ALLV[fam], n, pr, need_exact=True, allow_offset=(fam == "temperature"))
            wrong = wrong_pool_for(unyt, rec, fam, pr)
            if len(pool) < 2 or not wrong:
                rec.note(f"family-skipped:{fam}")
                continue
            rec.reach("family:" + fam)
            for u in pool:
                rec.reach("spelling-class:" + u.cls)
            if part == "matrix":
                matrix_close(rec, unyt, r, fam, pool, wrong, CLOSE_FNS)
                rec.sample({"matrix-family": fam, "pool": [u.s for u in pool], "configs": len(MATRIX_CFG) + 3})
            elif part == "random":
                random_close(rec, unyt, r, fam, pool, wrong, size[0], size[1], CLOSE_FNS)
                # operands of different dimension
                for _ in range(max(6, size[0] // 3)):
                    ua, w = r.choice(pool), r.choice(wrong)
                    shape = r.choice([(), (3,), (2, 2)])
                    n_ = int(np.prod(shape)) if shape else 1
                    rd = np.array([r.choice([0.0, 1.0, -2.5, 10 ** r.uniform(-2, 3)]) for _ in range(n_)]).reshape(shape)
                    ka = pick_kinds(r, fam, shape, ua, False, False)
                    kb = pick_kinds(r, fam, shape, w, False, False)
                    ub = w
                    if r.random() < 0.25 and ALLV[fam] != dims.ZERO:
                        ub, kb = SP.BARE, r.choice(["list", "bare"])
                    if r.random() < 0.5:
                        ua, ub, ka, kb = ub, ua, kb, ka
                    run_incommensurable(rec, unyt, r, fam, ua, "other", ub, ka, kb, rd, r.choice(["default", "loose-bare", "loose-qty"]),
                                        r.choice(pool), CLOSE_FNS)
                rec.sample({"random-family": fam, "pool": [u.s for u in pool][:6]})
            else:
                equal_cases(rec, unyt, r, fam, pool, wrong, size[1], EQ_FNS)
                rec.sample({"equal-family": fam, "pool": [u.s for u in pool][:6]})
        return
    if part in ("shape", "shape-random"):
        for fam in items:
            pr = core.rng(0 if part == "shape" else seed, "pool", fam, part)
            pool = build_pool(unyt, rec, ALLV[fam], 4 if part == "shape" else 6, pr, need_exact=True, allow_offset=False)
            wrong = [w for w in wrong_pool_for(unyt, rec, fam, pr) if w.s is not None]
            if len(pool) < 2 or not wrong:
                rec.note(f"shape-family-skipped:{fam}")
                continue
            for u in pool:
                rec.reach("spelling-class:" + u.cls)
            if part == "shape":
                shape_matrix(rec, unyt, r, fam, pool, wrong, size[0], size[1])
            else:
                shape_random(rec, unyt, r, fam, pool, wrong, size)
        return
    if part == "deco":
        n_ok, n_bad = size
        T = templates([])
        tforms = [(t, f) for t, (_, fs) in T.items() for f in fs]
        names_all = sorted(ALLV)
        ti = r.randrange(len(tforms))
        ri = r.randrange(len(RET_TEMPLATES))
        for name in items:
            d = ALLV[name]
            how_opts = ["attr", "attr", "composite"] if hasattr(unyt.dimensions, name) else ["composite"]
            pr = core.rng(seed, "deco-pool", name)
            ok_pool = build_pool(unyt, rec, d, n_ok, pr, need_exact=False, allow_offset=True)
            bad_pool = []
            for v in SP.near_misses(d):
                bad_pool += build_pool(unyt, rec, v, 1, pr, need_exact=False, allow_offset=True)
                if len(bad_pool) >= n_bad:
                    break
            for _ in range(2):
                other = ALLV[r.choice(names_all)]
                if other != d:
                    bad_pool += build_pool(unyt, rec, other, 1, pr, need_exact=False, allow_offset=True)
            if d != dims.ZERO:
                bad_pool.append(SP.BARE)
            else:
                ok_pool.append(SP.BARE)
            if not ok_pool or not bad_pool:
                rec.note("dimension-skipped:" + name)
                continue
            rec.reach("dim:" + name)
            # partner parameter
            pname = r.choice(names_all)
            p_ok = build_pool(unyt, rec, ALLV[pname], 3, pr, need_exact=False, allow_offset=True) or [None]
            p_bad = build_pool(unyt, rec, SP.near_misses(ALLV[pname])[r.randrange(3)], 2, pr, need_exact=False, allow_offset=True)
            if p_ok[0] is None or not p_bad:
                pname, p_ok, p_bad = name, ok_pool, bad_pool
            plan = [(u, True) for u in ok_pool] + [(u, False) for u in bad_pool]
            for (u, good) in plan:
                for rep in range(2):
                    tname, form = tforms[ti % len(tforms)]; ti += 1
                    how = r.choice(how_opts)
                    fa = r.choice(ARG_FORMS)
                    x = (make_arg(unyt, r, u, fa), u, fa if u.s else "bare")
                    pu = r.choice(p_ok) if (rep == 0 or r.random() < 0.6) else r.choice(p_bad)
                    fb = r.choice(ARG_FORMS)
                    y = (make_arg(unyt, r, pu, fb), pu, fb if pu.s else "bare")
                    fill = make_arg(unyt, r, r.choice(p_bad), "qty")
                    phow = how if hasattr(unyt.dimensions, pname) or how == "composite" else "composite"
                    if r.random() < 0.5:
                        run_accepts(rec, unyt, r, tname, form, name, pname, phow, x, y, fill)
                    else:
                        run_accepts(rec, unyt, r, tname, form, pname, name, phow, y, x, fill)
                # returns
                rt = RET_TEMPLATES[ri % len(RET_TEMPLATES)]; ri += 1
                fa = r.choice(ARG_FORMS)
                items_ = [(name, (make_arg(unyt, r, u, fa), u, fa if u.s else "bare"))]
                for extra_i in range(2):
                    pu = r.choice(p_ok) if r.random() < 0.7 else r.choice(p_bad)
                    fb = r.choice(ARG_FORMS)
                    items_.append((pname, (make_arg(unyt, r, pu, fb), pu, fb if pu.s else "bare")))
                if rt == "tuple2":
                    items_ = items_[:2]
                    if r.random() < 0.5:
                        items_ = items_[::-1]
                how = r.choice(how_opts) if hasattr(unyt.dimensions, pname) else "composite"
                run_returns(rec, unyt, r, rt, how, items_)
            rec.sample({"dimension": name, "accepted-spellings": [u.s for u in ok_pool][:6], "refused-spellings": [u.s for u in bad_pool][:6]})
        return
    raise ValueError(part)


SUBS = [f"sub:{fn}:{e}-expected" for fn in CLOSE_FNS + EQ_FNS + ("accepts", "returns") for e in ("accept", "refuse")]
SUBS += [f"sub:history:{fn}:{e}-expected" for fn in CLOSE_FNS + EQ_FNS + ("accepts", "returns") for e in ("accept", "refuse")]
SUBS += ["sub:history:fresh-compared"]
# operand shape asymmetry: SI verdicts per helper, the broadcast law per helper (and on values between the two readings of a
# bare/default atol, where only the law can speak), and every size relation of the two operands
SUBS_SHAPE = [f"sub:shape:{fn}:{e}-expected" for fn in CLOSE_FNS + EQ_FNS for e in ("accept", "refuse")]
SUBS_SHAPE += [f"sub:shape-law:{fn}" for fn in CLOSE_FNS + ("np.array_equiv",)] + ["sub:shape-law:between-readings"]
SUBS_SHAPE += [f"sub:shape-rel:{rel}" for rel in ("first-smaller", "second-smaller", "same-size", "same-shape")]


def extra(tier, seed, results):
    import unyt
    counters, reached = {}, set()
    for bid, res in results:
        for k, v in res.get("counters", {}).items():
            counters[k] = counters.get(k, 0) + v
        reached.update(res.get("reached", []))
    subs = {}
    for k in SUBS:
        k2 = k.replace("accepts:accept", "accepts:pass").replace("returns:accept", "returns:pass")
        subs[k2] = counters.get(k2, 0)
    for k in SUBS_SHAPE:
        subs[k] = counters.get(k, 0)
    names = module_dimension_names(unyt)
    unreached = [n for n in names if "dim:" + n not in reached]
    fams = [f for f in fam_vectors(tier) if "family:" + f not in reached]
    cat = [f"accepts:{t}/{f}" for t, (_, fs) in templates([]).items() for f in fs] + ["returns:" + t for t in RET_TEMPLATES]
    cat += ["spelling-class:" + c for c in ("atomic", "prefixed", "alias", "alias-prefixed", "base-si", "base-cgs", "base-imp", "base-pow",
                                            "base-sqrt", "base-mix", "named-compound", "ratio", "offset:atomic")]
    cat += [f"history-scenario:{k}/{sc}" for k in ("deco", "close") for sc in HG.SCENARIOS]
    cat += [f"shape-pair:{sa}/{sb}" for sa, sb in SG.SHAPE_PAIRS] + ["shape-tolerances:" + c[0] for c in SG.TOL_CFGS]
    call_forms = [c for c in cat if c not in reached]
    ok_batches = sum(1 for _, res in results if res.get("status") == "ok")
    zero = [k for k, v in subs.items() if v == 0]
    if zero and ok_batches:
        raise core.Inconclusive("sub-monitors-never-evaluated:" + ",".join(zero))
    cpu = sorted(((res.get("counters", {}).get("batch-cpu-ms", 0), bid) for bid, res in results), reverse=True)
    return {"batch_cpu_seconds": {"total": round(sum(c for c, _ in cpu) / 1000, 1), "slowest": [[b, round(c / 1000, 1)] for c, b in cpu[:4]]},
            "sub_monitor_evaluations": subs, "unreached": {"dimension-names": unreached, "families": fams, "call-forms-and-spelling-classes": call_forms},
            "helper_calls": {k[6:]: v for k, v in counters.items() if k.startswith("calls:")},
            "histories": {k[8:]: v for k, v in counters.items() if k.startswith("history:")},
            "shape_asymmetry": {k: v for k, v in counters.items() if k.startswith(("sub:shape", "calls:shape"))},
            "discarded": {k: v for k, v in counters.items() if k.startswith("discarded") or k.startswith("pool-dropped")}}
