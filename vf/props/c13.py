"""C13 - registries are isolated from each other and the default registry is read-only.

History monitor: random interleavings of operations over 2-3 custom registries of many provenances plus the default
registry; after every step every registry (and the process-global default tables, the unyt namespace, built-in
conversions and the built-in unit systems) is observed again and compared with its observation before the step.
"""
import copy, os, pickle
import numpy as np
from vf import core
from vf.monitors import c13_watch as W
from vf.monitors import c13_kinds as K
from vf.monitors import c13_siblings as SIB

RULE = ("one evaluation = one (step, observed object) pair of a history: after a step addressed to registry i (or to nobody: reads, "
        "round trips, mixed-registry arithmetic, refused edits) the observation of another object - a custom registry's raw table "
        "(entry by entry, SI-prefixed entries derived by lookups recognised with an independent prefix table) and its resolution of a "
        "probe set of unit strings (scale, dimensions, offset, registry the unit is bound to); default_unit_symbol_lut (D1); the default "
        "registry's table+resolution (D2); the units/constants exported by the unyt namespace (D3: binding, scale, dims, offset, registry); "
        "60 built-in conversions bit for bit (D4); the built-in unit systems (D5) - must equal its observation before the step; plus: "
        "result registry of binary operations is the left operand's, modify/remove through every handle on the default registry raise, "
        "a freshly created independent registry shares no table object with any other (also: the registries of several objects restored together from one "
        "pickle / one deepcopy / the same bytes or JSON text are one registry object or share nothing, and an edit through one leaves the others "
        "unchanged), units resolved through a registry are bound to it, "
        "an edit that changed a registry's table renewed its unit_system_id (the hash that separates registries in the shared memo tables), "
        "namespaces made by add_symbols/add_constants are bound to the given registry, at the end the default registry resolves the full probe "
        "set like a cold twin built from its table (custom registries: noted). Unit-kind matrix (vf/monitors/c13_kinds.py): at one or more points of every history and at "
        "its end, for an ordered pair of distinct registries, operands of every unit kind (bare dimensionless, bare quotient x/y, symbol `dimensionless`, scaled "
        "dimensionless, base, atomic, prefixed, compound, user symbol, user compound, edited built-in, angle, offset, logarithmic) in BOTH positions of "
        "sampled operation forms (operator, np.ufunc, reflected dunder, in-place, out= left/right/fresh/ndarray, matmul, Unit*Unit, Unit/Unit, commensurable "
        "add/subtract/extremum, comparisons): result registry is the left operand's, and converting the result to a unit string made of a symbol the two "
        "registries resolve differently gives what the left registry itself resolves. "
        "distinct = (step kind, observed object class/provenance, relation to the addressed registry) and (family, left kind, right kind)")
ASSUMPTIONS = (
    "the oracle is a snapshot contract over time (observation before == observation after for everything a step was not addressed to); no "
    "reference values are needed; the SI prefix factors used to recognise lookup-derived entries come from vf/ref/defs.py",
    "SI-prefixed entries that a lookup derives from a prefixable entry and writes back into the registry's own table (also the default "
    "registry's) do not change what the registry resolves: noted, not judged (DESIGN C13 B)",
    "a registry obtained by Unit.copy() (deep=False) or copy.copy(registry) deliberately shares its table with the source: it is treated "
    "as an alias of the source registry (same addressed group), not as an independently created registry (DESIGN 4.6 analogue)",
    "a dict the caller passes as lut= and shares between registries is the caller's aliasing; the harness gives every registry its own dict",
    "modify/remove must raise on the default registry object and on every shallow alias of it; on deep copies of the default registry "
    "(copy.deepcopy, Unit.copy(deep=True)) the statement only requires that the default registry is unaffected: refusal there is noted",
    "add/define_unit on the default registry is the one legitimate writer: such steps re-baseline D2/D3 (new names only) and still "
    "require D4, D5 and all custom registries unchanged; D1 is not judged on these steps",
    "'use the left operand's registry' is judged for binary ufuncs (operators and np.<ufunc> forms), Unit*Unit and Unit/Unit (the anchored "
    "code); array.to(Unit object of another registry) returns data labelled with the very unit object that was requested, and array "
    "functions (concatenate, dot, ...) have no 'left operand' in the statement: their result registry is noted only, no-write is judged",
    "a unit living in a shallow alias of registry R (same table object: Unit.copy(), get_base_equivalent of a base unit, in_base of "
    "data already in base units) counts as living in R",
    "lazy caching of derived dimensions in a built-in UnitSystem.units_map is not a change of the unit system (base units and existing "
    "entries are compared); UnitSystem creation uses unique names, new names in unit_system_registry are allowed only on such steps",
    "what a read through custom registry R does to R itself (e.g. copying a unit built before an edit re-inserts its old value into R's "
    "string cache) and whether R resolves like a cold twin built from its table are same-registry history questions (C12): noted as "
    "not-judged:*, never a C13 verdict; for the default registry both are judged (it must be the same before and after)",
    "an exported unit whose .registry is a shallow alias of the default registry (same table object, same class) counts as unchanged",
    "exceptions raised by a step (unknown symbol, refused operation) are recorded as notes; a failed call must leave everything it was "
    "not addressed to unchanged just the same",
    "unit-kind matrix: out= is a target, not an operand - with out= being a copy of the right operand or a buffer of any registry the result "
    "still has to live in the left operand's registry; products/quotients of a Unit object and data (Unit*quantity, quantity/Unit, ...) have "
    "one label and one data operand: their result registry is noted (label-form-result-registry:*), not judged; comparisons return plain "
    "booleans: only the no-write part applies to them",
    "sibling registries: objects of one registry restored by ONE call (one pickle of a container, one deepcopy of a list) may come back bound to "
    "one registry object (they shared one before: noted); restorations by SEPARATE calls (same bytes or JSON text loaded twice, deep copies "
    "taken one after the other) are independent creations: one registry object handed out twice, or distinct objects sharing a table or "
    "string cache, is a violation (same reading as for a single creation against the live registries)",
    "unit-kind matrix, behavioural oracle: the expectation for result.to_value(T) is result_value * result_unit.base_value / (scale the LEFT "
    "registry itself resolves T to now); it is evaluated only where the left registry resolves T without offset and the right registry "
    "resolves T differently or not at all (otherwise nothing distinguishes the two registries: counted as skipped)",
)
MIN_EVALS = 5000
TIMEOUT = 1500

ATOM = ["m", "g", "s", "K", "rad", "A", "cd", "Msun", "erg", "eV", "mile", "degC", "dyne", "pc", "yr", "J", "N", "Hz", "G", "T", "lb", "degF"]
PREF = ["km", "mg", "us", "kK", "mrad", "kA", "kpc", "keV", "MJ", "GHz", "cm", "nm", "Mpc", "uG", "kg"]
COMP = ["g/cm**3", "kg*m/s**2", "Msun/yr", "km/s", "erg/s/cm**2", "J/K", "N*m", "sqrt(m)", "1/s", "mile/hr", "m**2", "cm**-3", "Msun/pc**3"]
CUST = ["zub", "kzub", "mzub", "zub*s", "zub**2", "1/zub", "quux", "quux/s", "kquux", "code_length", "kcode_length",
        "code_mass/code_length**3", "code_length/code_time", "code_mass", "code_time", "zub*m", "Mcode_mass"]
BASE_PROBES = ATOM + PREF + COMP + CUST
CUSTOM_SYMS = [("zub", True), ("quux", False), ("code_length", True), ("code_mass", True), ("code_time", False)]
BUILTIN_EDIT = ["m", "cm", "g", "Msun", "erg", "s", "K", "km", "pc", "J", "eV", "kg"]
VALUES = [0.25, 2.0, 3.5, 1000.0, 4096.0, 1.0e-3, 7.0e10]
CONV = [(1.0, "km", "mile"), (1.0, "mile", "km"), (1.0, "hr", "s"), (1.0, "lb", "kg"), (1.0, "erg", "J"), (1.0, "eV", "J"), (1.0, "pc", "m"),
        (1.0, "Msun", "g"), (1.0, "yr", "day"), (1.0, "atm", "Pa"), (1.0, "psi", "Pa"), (1.0, "cal", "J"), (1.0, "inch", "cm"), (1.0, "ft", "m"),
        (1.0, "AU", "km"), (1.0, "ly", "pc"), (1.0, "G", "T"), (1.0, "degree", "rad"), (100.0, "degC", "K"), (212.0, "degF", "degC"),
        (1.0, "kWh", "J"), (1.0, "hp", "W"), (1.0, "dyne", "N"), (1.0, "bar", "Pa"), (1.0, "km/hr", "m/s"), (1.0, "g/cm**3", "kg/m**3"),
        (1.0, "Msun/yr", "g/s"), (1.0, "mile/hr", "km/s"), (1.0, "J/K", "erg/K"), (1.0, "N*m", "erg"), (1.0, "kpc", "ly"), (1.0, "nm", "angstrom"),
        (1.0, "Mpc", "km"), (1.0, "GHz", "1/s"), (1.0, "keV", "erg"), (1.0, "mg", "lb"), (1.0, "us", "hr"), (1.0, "amu", "g"), (1.0, "me", "kg"),
        (1.0, "oz", "g"), (1.0, "BTU", "J"), (1.0, "kt", "m/s"), (1.0, "nmi", "m"), (1.0, "arcsec", "rad"), (1.0, "C", "statC"), (1.0, "T", "G")]
BASES = ["km", "erg", "Msun/yr", "N", "J/K", "mile/hr", "kg*m**2/s**3", "lb*ft"]
USYS = ["cgs", "imperial", "galactic", "solar", "planck", "geometrized", "mks"]

PROVS = [("defaults", 5), ("empty", 1), ("lut+defaults", 2), ("lut-only", 2), ("unit_system", 2), ("from_json", 2), ("pickle-array", 2),
         ("pickle-quantity", 1), ("pickle-unit", 1), ("pickle-registry", 1), ("deepcopy-registry", 2), ("deepcopy-unit", 1), ("deepcopy-array", 1),
         ("Unit.copy-deep", 2), ("Unit.copy-shallow", 1), ("copy.copy-registry", 1)]
ALIAS_PROVS = ("Unit.copy-shallow", "copy.copy-registry")
COPY_PROVS = ("deepcopy-registry", "deepcopy-unit", "deepcopy-array", "Unit.copy-deep") + ALIAS_PROVS
NEEDS_SRC = [p for p, _ in PROVS if p not in ("defaults", "empty", "lut+defaults", "unit_system")]

STEPS = [
    ("create", 5),
    ("edit/add-new", 8), ("edit/add-existing", 4), ("edit/add-over-builtin", 4), ("edit/modify-float", 8), ("edit/modify-quantity", 4),
    ("edit/remove", 6), ("edit/define_unit", 5),
    ("read/Unit", 8), ("read/contains-getitem", 3), ("read/introspect", 2), ("read/array-create", 6), ("read/array-create-unitobj", 3),
    ("read/array-create-bypass", 3), ("read/convert", 8), ("read/convert-base", 5), ("read/convert-inplace", 3), ("read/arith", 8),
    ("read/unit-arith", 4), ("read/latex-simplify", 2), ("read/json-roundtrip", 2), ("read/pickle-roundtrip", 3), ("read/deepcopy-object", 2),
    ("read/add_symbols", 1), ("read/add_constants", 1), ("read/UnitSystem-create", 3),
    ("mixed/binary-ufunc", 10), ("mixed/unit-op", 5), ("mixed/to-foreign-unit", 4), ("mixed/array-function", 3), ("mixed/create-with-foreign-unit", 3),
    ("mixed/modify-with-foreign-quantity", 2),
    ("default/modify-refused", 4), ("default/remove-refused", 4), ("default/define_unit", 1), ("default/add", 1),
]
KINDS = [k for k, _ in STEPS if k != "create"] + ["create/" + p for p, _ in PROVS] + ["final/bound", "final/twin", "mixed/kind-matrix"] + ["create-siblings/" + x for x in SIB.ROUTES]
SUBMONITORS = ["mon:foreign-registry-unchanged", "mon:D1-default_unit_symbol_lut", "mon:D2-default-registry", "mon:D3-namespace",
               "mon:D4-conversions", "mon:D5-unit-systems", "mon:result-registry-left", "mon:default-refusal", "mon:create-no-shared-table",
               "mon:resolved-unit-bound", "mon:namespace-bound", "mon:final-twin", "mon:recorder-armed", "mon:content-id-renewed",
               "mon:kind-result-registry-left", "mon:kind-result-resolves-left-symbol", "mon:siblings-no-shared-table", "mon:siblings-edit-isolated"]
# unit-kind matrix: every kind must have been judged in both operand positions, every family at least once, and the bare kinds in the
# left position of the multiplicative families and of Unit*Unit (a run that stops reaching them is INCONCLUSIVE, not held)
KIND_COUNTERS = (["kind:left:" + k for k in K.KINDS] + ["kind:right:" + k for k in K.KINDS] + ["kind:family:" + f for f in K.FAMILIES]
                 + ["kind:bare-left:" + f for f in ("multiply", "divide", "add-like", "subtract", "unit-mul", "unit-div")]
                 + ["kind:mixed-with-default-registry:left", "kind:mixed-with-default-registry:right", "kind:custom-custom"])


def batches(tier, seed):
    if tier == "quick":
        nb, per, steps = 32, 12, 30
    else:
        nb, per, steps = 96, 40, 60
    return [("hist/%d" % i, {"seed": seed, "n": per, "steps": steps, "tier": tier}) for i in range(nb)]


def wchoice(r, pairs):
    tot = sum(w for _, w in pairs)
    x = r.random() * tot
    for k, w in pairs:
        x -= w
        if x <= 0:
            return k
    return pairs[-1][0]


class Slot:
    __slots__ = ("idx", "reg", "prov", "src", "alias", "nonmod", "pool", "tab", "res", "custom", "is_default")

    def __init__(self, idx, reg, prov, src=None, alias=None, nonmod=False):
        self.idx, self.reg, self.prov, self.src, self.alias, self.nonmod = idx, reg, prov, src, alias, nonmod
        self.pool = []
        self.tab = None
        self.res = None
        self.custom = set()
        self.is_default = False


class Child:
    """state that lives as long as the forked child: the default registry pseudo-slot and its digests"""

    def __init__(self, unyt, rec):
        self.unyt, self.rec = unyt, rec
        from unyt.unit_registry import default_unit_registry
        import unyt.unit_systems as us
        self.us = us
        self.dreg_lut, self.symlut, n, aliased = W.install_default_recorders(unyt)
        rec.count("recorder:module-attributes-rebound", n)
        if aliased:
            rec.violation("C13:import:default-registry-table-is-default_unit_symbol_lut",
                          "default_unit_registry.lut is the very dict default_unit_symbol_lut: every registry created with defaults "
                          "copies from a table the default registry writes into", None)
        self.D = Slot("D", default_unit_registry, "default")
        self.D.is_default = True
        self.D.nonmod = True
        self.d1 = dict(self.symlut)
        self.pristine_sym = dict(self.symlut)
        self.ns = W.namespace_snapshot(unyt)
        self.ns_allowed = set()
        self.conv = self.conversions()
        self.usys = self.usys_snapshot()
        self.usys_allowed = set()
        self.n_unique = 0
        self.dim = unyt.dimensions

    def unique(self, stem):
        self.n_unique += 1
        return "%s%d_%d" % (stem, os.getpid() % 100000, self.n_unique)

    def conv_jobs(self):
        jobs = [("to", c) for c in CONV]
        for s in BASES:
            for how in ("cgs", "mks", "imperial", "galactic", None):
                jobs.append(("base", (s, how)))
        jobs.append(("const", None))
        return jobs

    def conv_one(self, job):
        U = self.unyt
        what, arg = job
        try:
            if what == "to":
                v, a, b = arg
                q = U.unyt_quantity(v, a).to(b)
                return (float(q.d), q.units.base_value)
            if what == "base":
                s, how = arg
                q = U.unyt_quantity(1.0, s)
                q = q.in_cgs() if how == "cgs" else q.in_mks() if how == "mks" else q.in_base(how) if how else q.in_base()
                return (float(q.d), str(q.units.expr))
            return (float(U.speed_of_light.to("km/s").d), float(U.boltzmann_constant.in_cgs().d), float((1.0 * U.km / U.s).to("mile/hr").d))
        except Exception as e:
            return ("EXC", type(e).__name__)

    def conversions(self, idx=None):
        """all (idx None) or the listed built-in conversions on the default registry"""
        if not hasattr(self, "jobs"):
            self.jobs = self.conv_jobs()
            # cheap subset evaluated after every step; the full list every 16th step and at the end of every history
            self.core_idx = list(range(0, len(CONV), 6)) + [len(CONV) + k for k in (0, 12, 24, 31)] + [len(self.jobs) - 1]
        if idx is None:
            idx = range(len(self.jobs))
        return {i: self.conv_one(self.jobs[i]) for i in idx}

    def conv_name(self, i):
        what, arg = self.jobs[i]
        return "%g %s -> %s" % arg if what == "to" else "1 %s in base system %s" % arg if what == "base" else "constants"

    def usys_snapshot(self):
        reg = self.us.unit_system_registry
        return {name: (s, dict(s.base_units), dict(s.units_map), s.registry) for name, s in reg.items()}

    def usys_diff(self):
        reg = self.us.unit_system_registry
        out = []
        for name, (s, bu, um, r) in self.usys.items():
            cur = reg.get(name)
            if cur is not s:
                out.append(("rebound" if cur is not None else "deleted", name))
                continue
            if dict(s.base_units) != bu:
                out.append(("base-units", name))
            if s.registry is not r:
                out.append(("registry", name))
            for k, v in um.items():
                if s.units_map.get(k) != v:
                    out.append(("units-map-entry", name))
                    break
        for name in reg:
            if name not in self.usys and name not in self.usys_allowed:
                out.append(("added", name))
        return out


def same_reg(a, b):
    """a is b, or a is a shallow alias sharing b's table object (Unit.copy(), copy.copy(registry))"""
    return a is b or getattr(a, "lut", 0) is getattr(b, "lut", 1)


def probe_class(s):
    if s in CUST or any(c in s for c in ("zub", "quux", "code_")):
        return "custom"
    if any(c in s for c in "*/( "):
        return "compound"
    return "prefixed" if s in PREF else "atomic"


class History:
    def __init__(self, child, r, hid, nsteps, tier):
        self.C, self.r, self.hid, self.nsteps, self.tier = child, r, hid, nsteps, tier
        self.unyt, self.rec = child.unyt, child.rec
        self.D = child.D
        self.slots = []
        self.orphans = []
        self.log = []
        self.observed = [s for s in BASE_PROBES if r.random() < 0.7]
        self.kind = "init"
        self.r2 = None          # own stream of the unit-kind matrix steps (set by the worker)

    # ------------------------------------------------------------ bookkeeping
    def everyone(self):
        return [s for s in self.slots if s is not None] + [self.D]

    def root(self, s):
        while s.alias is not None:
            s = self.D if s.alias == "D" else self.slots[s.alias]
        return s

    def group_regs(self, s):
        rt = self.root(s)
        return [x.reg for x in self.everyone() if self.root(x) is rt]

    def case(self, **kw):
        d = {"history": self.hid, "steps": self.log[-14:], "slots": [(s.idx, s.prov, s.src, s.alias) for s in self.slots if s is not None]}
        d.update(kw)
        return d

    def relation(self, victim, addressed, target):
        if victim is target or (target is not None and self.root(victim) is self.root(target)):
            return "target-of-read"      # the registry read through, or a shallow alias sharing its table and string cache
        for a in addressed:
            if a.src == victim.idx:
                return "source-of-addressed"
            if victim.src == a.idx:
                return "derived-from-addressed"
        return "other"

    def note_exc(self, e):
        self.rec.note("exc:%s:%s" % (self.kind, type(e).__name__))

    # ------------------------------------------------------------ observation
    def observe_res(self, s, probes):
        U = self.unyt
        return [W.resolve(U, s.reg, p) for p in probes]

    def check_bound(self, s, probes, res, kind):
        ok_regs = self.group_regs(s)
        self.rec.count("mon:resolved-unit-bound")
        for p, o in zip(probes, res):
            if o[0] != "EXC" and not any(same_reg(o[3], g) for g in ok_regs):
                other = self.whose(o[3])
                self.rec.violation("C13:%s:resolved-unit-bound-to-other-registry:%s:%s" % (kind, s.prov, other),
                                   "after step %s: Unit(%r, registry=R) for R = registry %s [%s] returns a unit whose .registry is %s, not R"
                                   % (kind, p, s.idx, s.prov, other), self.case(probe=p))
                # put every re-bound unit object back so that one defect is reported once, at the step that caused it
                for q, o2 in zip(probes, res):
                    if o2[0] != "EXC" and not any(same_reg(o2[3], g) for g in ok_regs):
                        try:
                            self.unyt.Unit(q, registry=s.reg).registry = s.reg
                        except Exception:
                            pass
                return False
        return True

    def whose(self, reg):
        for x in self.everyone():
            if x.reg is reg:
                return "default-registry" if x.is_default else "registry-of-provenance:" + x.prov
        for o in self.orphans:
            if getattr(getattr(o, "units", o), "registry", None) is reg:
                return "round-trip-copy"
        return "untracked-registry"

    def baseline(self, s):
        W.ENABLED[0] = False
        s.tab = dict(s.reg.lut)
        W.ENABLED[0] = True
        s.res = self.observe_res(s, self.observed)
        self.check_bound(s, self.observed, s.res, self.kind)
        s.tab = dict(s.reg.lut)   # the probes themselves may have derived prefixed entries

    def judge_table(self, s, label, old, cur, kind, rel):
        """compare a table with its snapshot; returns (ok, new snapshot)"""
        removed, changed, added = W.table_diff(old, cur)
        bad_added = [k for k in added if not W.is_derived(k, cur[k], cur)]
        if removed or changed or bad_added:
            what = "entry-changed" if changed else "entry-removed" if removed else "entry-added"
            k = (changed or removed or bad_added)[0]
            self.rec.violation("C13:%s:%s:%s:%s" % (kind, label, what, rel),
                               "step %s was not addressed to %s, yet its table %s: key %r was %r and is now %r"
                               % (kind, label, what, k, old.get(k, "<absent>"), cur.get(k, "<absent>")),
                               self.case(key=k, writes=[w for w in W.LOG[-6:]]))
            return False
        if added:
            self.rec.note("benign:lookup-derived-prefixed-entry-written:%s" % ("default" if label.startswith("D") else "custom"), len(added))
        return True

    def after_step(self, kind, addressed=(), target=None, default_writer=False):
        """compare every object the step was not addressed to with its previous observation"""
        rec = self.rec
        addr_roots = [self.root(a) for a in addressed]
        for s in self.everyone():
            if any(self.root(s) is a for a in addr_roots):
                self.baseline(s)
                continue
            rel = self.relation(s, addressed, target)
            label = "D2-default-registry" if s.is_default else "registry[%s]" % s.prov
            if rel == "target-of-read" and not self.root(s).is_default:
                # what a read does to the registry it goes through is C12's subject (same-registry history dependence),
                # not isolation between registries: observed and noted, never judged here
                self.own_read_effects(s)
                continue
            ok = self.judge_table(s, label, s.tab, s.reg.lut, kind, rel)
            res = self.observe_res(s, self.observed)
            if ok:
                for p, a, b in zip(self.observed, s.res, res):
                    if not W.res_equal(a, b):
                        rec.violation("C13:%s:%s:resolution-changed:%s:%s" % (kind, label, probe_class(p), rel),
                                      "step %s was not addressed to %s, yet its resolution of %r changed from %s to %s"
                                      % (kind, label, p, W.show_res(a), W.show_res(b)), self.case(probe=p))
                        ok = False
                        break
            if ok:
                ok = self.check_bound(s, self.observed, res, kind)
            rec.count("mon:D2-default-registry" if s.is_default else "mon:foreign-registry-unchanged")
            if ok:
                rec.ok((kind, "D2" if s.is_default else s.prov, rel))
                s.res = res
                W.ENABLED[0] = False
                s.tab = dict(s.reg.lut)
                W.ENABLED[0] = True
            else:
                self.baseline(s)
        self.after_step_defaults(kind, "D" in [a.idx for a in addr_roots] or default_writer)

    def own_read_effects(self, s):
        removed, changed, added = W.table_diff(s.tab, s.reg.lut)
        if removed or changed or [k for k in added if not W.is_derived(k, s.reg.lut[k], s.reg.lut)]:
            self.rec.note("not-judged:read-changed-own-table:" + self.kind)
        res = self.observe_res(s, self.observed)
        if any(not W.res_equal(a, b) for a, b in zip(s.res, res)):
            self.rec.note("not-judged:read-changed-own-resolution(C12):" + self.kind)
        self.check_bound(s, self.observed, res, self.kind)
        s.res = res
        W.ENABLED[0] = False
        s.tab = dict(s.reg.lut)
        W.ENABLED[0] = True

    def after_step_defaults(self, kind, default_writer, force_full=False):
        rec, C = self.rec, self.C
        # D1 default_unit_symbol_lut
        rec.count("mon:D1-default_unit_symbol_lut")
        if not default_writer:
            W.ENABLED[0] = False
            cur = dict(C.symlut)
            W.ENABLED[0] = True
            if self.judge_table(None, "D1-default_unit_symbol_lut", C.d1, cur, kind, "global"):
                rec.ok((kind, "D1", "global"))
            C.d1 = cur
        else:
            C.d1 = dict(C.symlut)
        # recorder channel: writes into the default tables during this step
        rec.count("mon:recorder-armed", int(self.C.unyt.unit_registry.default_unit_symbol_lut is C.symlut and type(C.symlut) is W.RecDict))
        for tag, op, key, who in W.drain():
            rec.count("recorder:writes-logged:" + ("custom-lut=" if tag.startswith("slot") else tag))
            if tag == "default_unit_symbol_lut":
                rec.violation("C13:%s:write-into-default_unit_symbol_lut:%s" % (kind, who),
                              "step %s: %s %r on default_unit_symbol_lut by %s" % (kind, op, key, who), self.case())
        # D3 namespace
        rec.count("mon:D3-namespace")
        diff = W.namespace_diff(self.unyt, C.ns, C.ns_allowed)
        if diff:
            what, name = diff[0]
            rec.violation("C13:%s:D3-namespace:%s" % (kind, what),
                          "step %s changed the unyt namespace: %s (%s)%s" % (kind, what, name, " and %d more" % (len(diff) - 1) if len(diff) > 1 else ""),
                          self.case(diff=diff[:5]))
            self.restore_namespace()
            C.ns = W.namespace_snapshot(self.unyt)
        else:
            rec.ok((kind, "D3", "global"))
            if default_writer:
                C.ns = W.namespace_snapshot(self.unyt)
        # D4 conversions (cheap subset every step, the whole list every 16th step and at the end of the history)
        rec.count("mon:D4-conversions")
        self.nstep = getattr(self, "nstep", 0) + 1
        full = force_full or self.nstep % 16 == 0
        conv = C.conversions(None if full else C.core_idx)
        bad = [i for i, v in conv.items() if v != C.conv[i]]
        if bad:
            i = bad[0]
            rec.violation("C13:%s:D4-builtin-conversion-changed" % (kind if i in C.core_idx or force_full else "some-step-of-the-last-16"),
                          "step %s changed a conversion between built-in units on the default registry: %s was %r and is now %r"
                          % (kind, C.conv_name(i), C.conv[i], conv[i]), self.case())
            C.conv = C.conversions()
        else:
            rec.ok((kind, "D4-full" if full else "D4", "global"))
        # D5 unit systems
        rec.count("mon:D5-unit-systems")
        d = C.usys_diff()
        if d:
            rec.violation("C13:%s:D5-unit-system:%s" % (kind, d[0][0]), "step %s changed the unit system table: %s %r" % (kind, d[0][0], d[0][1]), self.case())
            C.usys = C.usys_snapshot()
        else:
            rec.ok((kind, "D5", "global"))
            if len(self.C.us.unit_system_registry) != len(C.usys):
                C.usys = C.usys_snapshot()

    def restore_namespace(self):
        """after a reported namespace violation: put the exported units back so that later histories start clean"""
        names, objs, _ = self.C.ns
        for t in objs.values():
            if len(t) == 6:
                o = t[0]
                try:
                    o.expr, o.base_value, o.base_offset, o.dimensions, o.registry = t[1], t[2], t[3], t[4], t[5]
                except Exception:
                    pass
        ns = vars(self.unyt)
        for k, v in names.items():
            ns[k] = v

    # ------------------------------------------------------------ helpers for steps
    def pick_slot(self, allow_default=False, p_default=0.2):
        live = [s for s in self.slots if s is not None]
        if allow_default and (not live or self.r.random() < p_default):
            return self.D
        return self.r.choice(live)

    def pick_str(self, s):
        r = self.r
        x = r.random()
        if x < 0.3:
            return r.choice(ATOM)
        if x < 0.5:
            return r.choice(PREF)
        if x < 0.7:
            return r.choice(COMP)
        return r.choice(CUST)

    def good_str(self, s, tries=6):
        """a string the registry currently resolves (None if none found)"""
        for _ in range(tries):
            p = self.pick_str(s)
            try:
                self.unyt.Unit(p, registry=s.reg)
                return p
            except Exception:
                continue
        return None

    def commensurable(self, s, a, n=4):
        """up to n probe strings that registry s resolves to the dimensions of a (workload generation only)"""
        out = []
        cands = list(BASE_PROBES)
        self.r.shuffle(cands)
        for p in cands[:25]:
            try:
                if self.unyt.Unit(p, registry=s.reg).dimensions == a.units.dimensions:
                    out.append(p)
                    if len(out) >= n:
                        break
            except Exception:
                pass
        return out

    def arr(self, s, ustr=None):
        """an array or quantity living in registry s.reg (from the pool or fresh)"""
        r, U = self.r, self.unyt
        pool = [o for o in s.pool if isinstance(o, np.ndarray) and o.units.registry is s.reg]
        if ustr is None and pool and r.random() < 0.5:
            return r.choice(pool)
        ustr = ustr or self.good_str(s)
        if ustr is None:
            return None
        try:
            if r.random() < 0.5:
                a = U.unyt_array([1.0, 2.0, 4.0], ustr, registry=s.reg)
            else:
                a = U.unyt_quantity(r.choice(VALUES), ustr, registry=s.reg)
        except Exception as e:
            self.note_exc(e)
            return None
        self.keep(s, a)
        return a

    def keep(self, s, o):
        if len(s.pool) < 12:
            s.pool.append(o)
        else:
            s.pool[self.r.randrange(12)] = o

    def handle(self, s):
        """the registry of slot s reached through one of several routes"""
        r, U = self.r, self.unyt
        x = r.random()
        if x < 0.5:
            return s.reg
        if x < 0.75:
            pool = [o for o in s.pool if getattr(getattr(o, "units", o), "registry", None) is s.reg]
            if pool:
                o = r.choice(pool)
                return getattr(o, "units", o).registry
            return s.reg
        p = self.good_str(s)
        if p is None:
            return s.reg
        u = U.Unit(p, registry=s.reg)
        return u.registry if u.registry is s.reg else s.reg

    FAMILY = {"mul": "multiply", "np.multiply": "multiply", "imul": "multiply", "scalar-mul": "multiply", "div": "divide", "np.divide": "divide",
              "floor_divide": "divide", "add": "add-like", "np.add": "add-like", "iadd": "add-like", "np.maximum": "add-like", "np.hypot": "add-like",
              "sub": "subtract", "np.subtract": "subtract", "lt": "comparison", "eq": "comparison"}

    def clear_rule_caches(self):
        import unyt.array as ua
        import unyt.unit_object as uo
        n = 0
        for mod in (ua, uo):
            for f in list(vars(mod).values()):
                if callable(f) and hasattr(f, "cache_clear") and hasattr(f, "__wrapped__"):
                    f.cache_clear()
                    n += 1
        return n

    FAMILY.update(K.FAMILY)

    def check_left(self, kind, res, left_reg, form, right_reg=None, redo=None, left_unit=None, right_unit=None, left_class=None,
                   right_class=None, cell=None, extra_desc=""):
        """the unit of the result of a binary (or unary) operation lives in the left operand's registry"""
        rec = self.rec
        u = getattr(res, "units", res if hasattr(res, "is_Unit") else None)
        if u is None or not hasattr(u, "registry"):
            rec.note("no-unit-result:" + kind)
            return True
        rec.count("mon:result-registry-left")
        fam = self.FAMILY.get(form, form)
        if same_reg(u.registry, left_reg):
            if u.registry is not left_reg:
                rec.note("result-in-shallow-alias-of-left-registry:" + kind)
            rec.ok(cell or (kind, form, "result-registry-is-left"))
            return True
        other = self.whose(u.registry)
        mixed = right_reg is not None and not same_reg(right_reg, left_reg)
        # classify the mechanism (the verdict is already made): does the same call, with the memo tables of the unit rules
        # emptied, put the result into the left registry?
        mech = "fresh"
        if redo is not None:
            try:
                self.clear_rule_caches()
                u2 = getattr(redo(), "units", None)
                if u2 is not None and same_reg(u2.registry, left_reg):
                    mech = "memoised-unit-rule"
            except Exception:
                pass
        if mech == "memoised-unit-rule":
            key = "C13:ufunc:result-registry-not-left:memoised-unit-rule"
            rel = mech
        else:
            if mixed and same_reg(u.registry, right_reg) and left_class == "bare" and self.n_factors(right_unit) < 2:
                # the bare dimensionless unit times/over a single factor: cancelling has no pair of factors to look up, so the
                # 'left registry lacks a symbol of the right operand' fall-back of the unit rules cannot be the mechanism
                rel = "right-operand"
            elif mixed and same_reg(u.registry, right_reg):
                W.ENABLED[0] = False
                syms = (set(u.expr.free_symbols) | set(getattr(getattr(right_unit, "expr", None), "free_symbols", ()))
                        | set(getattr(getattr(left_unit, "expr", None), "free_symbols", ())))
                miss = [str(a) for a in syms if str(a) not in left_reg.lut and not self.prefixed_in(str(a), left_reg.lut)]
                W.ENABLED[0] = True
                rel = "right-operand:left-lacks-symbol" if miss else "right-operand"
            else:
                rel = "default-registry" if u.registry is self.D.reg else "foreign-registry"
            if left_unit is not None and getattr(left_unit, "base_offset", 0.0):
                rel += ":offset-unit"
            if left_class == "bare" and "left-lacks-symbol" not in rel:
                rel += ":left-bare-dimensionless"
            elif right_class == "bare" and "left-lacks-symbol" not in rel:
                rel += ":right-bare-dimensionless"
            key = "C13:%s/%s:result-registry-not-left:%s" % ("unit-op" if fam.startswith("unit-") else "ufunc", fam, rel)
        rec.violation(key, "%s (%s): the result's unit %s is bound to %s (%s), not to the left operand's registry%s"
                      % (kind, form, u, other, rel, extra_desc), self.case(form=form, result_units=str(u)))
        return False

    @staticmethod
    def n_factors(unit):
        """number of factors (powers expanded) of a unit expression: cancelling looks symbols up only for pairs of factors"""
        try:
            n = 0
            for b, e in getattr(unit, "expr", unit).as_powers_dict().items():
                if not b.is_Number:
                    n += max(1, int(abs(e)) + (0 if e == int(e) else 1))
            return n
        except Exception:
            return 2

    @staticmethod
    def prefixed_in(sym, table):
        from vf.ref import defs
        for p in defs.PREFIX:
            if sym.startswith(p) and sym[len(p):] in table and table[sym[len(p):]][4]:
                return True
        return False

    # ------------------------------------------------------------ creation
    def create(self, idx, prov=None):
        r, U, rec = self.r, self.unyt, self.rec
        UR = U.UnitRegistry
        live = [s for s in self.slots if s is not None and s.idx != idx]
        prov = prov or wchoice(r, PROVS)
        src = None
        if prov in NEEDS_SRC:
            src = r.choice(live) if live and r.random() < 0.7 else self.D
        reg, pool, alias = None, [], None
        kind = "create/" + prov
        self.kind = kind
        dim = self.C.dim
        try:
            if prov == "empty":
                reg = UR(add_default_symbols=False)
            elif prov == "defaults":
                reg = UR()
            elif prov == "lut+defaults":
                d = W.RecDict({"zub": (2.0, dim.length, 0.0, r"\rm{zub}", True)}, tag="slot%s" % idx)
                reg = UR(lut=d)
            elif prov == "lut-only":
                W.ENABLED[0] = False
                d = W.RecDict(dict(src.reg.lut), tag="slot%s" % idx)
                W.ENABLED[0] = True
                reg = UR(lut=d, add_default_symbols=False)
            elif prov == "unit_system":
                reg = UR(unit_system=r.choice(USYS))
            elif prov == "from_json":
                reg = UR.from_json(src.reg.to_json())
            elif prov in ("pickle-array", "pickle-quantity", "deepcopy-array"):
                p = self.good_str(src) or ""
                a = U.unyt_array([1.0, 2.0, 4.0], p, registry=src.reg) if prov != "pickle-quantity" else U.unyt_quantity(3.0, p, registry=src.reg)
                b = copy.deepcopy(a) if prov == "deepcopy-array" else pickle.loads(pickle.dumps(a))
                reg = b.units.registry
                pool = [b]
            elif prov in ("pickle-unit", "deepcopy-unit", "Unit.copy-deep", "Unit.copy-shallow"):
                p = self.good_str(src) or ""
                u = U.Unit(p, registry=src.reg)
                v = (pickle.loads(pickle.dumps(u)) if prov == "pickle-unit" else copy.deepcopy(u) if prov == "deepcopy-unit"
                     else u.copy(deep=True) if prov == "Unit.copy-deep" else u.copy())
                reg = v.registry
                pool = [v]
            elif prov == "pickle-registry":
                reg = pickle.loads(pickle.dumps(src.reg))
            elif prov == "deepcopy-registry":
                reg = copy.deepcopy(src.reg)
            elif prov == "copy.copy-registry":
                reg = copy.copy(src.reg)
        except Exception as e:
            self.note_exc(e)
            reg = None
        if reg is None:
            prov, src, kind = "defaults", None, "create/defaults"
            self.kind = kind
            reg = UR()
            pool = []
        rec.reach(kind)
        if prov in ALIAS_PROVS:
            alias = src.idx
        nonmod = prov in COPY_PROVS and src is not None and src.nonmod
        s = Slot(idx, reg, prov, src.idx if src else None, alias, nonmod)
        if src is not None:
            s.custom = set(src.custom)
        if prov == "lut+defaults":
            s.custom.add("zub")
        # a freshly created independent registry shares no table object with anything else
        rec.count("mon:create-no-shared-table")
        shared = None
        for x in live + [self.D]:
            if reg.lut is x.reg.lut or reg is x.reg:
                shared = ("default-registry" if x.is_default else "registry[%s]" % x.prov, x)
            elif reg._unit_object_cache is x.reg._unit_object_cache and alias is None:
                shared = ("string-cache-of-" + ("default-registry" if x.is_default else "registry[%s]" % x.prov), x)
        if reg.lut is self.C.symlut:
            shared = ("default_unit_symbol_lut", None)
        if shared and not (alias is not None and shared[1] is not None and self.root(shared[1]) is self.root(src)):
            withwhat = (shared[0] if shared[1] is None or shared[1].is_default else
                        shared[0].split("registry[")[0] + ("source" if src is not None and shared[1] is src else "unrelated-registry"))
            rec.violation("C13:%s:table-shared-with:%s" % (kind, withwhat),
                          "a registry created by %s shares its table object (lut) or string cache with %s" % (prov, shared[0]), self.case())
            if shared[1] is not None and not shared[0].startswith("string-cache"):       # follow the facts from here on: one defect, one report
                s.alias = shared[1].idx
        else:
            if alias is not None:
                rec.note("alias-by-design:" + prov)
            rec.ok((kind, "fresh-table", "create"))
        if prov in ("defaults", "unit_system"):
            # a registry created with defaults contains exactly the pristine default symbols
            W.ENABLED[0] = False
            cur = dict(reg.lut)
            W.ENABLED[0] = True
            if cur != self.C.pristine_sym:
                removed, changed, added = W.table_diff(self.C.pristine_sym, cur)
                k = (changed or removed or added)[0]
                rec.violation("C13:%s:fresh-defaults-differ-from-pristine:%s" % (kind, "changed" if changed else "missing" if removed else "extra"),
                              "UnitRegistry() created now has %r = %r, at import time the default symbol table had %r"
                              % (k, cur.get(k, "<absent>"), self.C.pristine_sym.get(k, "<absent>")), self.case())
            else:
                rec.ok((kind, "fresh-defaults-pristine", "create"))
        if idx < len(self.slots):
            self.slots[idx] = s
        else:
            self.slots.append(s)
        for o in pool:
            self.keep(s, o)
        self.log.append("%s -> slot %s (src %s)" % (kind, idx, src.idx if src else None))
        self.after_step(kind, addressed=[s])
        return s

    # ------------------------------------------------------------ steps
    def step(self):
        r = self.r
        kind = wchoice(r, STEPS)
        self.kind = kind
        if kind == "create":
            n = len(self.slots)
            idx = r.randrange(n + 1) if n < 3 else r.randrange(3)
            # do not destroy a slot others are aliases of
            if idx < n and any(x is not None and x.alias == idx for x in self.slots):
                idx = n if n < 3 else idx
                if idx < n and any(x is not None and x.alias == idx for x in self.slots):
                    return
            self.create(idx)
            return
        self.rec.reach(kind)
        fn = getattr(self, "s_" + kind.replace("/", "_").replace("-", "_"))
        self.log.append(kind + " (running)")
        out = fn()
        if out is None:
            out = {}
        self.log[-1] = "%s %s" % (kind, out.get("detail", ""))
        self.after_step(kind, addressed=out.get("addressed", ()), target=out.get("target"), default_writer=out.get("default_writer", False))

    # ---- edits
    def edit_target(self):
        s = self.pick_slot()
        return s

    def _edit(self, s, call, detail, must_refuse_note=True):
        """run an edit addressed to slot s; nonmod/alias-of-default rules handled here"""
        root = self.root(s)
        try:
            uid0 = s.reg.unit_system_id
        except Exception:
            uid0 = None
        try:
            call(self.handle(s))
            raised = None
        except Exception as e:
            raised = e
            self.note_exc(e)
        # the content id (unit_system_id) is what keeps the units of different registries apart in the process-wide memo
        # tables of the unit rules and in unit_system_registry: an edit that changed the table must renew it
        if uid0 is not None:
            removed, changed, added = W.table_diff(s.tab, s.reg.lut)
            # lookup-derived prefixed entries come and go without the id following them (benign): only the core counts
            removed = [k for k in removed if not W.is_derived(k, s.tab[k], s.tab)]
            if removed or changed or [k for k in added if not W.is_derived(k, s.reg.lut[k], s.reg.lut)]:
                self.rec.count("mon:content-id-renewed")
                try:
                    uid1 = s.reg.unit_system_id
                except Exception:
                    uid1 = None
                if uid1 == uid0:
                    self.rec.violation("C13:%s:content-id-not-renewed" % self.kind,
                                       "%s changed the table of registry R but R.unit_system_id (the hash under which R's units are memoised "
                                       "process-wide, next to those of every other registry) is still the one of the old contents" % detail,
                                       self.case(detail=detail))
                else:
                    self.rec.ok((self.kind, "content-id-renewed", s.prov))
        if root.is_default:
            # shallow alias of the default registry: modify/remove must have raised (judged by caller); nothing is addressed
            return {"detail": detail + " via alias-of-default", "addressed": () if raised else (s,), "target": s, "raised": raised}
        return {"detail": "%s on slot %s%s" % (detail, s.idx, " -> " + type(raised).__name__ if raised else ""), "addressed": (s,), "raised": raised}

    def s_edit_add_new(self):
        s = self.edit_target()
        if self.root(s).is_default:
            return {"detail": "skipped (alias of default)"}
        r, dim = self.r, self.C.dim
        cands = [c for c in CUSTOM_SYMS if c[0] not in s.custom] or CUSTOM_SYMS
        sym, pf = r.choice(cands)
        d = {"zub": dim.length, "quux": dim.mass, "code_length": dim.length, "code_mass": dim.mass, "code_time": dim.time}[sym]
        v = r.choice(VALUES)
        kw = {}
        if r.random() < 0.2:
            kw["tex_repr"] = r"\rm{%s}" % sym
        if r.random() < 0.1:
            kw["offset"] = 1.5
        s.custom.add(sym)
        return self._edit(s, lambda reg: reg.add(sym, v, d, prefixable=pf, **kw), "add(%s,%g)" % (sym, v))

    def s_edit_add_existing(self):
        s = self.edit_target()
        if self.root(s).is_default or not s.custom:
            return {"detail": "skipped"}
        r, dim = self.r, self.C.dim
        sym = r.choice(sorted(s.custom))
        v = r.choice(VALUES)
        d = r.choice([dim.length, dim.mass, dim.time, dim.energy])
        return self._edit(s, lambda reg: reg.add(sym, v, d, prefixable=r.random() < 0.5), "re-add(%s,%g)" % (sym, v))

    def s_edit_add_over_builtin(self):
        s = self.edit_target()
        if self.root(s).is_default:
            return {"detail": "skipped"}
        r, dim = self.r, self.C.dim
        sym = r.choice(BUILTIN_EDIT)
        v = r.choice(VALUES)
        d = r.choice([dim.length, dim.mass, dim.time])
        return self._edit(s, lambda reg: reg.add(sym, v, d, prefixable=r.random() < 0.5), "add-over-builtin(%s,%g)" % (sym, v))

    def _refusal(self, s, out, what):
        """modify/remove reached through a shallow alias of the default registry must raise; deep copies: noted"""
        root = self.root(s)
        if root.is_default:
            self.rec.count("mon:default-refusal")
            if out["raised"] is None:
                self.rec.violation("C13:%s:not-refused:alias[%s]" % (self.kind, s.prov),
                                   "%s through a %s alias of the default registry did not raise" % (what, s.prov), self.case())
                out["default_writer"] = True
            else:
                self.rec.ok((self.kind, "refused", "alias[%s]" % s.prov))
        elif s.nonmod:
            self.rec.note("deep-copy-of-default:%s:%s" % (what, "refused" if out["raised"] is not None else "accepted"))
        return out

    def s_edit_modify_float(self):
        s = self.edit_target()
        r = self.r
        sym = r.choice(sorted(s.custom) + BUILTIN_EDIT)
        v = r.choice(VALUES)
        return self._refusal(s, self._edit(s, lambda reg: reg.modify(sym, v), "modify(%s,%g)" % (sym, v)), "modify")

    def s_edit_modify_quantity(self):
        s = self.edit_target()
        r, U = self.r, self.unyt
        sym = r.choice(sorted(s.custom) + BUILTIN_EDIT)
        v = r.choice(VALUES)
        us = r.choice(["km", "g", "s", "erg", "Msun", "cm"])
        try:
            q = U.unyt_quantity(v, us, registry=s.reg)
        except Exception as e:
            self.note_exc(e)
            return {"detail": "no quantity"}
        return self._refusal(s, self._edit(s, lambda reg: reg.modify(sym, q), "modify(%s,%g %s)" % (sym, v, us)), "modify")

    def s_edit_remove(self):
        s = self.edit_target()
        r = self.r
        sym = r.choice(sorted(s.custom) * 2 + BUILTIN_EDIT)
        out = self._refusal(s, self._edit(s, lambda reg: reg.remove(sym), "remove(%s)" % sym), "remove")
        if out["raised"] is None:
            s.custom.discard(sym)
        return out

    def s_edit_define_unit(self):
        s = self.edit_target()
        if self.root(s).is_default:
            return {"detail": "skipped"}
        r, U = self.r, self.unyt
        cands = [c for c in CUSTOM_SYMS if c[0] not in s.custom] or CUSTOM_SYMS
        sym, pf = r.choice(cands)
        v = r.choice(VALUES)
        us = {"zub": "km", "quux": "g", "code_length": "kpc", "code_mass": "Msun", "code_time": "Myr"}[sym]
        s.custom.add(sym)
        if r.random() < 0.5:
            return self._edit(s, lambda reg: U.define_unit(sym, (v, us), registry=reg, prefixable=pf), "define_unit(%s,(%g,%s))" % (sym, v, us))

        def call(reg):
            U.define_unit(sym, U.unyt_quantity(v, us, registry=reg), registry=reg, prefixable=pf)
        return self._edit(s, call, "define_unit(%s,%g %s)" % (sym, v, us))

    # ---- reads (addressed to nobody)
    def s_read_Unit(self):
        s = self.pick_slot(True)
        p = self.pick_str(s)
        try:
            u = self.unyt.Unit(p, registry=self.handle(s))
            if u.registry is s.reg:
                self.keep(s, u)
        except Exception as e:
            self.note_exc(e)
        return {"detail": "Unit(%r) in %s" % (p, s.idx), "target": s}

    def s_read_contains_getitem(self):
        s = self.pick_slot(True)
        p = self.r.choice(ATOM + PREF + ["zub", "kzub", "quux", "kquux", "code_length", "Mcode_mass", "nosuch"])
        try:
            reg = self.handle(s)
            _ = p in reg
            _ = reg[p]
        except Exception as e:
            self.note_exc(e)
        return {"detail": "%r in / [] %s" % (p, s.idx), "target": s}

    def s_read_introspect(self):
        s = self.pick_slot(True)
        try:
            reg = self.handle(s)
            list(reg.keys()); reg.prefixable_units; reg.unit_system_id; reg.unit_system
            p = self.good_str(s)
            if p:
                reg.list_same_dimensions(self.unyt.Unit(p, registry=reg))
        except Exception as e:
            self.note_exc(e)
        return {"detail": "keys/prefixable_units/unit_system_id/list_same_dimensions %s" % s.idx, "target": s}

    def s_read_array_create(self):
        s = self.pick_slot(True)
        a = self.arr(s, self.pick_str(s))
        if a is not None and not same_reg(a.units.registry, s.reg):
            self.rec.violation("C13:read/array-create:array-unit-bound-to-other-registry:%s" % self.whose(a.units.registry),
                               "unyt_array(..., %r, registry=R) has units in %s" % (str(a.units), self.whose(a.units.registry)), self.case())
        return {"detail": "array(%s) in %s" % (None if a is None else a.units, s.idx), "target": s}

    def s_read_array_create_unitobj(self):
        s = self.pick_slot(True)
        p = self.good_str(s)
        if p is None:
            return {"detail": "none"}
        U = self.unyt
        try:
            u = U.Unit(p, registry=s.reg)
            form = self.r.choice(["unit", "unit+registry", "mul", "array-input"])
            if form == "unit":
                a = U.unyt_array([1.0, 2.0], u)
            elif form == "unit+registry":
                a = U.unyt_array([1.0, 2.0], u, registry=s.reg)
            elif form == "mul":
                a = np.array([1.0, 2.0]) * u
            else:
                a = U.unyt_array(U.unyt_array([1.0, 2.0], u), registry=s.reg)
            self.rec.count("mon:result-registry-left")
            if not same_reg(a.units.registry, s.reg):
                self.rec.violation("C13:read/array-create-unitobj:%s:array-unit-bound-to-other-registry" % form,
                                   "array built from a Unit of registry R (%s) has units in %s" % (form, self.whose(a.units.registry)), self.case())
            else:
                self.rec.ok((self.kind, form, "bound"))
                self.keep(s, a)
        except Exception as e:
            self.note_exc(e)
        return {"detail": "array from unit object %r in %s" % (p, s.idx), "target": s}

    def s_read_array_create_bypass(self):
        """bypass_validation=True with a Unit object (same registry, or registry= given explicitly)"""
        s = self.pick_slot(True)
        p = self.good_str(s)
        if p is None:
            return {"detail": "none"}
        U = self.unyt
        form = self.r.choice(["same-registry", "registry-kw-same", "quantity-registry-kw-same"])
        t = s
        try:
            u = U.Unit(p, registry=s.reg)
            before = u.registry
            if form == "same-registry":
                a = U.unyt_array(np.array([1.0, 2.0]), u, bypass_validation=True)
            elif form == "registry-kw-same":
                a = U.unyt_array(np.array([1.0, 2.0]), u, registry=s.reg, bypass_validation=True)
            else:
                a = U.unyt_quantity(np.array(2.0), u, registry=s.reg, bypass_validation=True)
            self.rec.count("mon:result-registry-left")
            if not same_reg(a.units.registry, s.reg) or not same_reg(u.registry, before):
                self.rec.violation("C13:read/array-create-bypass:%s:unit-bound-to-other-registry" % form,
                                   "bypass_validation array built from a unit of R lives in %s" % self.whose(a.units.registry), self.case())
                u.registry = before
            else:
                if u.registry is not before:
                    self.rec.note("bypass_validation-rebound-unit-to-shallow-alias-of-its-registry")
                    u.registry = before
                self.rec.ok((self.kind, form, "bound"))
        except Exception as e:
            self.note_exc(e)
        return {"detail": "bypass_validation %s: unit %r of %s, registry=%s" % (form, p, s.idx, t.idx), "target": s}

    def s_read_convert(self):
        s = self.pick_slot(True)
        a = self.arr(s)
        if a is None:
            return {"detail": "none"}
        U = self.unyt
        try:
            targets = self.commensurable(s, a) + [self.pick_str(s) for _ in range(2)]
            for p in targets:
                try:
                    b = self.r.choice([lambda: a.to(p), lambda: a.in_units(p), lambda: a.to_value(p), lambda: a.to(U.Unit(p, registry=s.reg))])()
                    if hasattr(b, "units"):
                        self.rec.count("mon:result-registry-left")
                        if not same_reg(b.units.registry, a.units.registry):
                            self.rec.violation("C13:read/convert:result-unit-bound-to-other-registry:%s" % self.whose(b.units.registry),
                                               "a.to(%r): result units live in %s, not in a's registry" % (p, self.whose(b.units.registry)), self.case())
                        else:
                            self.rec.ok((self.kind, "to", "bound"))
                            self.keep(s, b)
                    break
                except Exception as e:
                    self.note_exc(e)
        except Exception as e:
            self.note_exc(e)
        return {"detail": "convert %s in %s" % (a.units, s.idx), "target": s}

    def s_read_convert_base(self):
        s = self.pick_slot(True)
        a = self.arr(s)
        if a is None:
            return {"detail": "none"}
        how = self.r.choice(["cgs", "mks", "base", "base-imperial", "base-galactic", "unit-equiv", "own-system"])
        try:
            if how == "cgs":
                b = a.in_cgs()
            elif how == "mks":
                b = a.in_mks()
            elif how == "base":
                b = a.in_base()
            elif how == "base-imperial":
                b = a.in_base("imperial")
            elif how == "base-galactic":
                b = a.in_base("galactic")
            elif how == "own-system":
                b = a.in_base(s.reg.unit_system)
            else:
                b = a.units.get_base_equivalent(self.r.choice(USYS))
            u = getattr(b, "units", b)
            self.rec.count("mon:result-registry-left")
            if not same_reg(u.registry, a.units.registry):
                self.rec.violation("C13:read/convert-base:%s:result-unit-bound-to-other-registry:%s" % (how, self.whose(u.registry)),
                                   "%s of data in registry R returns units living in %s" % (how, self.whose(u.registry)), self.case())
            else:
                self.rec.ok((self.kind, how, "bound"))
                self.keep(s, b)
        except Exception as e:
            self.note_exc(e)
        return {"detail": "%s of %s in %s" % (how, a.units, s.idx), "target": s}

    def s_read_convert_inplace(self):
        s = self.pick_slot(True)
        a = self.arr(s)
        if a is None:
            return {"detail": "none"}
        try:
            a = a.copy()
            how = self.r.choice(["units", "cgs", "mks", "base"])
            if how == "units":
                for p in self.commensurable(s, a, 2) + [self.pick_str(s)]:
                    try:
                        a.convert_to_units(p)
                        break
                    except Exception as e:
                        self.note_exc(e)
            elif how == "cgs":
                a.convert_to_cgs()
            elif how == "mks":
                a.convert_to_mks()
            else:
                a.convert_to_base(self.r.choice(USYS))
            self.rec.count("mon:result-registry-left")
            if not same_reg(a.units.registry, s.reg):
                self.rec.violation("C13:read/convert-inplace:%s:unit-bound-to-other-registry:%s" % (how, self.whose(a.units.registry)),
                                   "convert_to_%s left the array with units living in %s" % (how, self.whose(a.units.registry)), self.case())
            else:
                self.rec.ok((self.kind, how, "bound"))
        except Exception as e:
            self.note_exc(e)
        return {"detail": "in-place convert in %s" % s.idx, "target": s}

    def _binary(self, a, b, form):
        if form == "mul":
            return a * b
        if form == "div":
            return a / b
        if form == "add":
            return a + b
        if form == "sub":
            return a - b
        if form == "np.multiply":
            return np.multiply(a, b)
        if form == "np.divide":
            return np.divide(a, b)
        if form == "np.add":
            return np.add(a, b)
        if form == "np.subtract":
            return np.subtract(a, b)
        if form == "np.maximum":
            return np.maximum(a, b)
        if form == "np.hypot":
            return np.hypot(a, b)
        if form == "lt":
            return a < b
        if form == "eq":
            return a == b
        if form == "floor_divide":
            return a // b
        if form == "imul":
            a = a.copy()
            a *= b
            return a
        if form == "iadd":
            a = a.copy()
            a += b
            return a
        raise ValueError(form)

    MULT = ["mul", "div", "np.multiply", "np.divide", "imul"]
    ADDI = ["add", "sub", "np.add", "np.subtract", "np.maximum", "np.hypot", "lt", "eq", "floor_divide", "iadd"]

    def s_read_arith(self):
        """arithmetic inside one registry: the result lives in that registry too"""
        s = self.pick_slot(True)
        a = self.arr(s)
        if a is None:
            return {"detail": "none"}
        r = self.r
        form = r.choice(self.MULT + self.ADDI + ["sqrt", "power", "reciprocal", "square", "scalar-mul", "sum", "neg"])
        try:
            if form in self.MULT:
                b = self.arr(s)
                if b is None:
                    return {"detail": "none"}
                redo = lambda: self._binary(a, b, form)
            elif form in self.ADDI:
                b = self.unyt.unyt_quantity(2.0, a.units)
                redo = lambda: self._binary(a, b, form)
            elif form == "sqrt":
                redo = lambda: np.sqrt(a)
            elif form == "power":
                pw = r.choice([2, 3, -1, 0.5])
                redo = lambda: a ** pw
            elif form == "reciprocal":
                redo = lambda: np.reciprocal(a)
            elif form == "square":
                redo = lambda: np.square(a)
            elif form == "scalar-mul":
                redo = lambda: 3.0 * a
            elif form == "sum":
                redo = lambda: np.sum(a) if a.ndim else a + a
            else:
                redo = lambda: -a
            res = redo()
            if self.check_left(self.kind, res, a.units.registry, form, redo=redo, left_unit=a.units) and hasattr(res, "units"):
                self.keep(s, res)
        except Exception as e:
            self.note_exc(e)
        return {"detail": "%s on %s in %s" % (form, a.units, s.idx), "target": s}

    def s_read_unit_arith(self):
        s = self.pick_slot(True)
        p, q = self.good_str(s), self.good_str(s)
        if p is None or q is None:
            return {"detail": "none"}
        U = self.unyt
        form = self.r.choice(["mul", "div", "pow", "sqrt-pow", "rdiv"])
        try:
            u, v = U.Unit(p, registry=s.reg), U.Unit(q, registry=s.reg)
            res = u * v if form == "mul" else u / v if form == "div" else u ** 2 if form == "pow" else u ** 0.5 if form == "sqrt-pow" else 1 / u
            if self.check_left(self.kind, res, s.reg, "unit-" + form):
                self.keep(s, res)
        except Exception as e:
            self.note_exc(e)
        return {"detail": "Unit %s: %r, %r in %s" % (form, p, q, s.idx), "target": s}

    def s_read_latex_simplify(self):
        s = self.pick_slot(True)
        p = self.good_str(s)
        if p is None:
            return {"detail": "none"}
        U = self.unyt
        try:
            u = U.Unit(p, registry=s.reg)
            u.latex_repr
            (u * U.Unit("km", registry=s.reg) / U.Unit("m", registry=s.reg)).simplify()
            u.get_mks_equivalent(); u.get_cgs_equivalent(); u.is_code_unit; u.as_coeff_unit(); u.list_equivalencies
        except Exception as e:
            self.note_exc(e)
        return {"detail": "latex/simplify %r in %s" % (p, s.idx), "target": s}

    def s_read_json_roundtrip(self):
        s = self.pick_slot(True)
        try:
            j = s.reg.to_json()
            reg2 = self.unyt.UnitRegistry.from_json(j)
            p = self.good_str(s)
            if p:
                self.orphans.append(self.unyt.unyt_array([1.0, 2.0, 4.0], p, registry=reg2))
                self.orphans = self.orphans[-6:]
        except Exception as e:
            self.note_exc(e)
        return {"detail": "to_json/from_json of %s" % s.idx, "target": s}

    def s_read_pickle_roundtrip(self):
        s = self.pick_slot(True)
        pool = [o for o in s.pool] or [self.arr(s)]
        o = self.r.choice(pool)
        if o is None:
            return {"detail": "none"}
        try:
            b = pickle.loads(pickle.dumps(o, protocol=self.r.choice([2, 4, pickle.HIGHEST_PROTOCOL])))
            self.orphans.append(b)
            self.orphans = self.orphans[-6:]
            breg = getattr(b, "units", b).registry
            if any(breg is x.reg for x in self.everyone()):
                self.rec.note("unpickled-object-bound-to-live-registry")
        except Exception as e:
            self.note_exc(e)
        return {"detail": "pickle round trip of a %s of %s" % (type(o).__name__, s.idx), "target": s}

    def s_read_deepcopy_object(self):
        s = self.pick_slot(True)
        pool = [o for o in s.pool] or [self.arr(s)]
        o = self.r.choice(pool)
        if o is None:
            return {"detail": "none"}
        try:
            b = self.r.choice([copy.deepcopy, copy.copy, lambda x: x.copy()])(o)
            self.orphans.append(b)
            self.orphans = self.orphans[-6:]
        except Exception as e:
            self.note_exc(e)
        return {"detail": "copy/deepcopy of a %s of %s" % (type(o).__name__, s.idx), "target": s}

    def _ns_bound(self, s, ns, what):
        self.rec.count("mon:namespace-bound")
        bad = [k for k, v in ns.items() if not same_reg(getattr(getattr(v, "units", v), "registry", s.reg), s.reg)]
        if bad:
            w = self.whose(getattr(ns[bad[0]], "units", ns[bad[0]]).registry)
            self.rec.violation("C13:%s:namespace-entry-bound-to-other-registry:%s" % (self.kind, w),
                               "%s(ns, R): %d of %d entries (e.g. %r) live in %s, not in R" % (what, len(bad), len(ns), bad[0], w),
                               self.case(target=s.idx, bad=bad[:8]))
        elif ns:
            self.rec.ok((self.kind, "bound", s.prov))

    def s_read_add_symbols(self):
        s = self.pick_slot(True, 0.1)
        ns = {}
        try:
            self.C.us.add_symbols(ns, s.reg)
        except Exception as e:
            self.note_exc(e)
        self._ns_bound(s, ns, "add_symbols")
        return {"detail": "add_symbols(%d names) from %s" % (len(ns), s.idx), "target": s}

    def s_read_add_constants(self):
        s = self.pick_slot(True, 0.1)
        ns = {}
        try:
            self.C.us.add_constants(ns, s.reg)
        except Exception as e:
            self.note_exc(e)
        self._ns_bound(s, ns, "add_constants")
        return {"detail": "add_constants(%d names) from %s" % (len(ns), s.idx), "target": s}

    def s_read_UnitSystem_create(self):
        s = self.pick_slot(True, 0.15)
        U, r = self.unyt, self.r
        form = r.choice(["code-units", "builtin-units", "unit_system_id-name", "no-registry"])
        try:
            if form == "unit_system_id-name":
                name = s.reg.unit_system_id
                if name in self.C.us.unit_system_registry:
                    # (also when this history created it earlier: constructing a system under an existing name re-binds the
                    #  entry by design - that would be the harness changing the unit-system table, not a leak)
                    return {"detail": "id taken"}
            else:
                name = self.C.unique("c13sys")
            self.C.usys_allowed.add(name)
            if form == "code-units" or form == "unit_system_id-name":
                us = U.UnitSystem(name, "code_length", "code_mass", "code_time", registry=s.reg)
            elif form == "builtin-units":
                us = U.UnitSystem(name, r.choice(["km", "kpc", "mile"]), r.choice(["Msun", "lb", "g"]), r.choice(["Myr", "hr", "s"]), registry=s.reg)
                us["energy"] = "erg"
            else:
                us = U.UnitSystem(name, "km", "g", "hr")
            a = self.arr(s)
            if a is not None:
                b = a.in_base(name if form != "unit_system_id-name" else "code")
                self.check_left(self.kind, b, a.units.registry, "in_base(" + form + ")")
                us["length"]; us["velocity"]
        except Exception as e:
            self.note_exc(e)
        return {"detail": "UnitSystem %s from %s" % (form, s.idx), "target": s}

    # ---- mixed-registry operations (addressed to nobody)
    def two_slots(self):
        ev = self.everyone()
        if len(ev) < 2:
            return None, None
        a = self.r.choice(ev)
        b = self.r.choice([x for x in ev if x is not a])
        return a, b

    def operand(self, s, ustr=None):
        """array/quantity of slot s, or now and then a round-trip copy (its registry is nobody's)"""
        return self.arr(s, ustr)

    def s_mixed_binary_ufunc(self):
        sa, sb = self.two_slots()
        if sa is None:
            return {"detail": "none"}
        r = self.r
        form = r.choice(self.MULT + self.ADDI)
        try:
            if form in self.MULT:
                a, b = self.operand(sa), self.operand(sb)
            else:
                cands = [p for p in ["km", "g", "s", "erg", "Msun", "zub", "code_length", "kzub", "m", "cm"]]
                r.shuffle(cands)
                a = b = None
                for p in cands:
                    try:
                        self.unyt.Unit(p, registry=sa.reg); self.unyt.Unit(p, registry=sb.reg)
                    except Exception:
                        continue
                    a, b = self.operand(sa, p), self.operand(sb, r.choice([p, p]))
                    break
            if r.random() < 0.15 and self.orphans and hasattr(self.orphans[-1], "units") and form in self.MULT:
                b = self.orphans[-1]
            if a is None or b is None:
                return {"detail": "no operands"}
            res = self._binary(a, b, form)
            self.check_left(self.kind, res, a.units.registry, form, b.units.registry, redo=lambda: self._binary(a, b, form), left_unit=a.units, right_unit=b.units)
        except Exception as e:
            self.note_exc(e)
            return {"detail": "%s of %s and %s raised %s" % (form, sa.idx, sb.idx, type(e).__name__)}
        return {"detail": "%s: %s [%s] with %s [%s]" % (form, a.units, sa.idx, b.units, sb.idx)}

    def s_mixed_unit_op(self):
        sa, sb = self.two_slots()
        if sa is None:
            return {"detail": "none"}
        p, q = self.good_str(sa), self.good_str(sb)
        if p is None or q is None:
            return {"detail": "none"}
        U = self.unyt
        form = self.r.choice(["mul", "div", "eq", "same_dimensions_as", "get_conversion_factor"])
        try:
            u, v = U.Unit(p, registry=sa.reg), U.Unit(q, registry=sb.reg)
            if form == "mul":
                self.check_left(self.kind, u * v, sa.reg, "unit-mul", sb.reg, right_unit=v)
            elif form == "div":
                self.check_left(self.kind, u / v, sa.reg, "unit-div", sb.reg, right_unit=v)
            elif form == "eq":
                u == v
            elif form == "same_dimensions_as":
                u.same_dimensions_as(v)
            else:
                u.get_conversion_factor(v)
        except Exception as e:
            self.note_exc(e)
        return {"detail": "Unit %s: %r [%s] with %r [%s]" % (form, p, sa.idx, q, sb.idx)}

    def s_mixed_to_foreign_unit(self):
        sa, sb = self.two_slots()
        if sa is None:
            return {"detail": "none"}
        a = self.operand(sa)
        if a is None:
            return {"detail": "none"}
        U = self.unyt
        try:
            for _ in range(6):
                q = self.good_str(sb)
                if q is None:
                    break
                try:
                    v = U.Unit(q, registry=sb.reg)
                    form = self.r.choice(["to", "in_units", "convert_to_units", "to-quantity"])
                    if form == "convert_to_units":
                        b = a.copy()
                        b.convert_to_units(v)
                    elif form == "to-quantity":
                        b = a.to(U.unyt_quantity(1.0, v))
                    else:
                        b = getattr(a, form)(v)
                    self.rec.note("convert-to-foreign-unit-object:%s:result-registry-%s" % (form, "left" if same_reg(b.units.registry, a.units.registry) else "of-the-requested-unit" if same_reg(b.units.registry, sb.reg) else "other"))
                    break
                except Exception as e:
                    self.note_exc(e)
        except Exception as e:
            self.note_exc(e)
        return {"detail": "convert data of %s to a unit of %s" % (sa.idx, sb.idx)}

    def s_mixed_array_function(self):
        sa, sb = self.two_slots()
        if sa is None:
            return {"detail": "none"}
        U = self.unyt
        form = self.r.choice(["concatenate", "uconcatenate", "dot", "vstack", "cross", "where", "allclose_units", "unyt_array-of-list"])
        try:
            p = None
            for c in ["km", "g", "s", "m", "zub", "code_length"]:
                try:
                    U.Unit(c, registry=sa.reg); U.Unit(c, registry=sb.reg)
                    p = c
                    break
                except Exception:
                    pass
            if p is None:
                return {"detail": "no common unit"}
            a = U.unyt_array([1.0, 2.0, 4.0], p, registry=sa.reg)
            b = U.unyt_array([3.0, 5.0, 7.0], p, registry=sb.reg)
            if form == "concatenate":
                res = np.concatenate([a, b])
            elif form == "uconcatenate":
                res = U.uconcatenate([a, b])
            elif form == "dot":
                res = np.dot(a, b)
            elif form == "vstack":
                res = np.vstack([a, b])
            elif form == "cross":
                res = np.cross(a, b)
            elif form == "where":
                res = np.where(a > b, a, b)
            elif form == "allclose_units":
                res = U.allclose_units(a, b)
            else:
                res = U.unyt_array([a[0], b[0]])
            u = getattr(res, "units", None)
            if u is not None:
                self.rec.note("array-function-result-registry:%s:%s" % (form, "left" if u.registry is sa.reg else "right" if u.registry is sb.reg else "other"))
        except Exception as e:
            self.note_exc(e)
        return {"detail": "%s over %s and %s" % (form, sa.idx, sb.idx)}

    def s_mixed_create_with_foreign_unit(self):
        """data created with a Unit object of registry b and registry=a: lives in a, b's objects untouched"""
        sa, sb = self.two_slots()
        if sa is None:
            return {"detail": "none"}
        U = self.unyt
        q = self.good_str(sb)
        if q is None:
            return {"detail": "none"}
        form = self.r.choice(["array", "quantity", "array-input", "bypass"])
        try:
            v = U.Unit(q, registry=sb.reg)
            before = v.registry
            if form == "array":
                a = U.unyt_array([1.0, 2.0], v, registry=sa.reg)
            elif form == "quantity":
                a = U.unyt_quantity(2.0, v, registry=sa.reg)
            elif form == "array-input":
                a = U.unyt_array(U.unyt_array([1.0, 2.0], v), registry=sa.reg)
            else:
                a = U.unyt_array(np.array([1.0, 2.0]), v, registry=sa.reg, bypass_validation=True)
            self.rec.count("mon:result-registry-left")
            if not same_reg(a.units.registry, sa.reg):
                self.rec.violation("C13:mixed/create-with-foreign-unit:%s:data-not-in-requested-registry" % form,
                                   "unyt_array(data, unit of registry B, registry=A) lives in %s" % self.whose(a.units.registry), self.case())
            else:
                self.rec.ok((self.kind, form, "bound"))
            if v.registry is not before:
                self.rec.violation("C13:mixed/create-with-foreign-unit:%s:unit-object-of-other-registry-rebound" % form,
                                   "unyt_array(data, u, registry=A%s) re-bound the caller's Unit object u (%r, of %s) to registry A: u.registry is now A"
                                   % (", bypass_validation=True" if form == "bypass" else "", q, "the default registry" if sb.is_default else "registry B"),
                                   self.case(unit=q))
                v.registry = before     # undo, so that one defect is reported once per step
        except Exception as e:
            self.note_exc(e)
        return {"detail": "%s with unit %r of %s, registry=%s" % (form, q, sb.idx, sa.idx)}

    def s_mixed_modify_with_foreign_quantity(self):
        sa, sb = self.two_slots()
        if sa is None or sa.is_default or self.root(sa).is_default or self.root(sa) is self.root(sb):
            return {"detail": "none"}
        b = self.operand(sb)
        if b is None or not getattr(b, "shape", None) == ():
            try:
                b = self.unyt.unyt_quantity(2.0, self.good_str(sb) or "", registry=sb.reg)
            except Exception as e:
                self.note_exc(e)
                return {"detail": "none"}
        sym = self.r.choice(sorted(sa.custom) + BUILTIN_EDIT)
        out = self._edit(sa, lambda reg: reg.modify(sym, b), "modify(%s, quantity of %s)" % (sym, sb.idx))
        return out

    # ---- unit-kind matrix over an ordered pair of distinct registries (vf/monitors/c13_kinds.py)
    def pick_pair(self, r):
        ev = self.everyone()
        pairs = [(a, b) for a in ev for b in ev if a is not b and self.root(a) is not self.root(b) and a.reg.lut is not b.reg.lut]
        return r.choice(pairs) if pairs else (None, None)

    def kind_operands(self, s, r, side):
        names = set(s.custom) | (set(self.C.ns_allowed) if s.is_default else set())
        custom = sorted(k for k in names if k in s.reg.lut)
        return custom, K.build_operands(self.unyt, s.reg, custom, self.C.pristine_sym, r, self.rec.note, side)

    def kind_matrix_step(self, r):
        """run as a step of its own (own random stream, so that the histories drawn from the main stream stay what they were)"""
        kind = "mixed/kind-matrix"
        self.kind = kind
        self.rec.reach(kind)
        self.log.append(kind + " (running)")
        out = self.s_mixed_kind_matrix(r) or {}
        self.log[-1] = "%s %s" % (kind, out.get("detail", ""))
        self.after_step(kind, addressed=())

    def siblings_step(self, r):
        """objects of one registry restored together (vf/monitors/c13_siblings.py); a step of its own on the second random stream"""
        self.log.append("create-siblings (running)")
        out = SIB.run(self, r) or {}
        self.log[-1] = "%s %s" % (self.kind, out.get("detail", ""))
        self.after_step(self.kind, addressed=())

    def s_mixed_kind_matrix(self, r):
        rec, U = self.rec, self.unyt
        sa, sb = self.pick_pair(r)
        if sa is None:
            rec.note("kind-matrix:no-pair-of-distinct-registries")
            return {"detail": "no pair of distinct registries"}
        try:
            customL, L = self.kind_operands(sa, r, "L")
            customR, R = self.kind_operands(sb, r, "R")
        except Exception as e:
            self.note_exc(e)
            return {"detail": "operands raised %s" % type(e).__name__}
        rec.count("kind:mixed-with-default-registry:left" if sa.is_default else "kind:mixed-with-default-registry:right" if sb.is_default else "kind:custom-custom")
        own = K.distinguishing_symbols(sa.reg.lut, sb.reg.lut, customL + BUILTIN_EDIT)
        ctx = {"sa": sa, "sb": sb, "own": own, "tcache": {}, "n": 0, "r": r}
        nm = 3 if self.tier == "quick" else 5
        na = 2 if self.tier == "quick" else 3
        shapes = [("q", "q"), ("a", "a"), ("a", "q"), ("q", "a")]
        for lk, lo in L.items():
            for rk, ro in R.items():
                for form in r.sample(K.MULT_FORMS, nm):
                    ls, rs = ("a", "a") if form == "matmul" else r.choice(shapes)
                    self.judge_kind(ctx, form, "mult", lo, ro, getattr(lo, ls), getattr(ro, rs), ls + rs)
                self.judge_kind(ctx, "unit-mul", "unit", lo, ro, lo.u, ro.u, "uu")
                if r.random() < 0.5:
                    self.judge_kind(ctx, "unit-div", "unit", lo, ro, lo.u, ro.u, "uu")
                if r.random() < 0.25:
                    form = r.choice(K.LABEL_FORMS)
                    ds = r.choice("qa")
                    a, b = (lo.u, getattr(ro, ds)) if form.startswith("unit-") else (getattr(lo, ds), ro.u)
                    self.judge_kind(ctx, form, "label", lo, ro, a, b, "label")
                try:
                    comm = lo.u.dimensions == ro.u.dimensions
                except Exception:
                    comm = False
                if comm:
                    for form in r.sample(K.ADD_FORMS, na):
                        ls, rs = r.choice(shapes)
                        self.judge_kind(ctx, form, "add", lo, ro, getattr(lo, ls), getattr(ro, rs), ls + rs)
                    form = r.choice(K.CMP_FORMS)
                    ls, rs = r.choice(shapes)
                    self.judge_kind(ctx, form, "cmp", lo, ro, getattr(lo, ls), getattr(ro, rs), ls + rs)
        return {"detail": "%d operations: %d kinds of %s [%s] x %d kinds of %s [%s], distinguishing symbols %s"
                % (ctx["n"], len(L), sa.idx, sa.prov, len(R), sb.idx, sb.prov, own)}

    def judge_kind(self, ctx, form, group, lo, ro, a, b, shapes):
        rec, U = self.rec, self.unyt
        sa, sb = ctx["sa"], ctx["sb"]
        kind = "mixed/kind-matrix"
        fam = K.FAMILY.get(form, form)
        try:
            res = K.apply_form(U, form, a, b)
        except Exception as e:
            rec.note("exc:%s:%s:%s" % (kind, fam, type(e).__name__))
            return
        ctx["n"] += 1
        if group == "label":
            u = getattr(res, "units", None)
            if u is not None:
                rec.note("label-form-result-registry:%s:%s" % (form, "left" if same_reg(u.registry, sa.reg) else "right" if same_reg(u.registry, sb.reg) else "other"))
            return
        rec.count("kind:family:" + fam)
        if group == "cmp":
            rec.count("kind:left:" + lo.kind)       # evaluated; comparisons have no unit: only the no-write part applies
            rec.count("kind:right:" + ro.kind)
            return
        u = res if hasattr(res, "is_Unit") else getattr(res, "units", None)
        if u is None or not hasattr(u, "registry"):
            rec.note("no-unit-result:%s:%s" % (kind, form))
            return
        rec.count("mon:kind-result-registry-left")
        rec.count("kind:left:" + lo.kind)
        rec.count("kind:right:" + ro.kind)
        lbare, rbare = lo.kind in K.BARE, ro.kind in K.BARE
        if lbare:
            rec.count("kind:bare-left:" + fam)
        # the behavioural observable costs two parses per new dimension and a conversion: always with a bare left operand,
        # else for a share of the operations
        beh = self.kind_behaviour(ctx, res, u) if (lbare or ctx["r"].random() < 0.4) else None
        desc = ""
        if beh is not None and beh[0] != "ok":
            desc = "; consequence: result.to_value(%r) %s (registry of the left operand resolves %r to scale %r)" % (beh[1], beh[2], beh[1], beh[3])
        what = " [left %s %r (%s), right %s %r (%s)]" % (lo.kind, lo.spell, shapes[:1], ro.kind, ro.spell, shapes[1:])
        ok = self.check_left(kind, res, sa.reg, form, sb.reg, redo=lambda: K.apply_form(U, form, a, b),
                             left_unit=getattr(a, "units", a), right_unit=getattr(b, "units", b),
                             left_class="bare" if lbare else None, right_class="bare" if rbare else None,
                             cell=(kind, fam, lo.kind, ro.kind), extra_desc=what + desc)
        if beh is None:
            return
        if beh[0] == "ok":
            rec.ok((kind, "resolves-left-symbol", fam, lo.kind))
        elif ok:
            rec.violation("C13:%s/%s:result-does-not-resolve-left-symbol:%s%s" % ("unit-op" if fam.startswith("unit-") else "ufunc", fam, beh[0],
                                                                                  ":left-bare-dimensionless" if lbare else ""),
                          "%s (%s)%s: the result is bound to the left operand's registry, yet result.to_value(%r) %s; the left registry resolves %r to scale %r"
                          % (kind, form, what, beh[1], beh[2], beh[1], beh[3]), self.case(form=form, result_units=str(u)))

    def kind_behaviour(self, ctx, res, u):
        """later conversions of the result resolve symbols as the LEFT registry does: None (not evaluable) or
        (status, target string, what happened, scale the left registry gives the target)"""
        rec, U = self.rec, self.unyt
        sa, sb, own = ctx["sa"], ctx["sb"], ctx["own"]
        try:
            if not own or u.base_offset:
                rec.count("kind:behaviour-skipped")
                return None
            # a result that carries a symbol of the right operand which the left registry cannot resolve is a consequence of
            # 'use the left registry' itself: whatever re-reads its expression there fails; nothing to judge
            known = ctx.setdefault("known", {})
            for a in u.expr.free_symbols:
                k = known.get(a)
                if k is None:
                    k = known[a] = W.resolve(U, sa.reg, str(a))[0] != "EXC"
                if not k:
                    rec.count("kind:behaviour-skipped")
                    return None
            dims = u.dimensions
            ent = ctx["tcache"].get(dims)
            if ent is None:
                ent = False
                for sym in own:
                    T = K.target_string(U, dims, sym, sa.reg.lut[sym][1])
                    if T is None:
                        continue
                    tl, tr = W.resolve(U, sa.reg, T), W.resolve(U, sb.reg, T)
                    if tl[0] == "EXC" or tl[2] != 0.0 or not tl[0] or W.res_equal(tl, tr):
                        continue
                    if tl[1] != dims:
                        continue        # a base symbol was itself redefined with other dimensions in the left registry: T is not commensurable
                    ent = (T, tl[0])
                    break
                ctx["tcache"][dims] = ent
            if not ent:
                rec.count("kind:behaviour-skipped")
                return None
        except Exception as e:
            rec.note("kind-behaviour-harness:%s" % type(e).__name__)
            return None
        T, scale = ent
        rec.count("mon:kind-result-resolves-left-symbol")
        data = U.unyt_quantity(1.0, res) if hasattr(res, "is_Unit") else res
        want = np.asarray(data.d, dtype=float) * (float(u.base_value) / float(scale))
        try:
            got = np.asarray(data.to_value(T), dtype=float)
        except Exception as e:
            return ("unknown", T, "raises %s (%s)" % (type(e).__name__, str(e)[:160]), scale)
        if got.shape == want.shape and np.allclose(got, want, rtol=1e-9, atol=0.0, equal_nan=True):
            return ("ok", T, "", scale)
        return ("other-value", T, "gives %r where %r is expected" % (got.tolist(), want.tolist()), scale)

    # ---- default registry
    def default_handles(self):
        U = self.unyt
        D = self.D.reg
        return [
            ("default_unit_registry", lambda: D, True),
            ("unyt.m.registry", lambda: U.m.registry, True),
            ("Unit('km').registry", lambda: U.Unit("km").registry, True),
            ("quantity.units.registry", lambda: U.unyt_quantity(1.0, "g").units.registry, True),
            ("(2*km).units.registry", lambda: (2 * U.km).units.registry, True),
            ("(km/s).registry", lambda: (U.km / U.s).registry, True),
            ("sqrt(array).units.registry", lambda: np.sqrt(U.unyt_array([4.0], "m**2")).units.registry, True),
            ("in_cgs().units.registry", lambda: U.unyt_quantity(1.0, "J").in_cgs().units.registry, True),
            ("constant.units.registry", lambda: U.speed_of_light.units.registry, True),
            ("mks_unit_system['length'].registry", lambda: self.C.us.mks_unit_system["length"].registry, True),
            ("copy.copy(default_unit_registry)", lambda: copy.copy(D), True),
            ("unyt.m.copy().registry", lambda: U.m.copy().registry, True),
            ("copy.copy(unit).registry", lambda: copy.copy(U.km).registry, True),
            ("copy.deepcopy(default_unit_registry)", lambda: copy.deepcopy(D), False),
            ("unyt.m.copy(deep=True).registry", lambda: U.m.copy(deep=True).registry, False),
            ("copy.deepcopy(array).units.registry", lambda: copy.deepcopy(U.unyt_array([1.0], "km")).units.registry, False),
        ]

    def _default_refusal(self, what):
        name, get, is_alias = self.r.choice(self.default_handles())
        sym = self.r.choice(["m", "km", "g", "Msun", "erg", "nosuch", "degC", "cm", "s"])
        raised = None
        try:
            reg = get()
            if is_alias and reg is not self.D.reg and reg.lut is not self.D.reg.lut:
                self.rec.violation("C13:%s:handle-not-default-registry:%s" % (self.kind, name),
                                   "%s is %s, not the default registry" % (name, self.whose(reg)), self.case())
                return {"detail": name}
            if what == "modify":
                reg.modify(sym, self.r.choice(VALUES))
            else:
                reg.remove(sym)
        except Exception as e:
            raised = e
        self.rec.count("mon:default-refusal")
        if is_alias:
            if raised is None:
                self.rec.violation("C13:%s:not-refused:%s" % (self.kind, "symbol-absent" if sym == "nosuch" else "symbol-present"),
                                   "%s.%s(%r) did not raise" % (name, what, sym), self.case(handle=name))
                return {"detail": name, "default_writer": True}
            self.rec.ok((self.kind, name, type(raised).__name__))
        else:
            self.rec.note("deep-copy-of-default:%s:%s" % (what, "refused" if raised is not None else "accepted"))
            self.rec.ok((self.kind, name, "default-unaffected-checked-by-digests"))
        return {"detail": "%s.%s(%r) -> %s" % (name, what, sym, type(raised).__name__ if raised else "returned")}

    def s_default_modify_refused(self):
        return self._default_refusal("modify")

    def s_default_remove_refused(self):
        return self._default_refusal("remove")

    def s_default_define_unit(self):
        name = self.C.unique("dz")
        self.C.ns_allowed.add(name)
        U = self.unyt
        try:
            if self.r.random() < 0.5:
                U.define_unit(name, (2.0, "km"), prefixable=self.r.random() < 0.5)
            else:
                U.define_unit(name, 3.0 * U.Msun / U.yr)
        except Exception as e:
            self.note_exc(e)
        return {"detail": "define_unit(%s) on the default registry" % name, "addressed": (self.D,), "default_writer": True}

    def s_default_add(self):
        name = self.C.unique("da_")
        try:
            self.D.reg.add(name, 5.0, self.C.dim.length, prefixable=self.r.random() < 0.5)
        except Exception as e:
            self.note_exc(e)
        return {"detail": "default_unit_registry.add(%s)" % name, "addressed": (self.D,), "default_writer": True}

    # ------------------------------------------------------------ end of history
    def final(self, full):
        U, rec = self.unyt, self.rec
        for s in self.everyone():
            self.kind = "final/bound"
            rec.reach("final/bound")
            res = self.observe_res(s, full)
            if self.check_bound(s, full, res, "final"):
                rec.ok(("final/bound", s.prov, "all-probes"))
            if s.alias is not None:
                continue
            rec.reach("final/twin")
            rec.count("mon:final-twin")
            W.ENABLED[0] = False
            twin = U.UnitRegistry(lut=dict(s.reg.lut), add_default_symbols=False)
            W.ENABLED[0] = True
            good = True
            for p, a in zip(full, res):
                b = W.resolve(U, twin, p)
                if not W.res_equal(a, b):
                    if s.is_default:
                        rec.violation("C13:final:default-registry-differs-from-cold-twin:%s" % probe_class(p),
                                      "at the end of a history the default registry resolves %r as %s, a fresh registry with the same table as %s"
                                      % (p, W.show_res(a), W.show_res(b)), self.case(probe=p))
                    else:
                        rec.note("not-judged:warm-registry-differs-from-cold-twin(C12):%s" % probe_class(p))
                    good = False
                    break
            if good:
                rec.ok(("final/twin", "D2" if s.is_default else s.prov, "all-probes"))
        self.kind = "final"
        self.after_step_defaults("final", False, force_full=True)

    def run(self):
        r = self.r
        self.kind = "init"
        W.drain()
        self.baseline(self.D)
        W.drain()
        n = 3 if (self.tier != "quick" or r.random() < 0.6) else 2
        for i in range(n):
            self.create(i)
        at, sib = set(), set()
        if self.r2 is not None:
            lo = min(self.nsteps - 1, self.nsteps // 3)
            at = {self.r2.randrange(lo, self.nsteps)}
            sib = {self.r2.randrange(self.nsteps) for _ in range(1 if self.tier == "quick" else 2)}
        for i in range(self.nsteps):
            self.step()
            if i in sib:
                self.siblings_step(self.r2)
            if i in at:
                self.kind_matrix_step(self.r2)
        if self.r2 is not None:
            self.kind_matrix_step(self.r2)


def worker(batch, rec):
    import unyt
    bid, p = batch
    child = Child(unyt, rec)
    extra_syms = sorted(child.pristine_sym)
    for h in range(p["n"]):
        r = core.rng(p["seed"], bid, h)
        H = History(child, r, "%s#%d" % (bid, h), p["steps"], p["tier"])
        H.r2 = core.rng(p["seed"], bid, h, "unit-kind-matrix")
        H.run()
        k = 40 if p["tier"] == "quick" else len(extra_syms)
        full = BASE_PROBES + [s for s in r.sample(extra_syms, k) if s not in BASE_PROBES]
        H.final(full)
        rec.count("histories")
        rec.count("steps", len(H.log))
        if h == 0:
            rec.sample({"history": H.hid, "steps": H.log[:12]}, limit=1)


def extra(tier, seed, results):
    counters = {}
    reached = set()
    for _, res in results:
        for k, v in res.get("counters", {}).items():
            counters[k] = counters.get(k, 0) + v
        reached.update(res.get("reached", []))
    missing = [m for m in SUBMONITORS + KIND_COUNTERS if not counters.get(m)]
    if missing:
        raise core.Inconclusive("sub-monitors-never-evaluated:" + ",".join(missing))
    return {"unreached": sorted(set(KINDS) - reached), "monitor_calls": {m: counters.get(m, 0) for m in SUBMONITORS},
            "unit_kind_matrix": {m: counters.get(m, 0) for m in KIND_COUNTERS + ["kind:behaviour-skipped"]},
            "histories": counters.get("histories", 0), "steps": counters.get("steps", 0)}
