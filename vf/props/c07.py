"""C07 - NumPy functions propagate units covariantly and never drop them silently.

Metamorphic monitor over the shared call-template catalogue (vf/gen/npcatalog.py, the same one C06 drives): every case is
executed twice with unit-carrying operands, once in a *base* unit assignment and once with all operands of one dimension
slot re-expressed in another unit (the numbers are rescaled exactly, the unit label is changed accordingly).  No
per-function expectation is used: the two results only have to denote the same thing.

 rule 1 (covariance)   every result leaf (recursively through tuples/lists/dicts), every out= buffer and, for mutators,
                       every operand after the call: a leaf carrying units must denote the same physical quantity in both
                       runs (numbers x reference scale of the printed unit, scale and dimension evaluated by vf.ref.uexpr,
                       not by unyt); a leaf without units must be numerically unchanged.  With the dyadic unit pool
                       (custom registry, scales 2**(12k)) the comparison is bit-for-bit, with ordinary units
                       (m->cm, s->ms ...; thorough tier) it is norm-wise within a dtype-derived tolerance.
 rule 2 (no silent drop) for templates the catalogue tags "same-dimension" (selection, reshaping, sorting, rounding,
                       interpolation, statistics of location and spread) the result must be a unyt object whose dimension
                       vector equals the one of a unit-carrying input.

Unit families: plain (one slot or both re-expressed), 'mixed' (operands of one slot written in two units; plain first powers and
compound: fractional powers / derived-unit aliases), 'partial' (slots A and B commensurable, written in two units that cancel
only partly when multiplied/divided: coefficient from the part that cancels x scaled dimensionless residue from the rest),
'stale' (two snapshots of one registry entry).
"""
import math
import warnings
from fractions import Fraction as Fr

import numpy as np

from vf import core
from vf.gen import npcatalog as nc
from vf.gen import dyadic
from vf.gen import c07_meta as meta
from vf.monitors import c07_angle
from vf.gen import c07_templates  # noqa: F401  (adds C07's own forms to the catalogue of this process)
from vf.ref import dims as rdims, uexpr, names as rnames

RULE = ("one evaluation = one catalogue call (function / ndarray method / operator x call form x shape class x dtype x data draw "
        "x memory layout) executed with unit-carrying operands in a base unit assignment and again with every operand of the "
        "rescaled dimension slot(s) re-expressed exactly in another unit, judged leaf by leaf (result leaves, out= buffers, "
        "operands of mutators) by rule 1 (same physical quantity / same bare numbers) and, for same-dimension templates, by "
        "rule 2 (result is a unyt object commensurable with an input). In the 'mixed' and 'stale' unit families the base run writes the "
        "operands of one slot in two different units (another symbol / the same symbol and registry object built before and after an edit "
        "of the registry entry) and the other run writes all of them in one fixed unit of an untouched registry; the compound mixed families do the same with "
        "fractional-power (L**1.5, L**2.5) and derived-alias (E*L vs F*L**2) slot units, and in the 'partial' families the two slots A and B are commensurable "
        "and written in two such units in the base run, in one common unit in the other run, so that every product/quotient of an A with a B operand meets units "
        "that cancel only partly (driven for calls in which both slots carry units). distinct = (template id, shape class, dtype, unit family, "
        "rule); cases both runs refuse, and cases NumPy itself refuses on bare data, are counted but are no cells")
ASSUMPTIONS = (
    "trusted base: NumPy on bare data decides only whether a generated call is valid; vf.ref.uexpr + the dyadic atom table / vf.ref.defs give scale and dimension vector of the *printed* unit of a result (unyt's base_value and unyt's .to() are not used)",
    "re-expression of the inputs is done by the harness, not by unyt: the numbers are multiplied in place (same memory layout in both runs) by scale_base/scale_variant, a power of two in the dyadic pool (exact for floats; integer data only when the ratio is an integer that fits the type) or 100/1000/1e5 applied to integer- or quarter-valued data (ordinary units; exact); cases in which the rescaling is not exact in the data type are discarded and counted",
    "dyadic covariance is bit-for-bit absent overflow/underflow: a mismatch is discarded (counted) when a magnitude leaves the safe exponent range of the leaf's float type (incl. inf/nan or zero in one run only where the re-expressed counterpart is out of range), when the covariant integer answer does not fit the result's integer type, or, for integer data, when NumPy itself on the bare integers of either run disagrees with NumPy on the same numbers as float64 (wrap-around, integer rounding of means: NumPy's integer arithmetic)",
    "where the two dyadic runs agree within 64 eps (norm-wise) but not bit-for-bit, NumPy is asked the same question on the bare numbers of both runs: if NumPy's own results are not related by one exact power of two per leaf (det = sign*exp(logdet), pow, log, exp ...) the last-bit difference is NumPy's and the case counts as held (noted per function); otherwise it is a violation of kind not-bit-exact",
    "ordinary-unit covariance is judged norm-wise: |difference| <= 4096 eps(narrowest float involved) x largest magnitude in the leaf; bare integer/boolean leaves exactly; leaves LAPACK defines only up to sign/phase/order (eigenvectors, singular vectors, Q/R, unsorted eigenvalues) are compared with the dyadic pool only",
    "functions whose definition refers to the number in the current unit are not covariant by construction and only rule 2 is judged for them (c07_meta.UNIT_RELATIVE: rounding to decimals/integers, astype, byte-level access, floor-division by a pure number, real_if_close); the same holds call-wise for casts to an integer dtype / casting='unsafe', for np.isclose/np.allclose without an explicit atol (NumPy adds 1e-8 of the current unit), and for histograms of a degenerate sample (NumPy widens the range by 0.5 of the current unit; the histogram family is therefore not driven with the all-zero draw)",
    "explicit conversions to plain objects (__int__/__float__/__complex__/__index__, item, tolist, __array__, tobytes, getfield, dump(s), tofile, __reduce__, text) and explicit base-class requests (subok=False incl. NumPy's documented default of copy/broadcast_to/broadcast_arrays - DESIGN 4.11 -, view(np.ndarray), a bare out= buffer that is itself returned) are not judged by either rule",
    "a bare number passed explicitly where a quantity of an operand's dimension is meant (initial=3, clip(a, 1, 4), fill(3), constant_values=5, range=(1, 8), x %= 2 ...; c07_meta.UNIT_POSITION_PARAMS by parameter name, catalogue forms named *bare*) takes that operand's unit by unyt's documented idiom, so its meaning changes when the operand is re-expressed: rule 1 is only noted for such calls (a bare zero is zero in every unit and is judged); defaults belong to the function and are judged (np.unwrap's default period)",
    "an operand deliberately passed without unit (catalogue forms bare#k) is judged only where operands have independent dimensions (templates tagged product, and C07's own histogramdd/histogram2d/meshgrid forms with one plain coordinate): the plain operand is a pure number and stays as it is; elsewhere such calls mix a bare array into a unit position, which is C01's subject, and neither rule is judged",
    "quantities put where NumPy expects indices or counts (bincount(x), unravel_index, ravel_multi_index) are run and noted, not judged: the statement speaks of inputs of a given dimension, an index has none",
    "DESIGN 4.10: *_like prototypes and empty_like do not derive values from their input: only rule 2 (class, unit presence, dimension) is judged",
    "rule 2 is applied to the catalogue's same-dimension tag except where the tag is too coarse (in-place multiplicative operators, callables deciding the dimension, np.where(cond) returning indices, sum-of-weights of np.average); in a tuple result integer/boolean leaves after the first one count as index-like when the input data are float/complex (with integer input data such leaves are not judged); a leaf that failed rule 2 is not reported again by rule 1",
    "a refusal (exception) in both runs is allowed by the property; a refusal in exactly one run is a covariance violation; results of functions unyt declares unsupported are judged like any other when they return (keyed without the leaf index)",
    "slot '1' operands (must be dimensionless by the template) are never rescaled; offset and logarithmic units are excluded (DESIGN 1.10); besides random data every template is driven with the all-zero input class (zero is the same quantity in every unit; unyt special-cases it)",
    "stale families (history x combination): a Unit object is a snapshot of the registry entry it was built from, so after UnitRegistry.modify / remove+add two operands can carry the same symbol in the same registry object with different sizes; what such an operand denotes is its numbers x the scale of the Unit object it carries, not the current meaning of the printed symbol. The harness builds both snapshots itself, checks on the objects that they have the sizes its own table says (old: TABLE, new: 2**(12k)) and rescales the numbers of the operand written in the other snapshot exactly; the reference run writes every operand in one unit of an untouched registry. A unit-carrying result leaf of the stale run is read as numbers x the base_value stored in the Unit object attached to it (an attribute, no conversion routine is called; the printed symbol is ambiguous there), its dimension still by vf.ref from the printed expression; leaves of the reference run are read by vf.ref only. A refusal of the stale combination is accepted (counted, listed per function) like a refusal of mixed units; quotients of two snapshots print 'dimensionless' but carry the ratio as scale and are judged by that scale",
    "units that cancel only partly (compound mixed and partial families): the dyadic pool gets derived-unit aliases of its own (Ea, Eb energy; Fa, Fb force; size 2**(12k), read by the check's own resolver) and slot units L**1.5, L**2.5, E*L against F*L**2 / F*L*L, ordinary analogues m**1.5 against cm**1.5, m**2.5 against cm**2.5, J*km against N*cm*m (ratios 1000, 1e5: exact on quarter-valued data; km**1.5 against m**1.5 has an irrational ratio and cannot be re-expressed exactly by the harness); what the printed residue unit of a result (sqrt(Lb)/sqrt(La), Eb/(Fa*La)) means is read by vf.ref.uexpr like any other unit",
    "partial families: the base run is a mixed-unit call (operands of one dimension in two units), so a refusal in the base run only is accepted and counted like in the mixed families; failures seen only there are keyed :commensurable-slots",
    "in every dyadic family a rounding-sized difference counts as held (counted, noted per function) when the two result leaves have different float widths: the coefficient / residue of a cancellation is applied as a float64 factor, so float32 data come back as float64 only in the run whose units do not cancel completely (precision and width of conversions are C17's subject); with equal widths bit-for-bit is required",
    "the ordinary-unit mixed families (m**1.5 with cm**1.5, J*km with N*cm*m) are driven only for multiplicative templates (tag product, not the floor family): where operands of one dimension in two ordinary units are added or compared unyt must convert one of them by an inexact factor (1e-3, through float32 for 32-bit data), which makes comparisons, floor and remainder undecidable and is C17's subject; additive and comparing calls on mixed units are judged with the dyadic pool only",
    "the binary ufuncs (add ... remainder, comparisons, arctan2; multiply/divide as controls) and the compositions reduce-then-combine, multiply/divide in the forms out=, .outer, 0-d operand, in-place operator with a quantity on the right, operator with both operands in one slot, and the compositions combine-then-reduce (np.mean(x/y) ...; divisors >= 1) are C07's own templates (vf/gen/c07_templates.py): fmod/remainder get divisors >= 1, comparisons small integers so that ties occur",
    "angle units (vf/monitors/c07_angle.py): sin/cos/tan convert any angle unit to radian implicitly and return a bare number, so their result depends on the unit of the input although it carries none; this dimension is the stated exception to the exclusion of zero-point units (lat, lon, user-registered angle units with offset=). The harness writes one angle in every unit and reads it back with vf.ref.defs (radian = scale x (reading - zero point)), unyt converts nothing for the oracle; results must agree with the same door on radian readings and with NumPy on the radian magnitudes within 32 eps(dtype) x (|angle| + |zero point| + 1) x (1 + tan**2 for tan), bit-for-bit for a power-of-two multiple of the radian in float64; a door refused for radian input too (ufunc.at) is counted, not judged",
    "np.unique_values leaves the order of its result unspecified: compared as multisets",
    "mechanism key = C07:<function>[(<minimal set of optional parameters whose forms fail> | options)]:<failure kind>:<result leaf | out-buffer | operand#k>[:<data type class when float data do not show it>][:mixed-units | :commensurable-slots | :stale-units | :ordinary-units when only the mixed families / only the partial families / only the stale families / only ordinary units show it]; generic (no parenthesis) when the plain call form fails",
)
MIN_EVALS = 100000
TIMEOUT = 3600

# ------------------------------------------------------------------------------------------------ unit families
# own dyadic atom table (k = exponent/12): a..d sizes per dimension letter
TABLE = {}
for _l in "LTM":
    for _s, _k in (("a", 0), ("b", 1), ("c", 2), ("d", -1)):
        TABLE[_l + _s] = (_l, _k)

# (name, kind, base assignment, variant assignment, flavors or None)
FAM_QUICK = [
    ("dy-both", "dyadic", {"A": "Lb", "B": "Tb"}, {"A": "La", "B": "Td"}),      # A x 2**12, B x 2**24
    ("dy-A", "dyadic", {"A": "Lb", "B": "Tb"}, {"A": "La", "B": "Tb"}),         # A alone: no label error A**a B**b stays invisible in both
]
FAM_THOROUGH = FAM_QUICK + [
    ("dy-B", "dyadic", {"A": "Lb", "B": "Tb"}, {"A": "Lb", "B": "Ta"}),
    ("dy-up", "dyadic", {"A": "Lb", "B": "Tb"}, {"A": "Lc", "B": "Tc"}),        # towards larger units (numbers shrink; floats only)
    ("dy-cross", "dyadic", {"A": "Lb", "B": "Tb"}, {"A": "Lc", "B": "Td"}),     # A up, B down
    ("dy-compound", "dyadic", {"A": "Mb*Lb/Tb**2", "B": "1/Ta"}, {"A": "Ma*La/Tb**2", "B": "1/Tb"}),
    ("dy-area", "dyadic", {"A": "Lb**2", "B": "Tb/Lb"}, {"A": "La**2", "B": "Ta/Lb"}),
    ("dy-both-0d-array", "dyadic", {"A": "Lb", "B": "Tb"}, {"A": "La", "B": "Td"}),   # 0-d operands as unyt_array instead of unyt_quantity
    ("ord", "ordinary", {"A": "m", "B": "s"}, {"A": "cm", "B": "ms"}),
    ("ord-compound", "ordinary", {"A": "kg*m/s**2", "B": "1/ms"}, {"A": "g*cm/s**2", "B": "1/s"}),
]
# 'mixed' families: base run = operands of one slot written in two different units (first operand Lb, further ones La with
# numbers x 2**12), variant run = all of them in Lb.  A refusal of the mixed call is accepted (and counted).
FAM_MIXED_QUICK = [("dy-mixed", "dyadic", {"A": "Lb", "B": "Tb"}, {"A": ("La", 4096), "B": ("Ta", 4096)})]
FAM_MIXED_THOROUGH = list(FAM_MIXED_QUICK) + [("dy-mixed-up", "dyadic", {"A": "La", "B": "Ta"}, {"A": ("Lb", 1.0 / 4096), "B": ("Tb", 1.0 / 4096)})]
# 'stale' families (history x combination): Unit objects are snapshots of the registry entry they were built from.  In the base
# run the first operand of every slot carries the Unit built *before* the registry entry of its symbol was edited (modify, or
# remove + add), every further operand of that slot the Unit built *after* it: same symbol, same registry object, another size
# (numbers rescaled exactly by the harness).  Variant run = everything in the slot's unit from the untouched registry.
# (name, kind, slot units, how the entry is edited, k of the new definition (size 2**(12k)), which operands are stale)
FAM_STALE_QUICK = [
    ("dy-stale", "dyadic", {"A": "Lb", "B": "Tb"}, "modify", 0, "first"),           # first operand old (2**12), further ones new (1): numbers x 4096
    ("dy-stale-readd-rev", "dyadic", {"A": "Lb", "B": "Tb"}, "readd", 0, "others"),   # first operand new, further ones old
]
FAM_STALE_THOROUGH = FAM_STALE_QUICK + [
    ("dy-stale-up", "dyadic", {"A": "Lb", "B": "Tb"}, "modify", 2, "first"),          # further operands in a larger unit (numbers / 4096; floats only)
    ("dy-stale-readd", "dyadic", {"A": "Lb", "B": "Tb"}, "readd", 2, "first"),
    ("dy-stale-rev", "dyadic", {"A": "Lb", "B": "Tb"}, "modify", -1, "others"),
    ("dy-stale-compound", "dyadic", {"A": "Mb*Lb/Ta**2", "B": "1/Tb"}, "modify", 0, "first"),
    ("dy-stale-0d-array", "dyadic", {"A": "Lb", "B": "Tb"}, "modify", 0, "first"),
]
# derived-unit aliases of the dyadic pool (one symbol for a compound dimension, like J and N): symbol -> (dimension, k), size 2**(12k)
DERIVED = {"Ea": ("M L2 T-2", 0), "Eb": ("M L2 T-2", 1), "Fa": ("M L T-2", 0), "Fb": ("M L T-2", 1)}
# units that cancel only partly.  unyt cancels commensurable factors of a product/quotient of units symbolically where it can
# (Lb/La -> coefficient 4096) and leaves the rest as a scaled dimensionless residue (sqrt(Lb)/sqrt(La), Eb/(Fa*La)); with
# fractional powers above 1 and with derived-unit aliases next to another mismatched factor *both* parts are non-trivial.
# 'mixed' families with such slot units (operands of one slot written in two sizes of a fractional-power / alias compound):
FAM_MIXED_QUICK += [
    ("dy-mixed-pow1.5", "dyadic", {"A": "Lb**1.5", "B": "Tb**1.5"}, {"A": ("La**1.5", 2 ** 18), "B": ("Ta**1.5", 2 ** 18)}),
    ("dy-mixed-alias", "dyadic", {"A": "Eb*Lb", "B": "Tb"}, {"A": ("Fa*La**2", 2 ** 24), "B": ("Ta", 4096)}),
]
FAM_MIXED_THOROUGH += FAM_MIXED_QUICK[1:] + [
    ("dy-mixed-pow2.5", "dyadic", {"A": "Lb**2.5", "B": "Tb**2.5"}, {"A": ("La**2.5", 2 ** 30), "B": ("Ta**2.5", 2 ** 30)}),
    ("dy-mixed-pow1.5-up", "dyadic", {"A": "La**1.5", "B": "Ta**1.5"}, {"A": ("Lb**1.5", 2.0 ** -18), "B": ("Tb**1.5", 2.0 ** -18)}),
    ("dy-mixed-alias-3", "dyadic", {"A": "Eb*Lb", "B": "Tb"}, {"A": ("Fa*Ld*La", 2 ** 36), "B": ("Ta", 4096)}),
    ("ord-mixed-pow1.5", "ordinary", {"A": "m**1.5", "B": "s"}, {"A": ("cm**1.5", 1000), "B": ("ms", 1000)}),
    ("ord-mixed-pow2.5", "ordinary", {"A": "m**2.5", "B": "s"}, {"A": ("cm**2.5", 100000), "B": ("ms", 1000)}),
    ("ord-mixed-alias", "ordinary", {"A": "J*km", "B": "s"}, {"A": ("N*cm*m", 100000), "B": ("ms", 1000)}),
]
# 'partial' families: slots A and B are *commensurable* (same dimension, different units of the class above), so that every
# catalogue call combining an A with a B operand (products, quotients, contractions, solves, operators, in-place, out=, .outer,
# combine-then-reduce compositions) meets a pair of units that cancels only partly; the variant run writes both slots in one
# common unit (complete cancellation).  Driven only for calls in which both slots carry units.
FAM_PARTIAL_QUICK = [
    ("dy-partial-pow1.5", "dyadic", {"A": "Lb**1.5", "B": "La**1.5"}, {"A": "La**1.5", "B": "La**1.5"}),
    ("dy-partial-alias", "dyadic", {"A": "Eb*Lb", "B": "Fa*La**2"}, {"A": "Fa*La**2", "B": "Fa*La**2"}),
]
FAM_PARTIAL_THOROUGH = FAM_PARTIAL_QUICK + [
    ("dy-partial-pow2.5", "dyadic", {"A": "Lb**2.5", "B": "La**2.5"}, {"A": "La**2.5", "B": "La**2.5"}),
    ("dy-partial-pow1.5-rev", "dyadic", {"A": "La**1.5", "B": "Lb**1.5"}, {"A": "La**1.5", "B": "La**1.5"}),      # the divisor is the larger unit
    ("dy-partial-pow1.5-down", "dyadic", {"A": "Lb**1.5", "B": "La**1.5"}, {"A": "Ld**1.5", "B": "Ld**1.5"}),    # both re-expressed
    ("dy-partial-pow1.5-up", "dyadic", {"A": "Lb**1.5", "B": "La**1.5"}, {"A": "Lb**1.5", "B": "Lb**1.5"}),      # numbers shrink (floats only)
    ("dy-partial-compound", "dyadic", {"A": "Mb*Lb**1.5/Tb", "B": "Ma*La**1.5/Tb"}, {"A": "Ma*La**1.5/Tb", "B": "Ma*La**1.5/Tb"}),
    ("dy-partial-alias-3", "dyadic", {"A": "Eb*Lb", "B": "Fa*Ld*La"}, {"A": "Fa*Ld*La", "B": "Fa*Ld*La"}),
    ("dy-partial-pow1.5-0d-array", "dyadic", {"A": "Lb**1.5", "B": "La**1.5"}, {"A": "La**1.5", "B": "La**1.5"}),
    ("ord-partial-pow1.5", "ordinary", {"A": "m**1.5", "B": "cm**1.5"}, {"A": "cm**1.5", "B": "cm**1.5"}),
    ("ord-partial-pow2.5", "ordinary", {"A": "m**2.5", "B": "cm**2.5"}, {"A": "cm**2.5", "B": "cm**2.5"}),
    ("ord-partial-alias", "ordinary", {"A": "J*km", "B": "N*cm*m"}, {"A": "N*cm*m", "B": "N*cm*m"}),
]
PLAIN_MIXED = ("dy-mixed", "dy-mixed-up")        # the mixed families with plain first-power slot units
WHATS = ("ufunc", "op", "composition", "function", "method")
LAYOUT_DRAW = ("C", "C", "C", "F", "strided", "reversed", "T")


def _what(t):
    """kind of catalogue entry, for the per-class counters of the history / combination families"""
    if t.func_name.startswith("c07."):
        return "composition"
    if t.func_name.startswith("numpy.") and isinstance(t.target, np.ufunc):
        return "ufunc"
    return t.kind if t.kind in WHATS else "method"


def own_registry(unyt):
    """the dyadic registry of this check: the atoms of TABLE plus the derived-unit aliases"""
    from unyt import dimensions as ud
    reg = dyadic.registry(unyt, TABLE)
    dims = {"M L2 T-2": ud.energy, "M L T-2": ud.force}
    for name, (spec, k) in DERIVED.items():
        reg.add(name, 2.0 ** (dyadic.STEP * k), dims[spec])
    return reg


def batches(tier, seed):
    bf = nc.by_function()
    names = sorted(bf, key=lambda n: -len(bf[n]))
    nb = 48 if tier == "quick" else 120
    bins = [[0, []] for _ in range(nb)]
    for n in names:                       # greedy balancing by template count; all forms of a function stay together
        b = min(bins, key=lambda x: x[0])
        b[0] += len(bf[n]) * (3 if n.startswith("numpy.linalg") or "quantile" in n or "percentile" in n else 1)
        b[1].append(n)
    # first-class dimension 'angle units' (vf/monitors/c07_angle.py): unary functions converting their input implicitly
    return ([("angle-units/0", {"angle_units": True, "funcs": [], "seed": seed, "tier": tier})]
            + [("functions/%d" % i, {"funcs": b[1], "seed": seed, "tier": tier}) for i, b in enumerate(bins) if b[1]])


# ------------------------------------------------------------------------------------------------ reference scales
_DY_ATOMS = dyadic.resolver(TABLE)


def _DY_RES(tok):
    if tok in DERIVED:
        spec, k = DERIVED[tok]
        return 2.0 ** (dyadic.STEP * k), rdims.D(spec)
    return _DY_ATOMS(tok)


_SCALE_CACHE = {}


def ref_unit(expr, kind):
    """(scale, dimvec) of a printed unit expression, by the independent evaluator; None if it cannot be read"""
    key = (expr, kind)
    if key in _SCALE_CACHE:
        return _SCALE_CACHE[key]
    try:
        if expr in ("", "dimensionless", "1"):
            r = (1.0, rdims.ZERO)
        elif kind == "dyadic":
            s, d = uexpr.evaluate(expr, _DY_RES)
            e = round(math.log2(s))
            if abs(s / 2.0 ** e - 1.0) < 1e-12:
                s = 2.0 ** e
            r = (s, d)
        else:
            r = uexpr.evaluate(expr, rnames.resolver())
    except Exception:
        r = None
    _SCALE_CACHE[key] = r
    return r


# ------------------------------------------------------------------------------------------------ leaves
def _is_seq(x):
    return isinstance(x, (tuple, list))


def leaf_kind(x):
    if hasattr(x, "units") and isinstance(x, np.ndarray):
        return "unit"
    if isinstance(x, (np.ndarray, np.generic, bool, int, float, complex)):
        if isinstance(x, np.ndarray) and x.dtype.kind not in "biufc":
            return "opaque"
        return "bare"
    return "opaque"


def flatten(r, path="r", out=None):
    """[(structural path, leaf)]; list elements share the index '*' (homogeneous pieces), tuple elements keep theirs"""
    if out is None:
        out = []
    if isinstance(r, dict):
        for k in sorted(r, key=str):
            flatten(r[k], f"{path}.{k}", out)
    elif _is_seq(r) and leaf_kind(r) == "opaque":
        if hasattr(r, "_fields") or isinstance(r, tuple):
            for i, e in enumerate(r):
                flatten(e, f"{path}[{i}]", out)
        else:
            for e in r:
                flatten(e, f"{path}[*]", out)
    else:
        out.append((path, r))
    return out


def shape_of(r):
    """nesting signature used to compare the structure of the two runs"""
    if isinstance(r, dict):
        return ("dict", tuple((str(k), shape_of(r[k])) for k in sorted(r, key=str)))
    if _is_seq(r):
        return ("seq", tuple(shape_of(e) for e in r))
    k = leaf_kind(r)
    if k == "opaque":
        return ("opaque", type(r).__name__)
    return ("num", np.shape(r))


def _eps(dt):
    dt = np.dtype(dt)
    if dt.kind == "c":
        return float(np.finfo(np.dtype("f%d" % (dt.itemsize // 2))).eps)
    if dt.kind == "f":
        return float(np.finfo(dt).eps)
    return 0.0


def _safe_exp(dt):
    dt = np.dtype(dt)
    if dt.kind == "c":
        dt = np.dtype("f%d" % (dt.itemsize // 2))
    if dt.kind != "f":
        return 1000
    return {2: 8, 4: 90, 8: 900}.get(dt.itemsize, 900)


def _exp_range(a):
    """(min, max) binary exponent of the non-zero finite magnitudes, or None"""
    a = np.abs(np.asarray(a))
    if a.dtype.kind not in "fc":
        a = a.astype("f8")
    m = a[np.isfinite(a) & (a != 0)]
    if m.size == 0:
        return None
    e = np.frexp(m.astype("f8"))[1]
    return int(e.min()), int(e.max())


def _short(a):
    a = np.asarray(a)
    return (repr(a.tolist()) if a.size <= 8 else repr(a.reshape(-1)[:6].tolist()) + "...")[:160]


def _sorted_flat(a):
    a = np.asarray(a).reshape(-1)
    if a.dtype.kind == "c":
        return a[np.lexsort((a.imag, a.real))]
    return np.sort(a)


def compare_leaf(x1, x2, kind, case_eps, unordered=False, floor=0.0, own1=False):
    """rule 1 on one pair of leaves. -> None | ('discard', why) | (failure kind, detail[, relative deviation])
    floor (ordinary units only): largest magnitude among the base run's input numbers - the absolute rounding-noise floor
    own1 (stale families): the scale of the base run's leaf is the one its own Unit object carries (dimension still by vf.ref)"""
    k1, k2 = leaf_kind(x1), leaf_kind(x2)
    if k1 == "opaque" or k2 == "opaque":
        return None if k1 == k2 else ("nesting-or-shape-depends-on-units", f"{type(x1).__name__} vs {type(x2).__name__}")
    if k1 != k2:
        return ("units-present-in-one-unit-system-only", f"{type(x1).__name__}[{getattr(x1, 'units', None)}] vs {type(x2).__name__}[{getattr(x2, 'units', None)}]")
    a1, a2 = np.asarray(x1), np.asarray(x2)
    if a1.shape != a2.shape:
        return ("nesting-or-shape-depends-on-units", f"{a1.shape} vs {a2.shape}")
    if a1.dtype.kind in "OSUVmM" or a2.dtype.kind in "OSUVmM":
        return None
    if unordered:
        a1, a2 = _sorted_flat(a1), _sorted_flat(a2)
    s1 = s2 = 1.0
    if k1 == "unit":
        u1, u2 = str(x1.units), str(x2.units)
        r1, r2 = ref_unit(u1, kind), ref_unit(u2, kind)
        if r1 is None or r2 is None:
            return ("discard", "unit-expression-not-readable:" + (u1 if r1 is None else u2))
        if r1[1] != r2[1]:
            return ("dimension-depends-on-units", f"[{u1}] has {rdims.show(r1[1])}, [{u2}] has {rdims.show(r2[1])}")
        s1, s2 = r1[0], r2[0]
        if own1:
            s1 = own_scale(x1)
            if s1 is None:
                return ("unit-object-without-usable-scale", f"[{u1}] carries base_value {getattr(x1.units, 'base_value', None)!r}")
    what = "unit-not-covariant" if k1 == "unit" else "bare-result-depends-on-units"
    ints = a1.dtype.kind in "biu" and a2.dtype.kind in "biu" and (kind == "dyadic" or k1 == "bare")
    if ints:
        if k1 == "bare":
            eq = bool(np.array_equal(a1, a2))
        else:
            f1, f2 = Fr(s1), Fr(s2)
            eq = all(int(p) * f1 == int(q) * f2 for p, q in zip(a1.reshape(-1).tolist(), a2.reshape(-1).tolist()))
        if eq:
            return None
        if k1 == "unit" and a1.size:
            # the covariant answer must be representable in the other run's integer type, else NumPy wraps around
            m1 = max(abs(int(v)) for v in a1.reshape(-1).tolist())
            m2 = max(abs(int(v)) for v in a2.reshape(-1).tolist())
            if (a2.dtype.kind in "iu" and m1 * f1 / f2 > np.iinfo(a2.dtype).max) or (a1.dtype.kind in "iu" and m2 * f2 / f1 > np.iinfo(a1.dtype).max):
                return ("discard", "integer-range")
        return (what, _detail(x1, x2, a1, a2, s1, s2, k1))
    if kind != "dyadic" and k1 == "unit" and a1.size and (a1.dtype.kind in "iu" or a2.dtype.kind in "iu"):
        # integer results: the covariant answer must be representable in the other run's integer type (NumPy wraps around)
        m1, m2 = float(np.max(np.abs(a1.astype("f8")))), float(np.max(np.abs(a2.astype("f8"))))
        if (a2.dtype.kind in "iu" and m1 * s1 / s2 > np.iinfo(a2.dtype).max) or (a1.dtype.kind in "iu" and m2 * s2 / s1 > np.iinfo(a1.dtype).max):
            return ("discard", "integer-range")
    ct = "c16" if (a1.dtype.kind == "c" or a2.dtype.kind == "c") else "f8"
    with np.errstate(all="ignore"):
        v1 = a1.astype(ct) * s1
        v2 = a2.astype(ct) * s2
    if kind == "dyadic" and np.array_equal(v1, v2, equal_nan=True):
        return None
    with np.errstate(all="ignore"):
        fin1, fin2 = np.isfinite(a1), np.isfinite(a2)
    if kind == "dyadic":
        # exactness of power-of-two rescaling needs every magnitude inside the float type's safe range
        if not np.array_equal(fin1, fin2):
            return ("discard", "float-range")
        for a in (a1, a2):
            er = _exp_range(a)
            lim = _safe_exp(a.dtype if a.dtype.kind in "fc" else "f8")
            if er and (er[1] > lim or er[0] < -lim):
                return ("discard", "float-range")
        # a value that is zero in one run only: underflow, if the re-expressed counterpart lies below the type's safe range
        for (p, sp, q, sq) in ((a1, s1, a2, s2), (a2, s2, a1, s1)):
            z = (q == 0) & (p != 0) & np.isfinite(p)
            if z.any():
                er = _exp_range(np.abs(p[z]).astype("f8") * (sp / sq))
                if er and er[0] < -_safe_exp(q.dtype if q.dtype.kind in "fc" else "f8"):
                    return ("discard", "float-range")
        eps = max(_eps(a1.dtype), _eps(a2.dtype), _eps("f8"))
        tol = 64
    else:
        if not np.array_equal(fin1, fin2):
            return ("discard", "float-range")
        eps = max(_eps(a1.dtype), _eps(a2.dtype), case_eps, _eps("f8"))
        tol = 4096
    with np.errstate(all="ignore"):
        fin = fin1 & fin2
        special = np.array_equal(np.where(fin, 0, v1), np.where(fin, 0, v2), equal_nan=True)
        mag = max(float(np.max(np.abs(v1[fin]))) if fin.any() else 0.0, float(np.max(np.abs(v2[fin]))) if fin.any() else 0.0)
        dev = float(np.max(np.abs(np.where(fin, v1, 0) - np.where(fin, v2, 0)))) if fin.any() else 0.0
        # ordinary units: results far below the magnitude of the inputs are rounding noise of the base run's own numbers
        bound = tol * eps * (mag if kind == "dyadic" else max(mag, floor * abs(s1)))
        close = special and dev <= bound
    rel = dev / mag if mag > 0 else 0.0
    if close:
        return None if kind != "dyadic" else ("not-bit-exact", _detail(x1, x2, a1, a2, s1, s2, k1), rel)
    return (what, _detail(x1, x2, a1, a2, s1, s2, k1), rel if special else 1.0)


def _detail(x1, x2, a1, a2, s1, s2, k):
    if k == "unit":
        extra = ""
        try:
            with np.errstate(all="ignore"):
                r = (np.abs(a2.astype("c16")) * s2) / (np.abs(a1.astype("c16")) * s1)
                r = r[np.isfinite(r) & (r > 0)]
                if r.size:
                    extra = " ; SI ratio variant/base = 2**%.3g" % float(np.median(np.log2(r)))
        except Exception:
            pass
        return f"{_short(a1)} [{x1.units}] vs {_short(a2)} [{x2.units}]{extra}"
    return f"{_short(a1)} vs {_short(a2)} (no units)"


# ------------------------------------------------------------------------------------------------ wrappers
class Unusable(Exception):
    pass


def make_wrap(unyt, reg, assign, factors, zero_d="quantity"):
    units = {}
    for k, v in assign.items():
        units[k] = unyt.Unit(v, registry=reg) if reg is not None else unyt.Unit(v)
    units["1"] = unyt.Unit("", registry=reg) if reg is not None else unyt.Unit("")
    return make_wrap_units(unyt, units, factors, zero_d)


def make_wrap_units(unyt, units, factors, zero_d="quantity"):
    """units: {slot: Unit object} (objects, not strings: a Unit built earlier keeps the definition it was built with)"""
    def wrap(data, dim, q):
        u = units[dim]
        f = factors.get(dim, 1)
        if f != 1:
            k = data.dtype.kind
            if k in "iu":
                if f != int(f) or f < 1:
                    raise Unusable("integer data need an integral factor")
                if int(f) > np.iinfo(data.dtype).max or (data.size and max(abs(int(data.max())), abs(int(data.min()))) * int(f) > np.iinfo(data.dtype).max):
                    raise Unusable("integer range")
                np.multiply(data, data.dtype.type(int(f)), out=data)      # in place: the variant keeps the memory layout of the base run
            elif k in "fc":
                if float(f) != 2.0 ** round(math.log2(f)):      # ordinary ratio: exact only on quarter-valued data of small magnitude
                    nm = np.finfo(data.dtype).nmant
                    parts = (data.real, data.imag) if k == "c" else (data,)
                    for p in parts:
                        if p.size and (not np.array_equal(p * 4, np.round(p * 4)) or float(np.max(np.abs(p))) * f * 4 >= 2.0 ** nm):
                            raise Unusable("inexact rescaling")
                with np.errstate(all="ignore"):
                    fin = np.isfinite(data)
                    np.multiply(data, data.dtype.type(f), out=data)
                    if not np.array_equal(np.isfinite(data), fin):
                        raise Unusable("float range")
            elif k == "b":
                raise Unusable("boolean data cannot be re-expressed")
            else:
                raise Unusable("dtype " + k)
        if data.ndim == 0 and zero_d == "quantity":
            return unyt.unyt_quantity(data, u)
        return unyt.unyt_array(data, u)
    return wrap


def make_mixed_wrap(unyt, reg, assign, alt, zero_d="quantity"):
    """base run of the 'mixed' families: the first operand of every slot keeps the slot's unit, every further operand of that
    slot (fill values, bounds, second arrays ...; not out= buffers, which are relabelled by the call anyway) is written in
    the slot's alternative unit with its numbers rescaled exactly.  The variant run writes everything in the slot's unit."""
    plain = make_wrap(unyt, reg, assign, {}, zero_d)
    seen = {}

    def wrap(data, dim, q):
        if dim not in alt or q.role == "out":
            return plain(data, dim, q)
        n = seen.get(dim, 0)
        seen[dim] = n + 1
        if n == 0:
            return plain(data, dim, q)
        unit_alt, f = alt[dim]
        return make_wrap(unyt, reg, {dim: unit_alt}, {dim: f}, zero_d)(data, dim, q)

    def reset():
        seen.clear()
    wrap.reset = reset
    return wrap


def make_first_other_wrap(first, other):
    """the first operand realised in every slot is wrapped by `first`, every further one (not out= buffers) by `other`"""
    seen = {}

    def wrap(data, dim, q):
        if dim not in ("A", "B") or q.role == "out":
            return first(data, dim, q)
        n = seen.get(dim, 0)
        seen[dim] = n + 1
        return (first if n == 0 else other)(data, dim, q)
    wrap.reset = seen.clear
    return wrap


class StaleSetupFailed(Exception):
    pass


def make_stale_wraps(unyt, base, how, new_k, stale, zero_d="quantity"):
    """-> wrap for the base run of a 'stale' family.  A registry of its own gets the history
    build units -> edit the entries of every atom the slots use -> build the units again; the harness' own table says what
    the two snapshots mean (old: TABLE, new: 2**(12*new_k)); the set-up is verified on the objects before anything is judged."""
    from unyt import dimensions as ud
    sym = {"L": ud.length, "T": ud.time, "M": ud.mass}
    reg2 = dyadic.registry(unyt, TABLE)
    old = {s: unyt.Unit(e, registry=reg2) for s, e in base.items()}
    old["1"] = unyt.Unit("", registry=reg2)
    atoms = sorted({a for e in base.values() for a in TABLE if a in e})
    new_table = dict(TABLE)
    for a in atoms:
        letter = TABLE[a][0]
        new_table[a] = (letter, new_k)
        if how == "modify":
            reg2.modify(a, 2.0 ** (dyadic.STEP * new_k))
        else:
            reg2.remove(a)
            reg2.add(a, 2.0 ** (dyadic.STEP * new_k), sym[letter])
    new = {s: unyt.Unit(e, registry=reg2) for s, e in base.items()}
    new["1"] = old["1"]
    fac = {}
    for s, e in base.items():
        so, sn = dyadic.evaluate(e, TABLE)[0], dyadic.evaluate(e, new_table)[0]
        # the snapshots must be what the history says (else the class is not driven: the gate in extra() then reports it)
        if float(old[s].base_value) != so or float(new[s].base_value) != sn or old[s].registry is not new[s].registry or str(old[s]) != str(new[s]) or so == sn:
            raise StaleSetupFailed(f"{e}: old {old[s].base_value!r} (expected {so!r}), new {new[s].base_value!r} (expected {sn!r})")
        r = Fr(so) / Fr(sn)                       # numbers of an operand written in the new snapshot
        fac[s] = int(r) if r.denominator == 1 else float(r)
    w_old = make_wrap_units(unyt, old, {}, zero_d)
    w_new = make_wrap_units(unyt, new, fac, zero_d)
    return make_first_other_wrap(w_old, w_new) if stale == "first" else make_first_other_wrap(w_new, w_old)


def own_scale(x):
    """scale of the Unit object a result leaf carries, read from the object's own bookkeeping (stale families only: the
    printed symbol is ambiguous there); snapped to the exact power of two like ref_unit; None if it is not a positive number"""
    try:
        s = float(x.units.base_value)
    except Exception:
        return None
    if not (s > 0 and math.isfinite(s)):
        return None
    e = round(math.log2(s))
    if abs(s / 2.0 ** e - 1.0) < 1e-12:
        s = 2.0 ** e
    return s


def family_factors(kind, base, var):
    out = {}
    for slot in base:
        if base[slot] == var[slot]:
            continue
        sb = ref_unit(base[slot], kind)[0]
        sv = ref_unit(var[slot], kind)[0]
        r = Fr(sb) / Fr(sv) if kind == "dyadic" else Fr(sb / sv).limit_denominator(10 ** 9)
        out[slot] = int(r) if r.denominator == 1 else float(r)
    return out


# ------------------------------------------------------------------------------------------------ worker
def form_names(t, call):
    """structural signature of a call form: the optional parameters it passes"""
    if t.form == "base":
        return frozenset()
    if t.form == "pos":
        return frozenset({"positional"})
    if t.kind == "function":
        names = set(meta.bound(t, call, defaults=False))
        try:
            import inspect
            sig = inspect.signature(t.target)
            names = {n for n in names if n in sig.parameters and sig.parameters[n].default is not inspect.Parameter.empty or n not in sig.parameters}
        except (TypeError, ValueError):
            pass
        names.discard("varargs")
    else:
        names = set(call.kwargs)
        if t.form == "pos" or "positional" in t.form:
            names.add("positional")
    if not names:
        names = {t.form.split("#")[0].replace("kw:", "")}
    return frozenset(names)


def dt_class(dt):
    return {"f": "float", "c": "complex", "i": "int", "u": "int", "b": "bool"}[np.dtype(dt).kind]


def _run(t, call, wrap, layout):
    try:
        if hasattr(wrap, "reset"):
            wrap.reset()
        a, k, leaves = call.realize(wrap, layout)
    except Unusable as e:
        return ("unusable", str(e), None, None)
    try:
        raw = t.invoke(a, k)
        r = t.observe(a, k, raw)
    except Exception as e:
        return ("exc", e, leaves, None)
    return ("ok", r, leaves, raw)


def worker(batch, rec):
    import unyt
    bid, payload = batch
    tier, seed = payload["tier"], payload["seed"]
    warnings.simplefilter("ignore")
    np.seterr(all="ignore")
    if payload.get("angle_units"):
        return c07_angle.run(rec, tier, seed)
    quick = tier == "quick"
    fams = FAM_QUICK if quick else FAM_THOROUGH
    dtypes = ("f8", "i8", "c16", "f4") if quick else ("f8", "i8", "c16", "f4", "i4", "c8")
    draws = [("int", 0), ("frac", 1), ("gen", 2), ("zero", 3)] if quick else [(("int", "frac", "gen")[i % 3], i) for i in range(18)] + [("zero", 18)]
    reg = own_registry(unyt)
    wraps = {}
    for name, kind, base, var in fams:
        r = reg if kind == "dyadic" else None
        fac = family_factors(kind, base, var)
        zd = "array" if name.endswith("0d-array") else "quantity"
        wraps[name] = (kind, make_wrap(unyt, r, base, {}, zd), make_wrap(unyt, r, var, fac, zd), base)
    for name, kind, base, alt in (FAM_MIXED_QUICK if quick else FAM_MIXED_THOROUGH):
        r = reg if kind == "dyadic" else None
        for slot, (u_alt, f) in alt.items():      # the declared factor must be what the reference scales say
            if family_factors(kind, {slot: base[slot]}, {slot: u_alt})[slot] != f:
                raise AssertionError(f"{name}: numbers of a {slot} operand written in {u_alt} instead of {base[slot]} are not x{f}")
        wraps[name] = (kind, make_mixed_wrap(unyt, r, base, alt), make_wrap(unyt, r, base, {}), base)
    for name, kind, base, var in (FAM_PARTIAL_QUICK if quick else FAM_PARTIAL_THOROUGH):
        r = reg if kind == "dyadic" else None
        if ref_unit(base["A"], kind)[1] != ref_unit(base["B"], kind)[1] or ref_unit(base["A"], kind)[0] == ref_unit(base["B"], kind)[0]:
            raise AssertionError(f"{name}: slots must be commensurable and of different size")
        zd = "array" if name.endswith("0d-array") else "quantity"
        wraps[name] = (kind, make_wrap(unyt, r, base, {}, zd), make_wrap(unyt, r, var, family_factors(kind, base, var), zd), base)
    for name, kind, base, how, new_k, stale in (FAM_STALE_QUICK if quick else FAM_STALE_THOROUGH):
        zd = "array" if name.endswith("0d-array") else "quantity"
        try:
            wraps[name] = (kind, make_stale_wraps(unyt, base, how, new_k, stale, zd), make_wrap(unyt, reg, base, {}, zd), base)
            rec.count("stale-families-set-up")
        except StaleSetupFailed as e:
            # the history did not produce two snapshots of different size: the class cannot be driven (registry edits are C12's
            # subject); nothing is judged for this family and the gate in extra() reports the missing evaluations
            rec.count("stale-family-set-up-failed")
            rec.note(f"stale-family-set-up-failed:{name}:{e}")
    bf = nc.by_function()
    for fname in payload["funcs"]:
        fails = {}     # (failure kind, where) -> [entry]
        for t in bf[fname]:
            run_template(t, rec, seed, dtypes, draws, wraps, fails)
        emit(fname, fails, rec)


def run_template(t, rec, seed, dtypes, draws, wraps, fails):
    for shape in t.shapes:
        for dt in dtypes:
            for flavor, rep in draws:
                if flavor not in ("int", "zero") and np.dtype(dt).kind not in "fc":
                    continue
                if flavor == "zero" and t.func_name in meta.ZERO_DRAW_EXEMPT:
                    continue
                g = nc.Gen(core.rng(seed, t.tid, shape, dt, rep), dt, shape, "int" if flavor == "zero" else flavor)
                try:
                    call = t.build(g)
                    if flavor == "zero":        # the all-zero input class (zero is the same quantity in every unit; unyt special-cases it)
                        for _, q in call.leaves():
                            if q.dim in ("A", "B") and q.role != "out":
                                q.data = np.zeros_like(q.data)
                except nc.Skip:
                    continue
                except Exception as e:
                    rec.count("discarded:builder-error")
                    rec.note(f"builder-error:{t.tid}:{type(e).__name__}")
                    continue
                layout = g.rng.choice(LAYOUT_DRAW)
                ba, bk, bl = call.realize(nc.bare_wrap, layout)
                try:
                    t.observe(ba, bk, t.invoke(ba, bk))
                except Exception:
                    rec.count("discarded:numpy-refuses")
                    continue
                slots = {q.dim for _, q, _ in bl if not q.bare}
                if not (slots & {"A", "B"}):
                    rec.count("discarded:no-rescalable-operand")
                    continue
                skip1, skip2 = meta.classify(t, call)
                for fam, (kind, w1, w2, base) in wraps.items():
                    if kind == "ordinary" and flavor == "gen":
                        continue
                    if "-partial" in fam and not {"A", "B"} <= slots:
                        continue        # no operand pair whose units cancel partly
                    if fam.startswith("ord-mixed") and not ("product" in t.tags and t.func_name not in meta.FLOOR_FAMILY):
                        continue        # additive / comparing calls convert one operand inexactly inside unyt: not decidable with a tolerance
                    judge_case(t, call, layout, shape, dt, fam, kind, w1, w2, base, slots, rec, fails, skip1, skip2)


def judge_case(t, call, layout, shape, dt, fam, kind, w1, w2, base, slots, rec, fails, skip1, skip2):
    tags = t.tags
    stale = fam.startswith("dy-stale")
    mixed = "-mixed" in fam or stale          # both: one slot written in two units in the base run
    partial = "-partial" in fam               # slots A and B commensurable, in units that cancel only partly
    compound_mixed = mixed and not stale and fam not in PLAIN_MIXED      # mixed family with fractional-power / alias slot units
    mtag = "stale-units" if stale else "mixed-units"
    if stale:
        per_slot = {}
        for _, q in call.leaves():
            if q.dim in ("A", "B") and not q.bare and q.role != "out":
                per_slot[q.dim] = per_slot.get(q.dim, 0) + 1
        if not any(n >= 2 for n in per_slot.values()):
            return          # no slot has two unit-carrying operands: no snapshot pair meets
    if mixed and sum(1 for _, q in call.leaves() if q.dim in ("A", "B") and not q.bare and q.role != "out") < 2:
        return          # nothing to mix: one unit-carrying operand only
    o1 = _run(t, call, w1, layout)
    o2 = _run(t, call, w2, layout)
    if mixed and o1[0] == "exc" and o2[0] == "ok":
        # operands of one dimension written in two different units: a refusal is not a covariance failure
        rec.count(mtag + "-refused")
        rec.note(f"{mtag}-refused:{t.func_name}")
        if stale:
            rec.reach("stale-refused:" + t.func_name)
        return
    if partial and o1[0] == "exc" and o2[0] == "ok":
        # the base run of a partial family is a mixed-unit call too (operands of one dimension in two units): a refusal is accepted
        rec.count("partial-units-refused")
        rec.note(f"partial-units-refused:{t.func_name}:{type(o1[1]).__name__}")
        return
    if mixed and t.func_name in ("numpy.array_equal", "numpy.array_equiv"):
        rec.count(mtag + "-not-judged:equal-units-required-by-definition")     # C19: these also require equal units
        return
    if mixed:
        rec.count(mtag + "-pairs-run")
    if compound_mixed:
        rec.count("compound-mixed-units-pairs-run:" + _what(t))
    if partial:
        rec.count("partial-units-pairs-run:" + _what(t))
    if stale:
        rec.reach("stale-cmp:" + t.func_name)
        rec.count("stale-units-pairs-run:" + ("ufunc" if t.func_name.startswith("numpy.") and isinstance(t.target, np.ufunc) else
                                              "composition" if t.func_name.startswith("c07.") else t.kind))
    if o1[0] == "unusable" or o2[0] == "unusable":
        rec.count("discarded:rescaling-not-exact-in-this-dtype")
        return

    def fail(fkind, where, detail):
        if "unsupported" in tags:          # the mechanism is that the declared-unsupported function ran at all, not the leaf
            where = where.split("[")[0]
        fails.setdefault((fkind, where), []).append({
            "base": t.form == "base", "names": form_names(t, call), "dt": dt_class(dt), "ukind": "dyadic-stale" if stale else "dyadic-mixed" if mixed else "dyadic-partial" if partial else kind,
            "desc": f"{t.tid} [{shape},{dt},{fam}] {where}: {detail}",
            "case": {"template": t.tid, "shape": shape, "dtype": dt, "family": fam, "args": call.args, "kwargs": call.kwargs,
                     "where": where, "detail": detail}})
        rec.count("violating-evaluations")

    if o1[0] == "exc" and o2[0] == "exc":
        rec.ok(None)
        rec.count("refused-in-both")
        rec.reach("ref:" + t.func_name)
        return
    if o1[0] != o2[0]:
        if skip1:
            rec.note(f"not-judged:{skip1}:refusal-depends-on-units:{t.func_name}")
            return
        e = o1[1] if o1[0] == "exc" else o2[1]
        fail("refusal-depends-on-units", "call", f"raises {type(e).__name__}: {str(e)[:120]} in the {'base' if o1[0] == 'exc' else 'variant'} units only")
        return
    r1, r2 = o1[1], o2[1]
    rec.reach("cmp:" + t.func_name)
    rec.count("pairs-run:" + t.kind)
    rec.count("pairs-run:" + kind)
    case_eps = _eps(dt)
    rule2_failed = set()
    bare_outs = {id(x) for _, q, x in (o1[2] + o2[2]) if q.bare and q.role == "out"}
    unit_outs = {id(x) for _, q, x in (o1[2] + o2[2]) if not q.bare and q.role == "out"}

    # ---- rule 2: a same-dimension result keeps units commensurable with an input
    if ("same-dimension" in tags or "prototype" in tags) and skip2:
        rec.count("rule2-not-judged:" + skip2)
    elif "same-dimension" in tags or "prototype" in tags:
        indims = {ref_unit(base[s], kind)[1] for s in slots & {"A", "B"}}
        judged = bad2 = 0
        for i, (p, x) in enumerate(flatten(o1[3])):
            k = leaf_kind(x)
            where = "result" + p[1:]
            if k == "opaque" or id(x) in bare_outs or (t.func_name, where) in meta.RULE2_EXEMPT_LEAVES:
                continue
            if k == "unit":
                ru = ref_unit(str(x.units), kind)
                judged += 1
                rec.count("rule2-evaluations")
                if ru is None:
                    rec.note("unit-expression-not-readable")
                elif ru[1] not in indims:
                    fail("result-not-commensurable-with-input", where, f"result in [{x.units}] ({rdims.show(ru[1])}), inputs have {sorted(rdims.show(d) for d in indims)}")
                    bad2 += 1
                    rule2_failed.add(where)
                continue
            a = np.asarray(x)
            if i > 0 and a.dtype.kind in "biu":
                rec.count("rule2-index-like-leaf-accepted" if np.dtype(dt).kind in "fc" else "rule2-integer-leaf-not-judged")
                continue
            judged += 1
            rec.count("rule2-evaluations")
            fail("result-without-units", where, f"{type(x).__name__} {_short(a)} returned for inputs in {sorted(base[s] for s in slots & {'A', 'B'})}")
            bad2 += 1
            rule2_failed.add(where)
        if judged and not bad2:
            rec.ok((t.tid, shape, dt, fam, "rule2"))

    # ---- rule 1: covariance
    if tags & {"opaque", "file"}:
        rec.count("rule1-not-judged:opaque-result")
        return
    if "prototype" in tags or "uninitialized" in tags and t.func_name == "numpy.empty_like":
        rec.count("rule1-not-judged:prototype-values")
        return
    if skip1 in ("explicit-conversion-to-plain-object", "subok=False", "view-as-base-class", "quantity-in-index-position", "operand-passed-bare"):
        rec.count("rule1-not-judged:" + skip1)
        return
    pairs = []
    if shape_of(r1) != shape_of(r2):
        if skip1:
            rec.note(f"not-judged:{skip1}:{t.func_name}")
        else:
            fail("nesting-or-shape-depends-on-units", "result", f"{shape_of(r1)} vs {shape_of(r2)}"[:300])
        return
    seen = set()
    for (p, x), (_, y) in zip(flatten(r1), flatten(r2)):
        if id(x) in bare_outs:
            rec.count("rule1-not-judged:bare-out-buffer-returned")
            continue
        seen.add(id(x))
        pairs.append(("result" + p[1:], x, y))
    if tags & {"out", "mutator"}:
        n = 0
        for (p, q, x), (_, _, y) in zip(o1[2], o2[2]):
            if q.bare:
                continue         # a bare buffer/operand carries no unit: its numbers are meaningful only through the returned object
            if q.role == "out":
                if id(x) not in seen:        # the returned object *is* the buffer: judged once, as the result
                    pairs.append(("out-buffer", x, y))
            elif "mutator" in tags:
                if id(x) not in seen:
                    pairs.append(("operand#%d" % n, x, y))
            n += 1
    bad = 0
    floor = 0.0
    if kind != "dyadic":
        for _, q, x in o1[2]:
            a = np.asarray(x)
            if not q.bare and a.size and a.dtype.kind in "iufc":
                with np.errstate(all="ignore"):
                    m = np.abs(a.astype("c16" if a.dtype.kind == "c" else "f8"))
                    m = m[np.isfinite(m)]
                    floor = max(floor, float(m.max()) if m.size else 0.0)
    numpy_dev = [None]
    unordered = t.func_name in meta.ORDER_UNSPECIFIED
    for where, x, y in pairs:
        if kind != "dyadic" and (t.func_name, where) in meta.SIGN_AMBIGUOUS_LEAVES:
            rec.count("rule1-not-judged:sign-or-order-ambiguous-leaf-with-inexact-rescaling")
            continue
        d = compare_leaf(x, y, kind, case_eps, unordered, floor, own1=stale)
        sub = "out-buffer" if where == "out-buffer" else "operand" if where.startswith("operand") else "result"
        if d is None:
            rec.count(f"rule1-{sub}-leaves-compared")
            rec.count(f"rule1-{leaf_kind(x)}-leaves:{kind}")
            if stale:
                rec.count(f"stale-units-{leaf_kind(x)}-leaves-compared")
            if compound_mixed:
                rec.count(f"compound-mixed-units-{leaf_kind(x)}-leaves-compared")
            if partial:
                rec.count(f"partial-units-{leaf_kind(x)}-leaves-compared")
            continue
        if d[0] == "discard":
            rec.count("discarded:" + d[1].split(":")[0])
            continue
        if skip1:
            rec.note(f"not-judged:{skip1}:{t.func_name}")
            continue
        if where in rule2_failed:
            rec.count("rule1-consequence-of-a-rule2-failure-not-repeated")     # a leaf that lost its units cannot be covariant
            continue
        leps = max(case_eps, _eps("f8"), _eps(np.asarray(x).dtype), _eps(np.asarray(y).dtype))
        if kind == "dyadic" and len(d) > 2 and d[2] <= 1024 * leps:
            # a rounding-sized difference: is NumPy itself, on the bare numbers of the two runs, exactly homogeneous?
            if numpy_dev[0] is None:
                numpy_dev[0] = _numpy_inexactness(t, call, layout, w1, w2)
            nd = numpy_dev[0]
            if 0 < nd <= 1024 * leps and d[2] <= 4 * nd + 64 * leps:
                rec.count("rule1-held-within-numpy's-own-rounding:numpy-itself-not-bit-exact-under-power-of-two-rescaling")
                rec.note("numpy-itself-not-bit-exact:" + t.func_name)
                rec.count(f"rule1-{sub}-leaves-compared")
                continue
        if mixed and d[0] == "not-bit-exact":
            # unyt has to convert the operand written in the other unit: the result may come back in another float width
            # (float32 data, float64 conversion) - a rounding-sized difference is C17's subject, not a covariance failure
            rec.count(mtag + "-held-within-rounding")
            rec.count(f"rule1-{sub}-leaves-compared")
            continue
        if d[0] == "not-bit-exact" and np.asarray(x).dtype.itemsize != np.asarray(y).dtype.itemsize:
            # the coefficient / residue of a (partial) cancellation is applied as a float64 factor: float32 data come back wider in
            # the run whose units do not cancel completely; a rounding-sized difference between results of different float width
            # is C17's subject
            rec.count("rule1-held-within-rounding:float-width-of-the-result-differs")
            rec.note("float-width-of-the-result-depends-on-units:" + t.func_name)
            rec.count(f"rule1-{sub}-leaves-compared")
            continue
        if np.dtype(dt).kind in "iu" and _integer_artifact(t, call, layout, w1, w2):
            rec.count("discarded:integer-rounding-or-wrap-around-in-numpy")
            continue
        rec.count(f"rule1-{sub}-leaves-compared")
        fail(d[0], where, d[1])
        bad += 1
    if pairs and not bad and not skip1:
        rec.ok((t.tid, shape, dt, fam, "rule1"))
        if fam == "dy-both":
            rec.sample({"template": t.tid, "shape": shape, "dtype": dt, "base": _show(r1), "variant": _show(r2)}, limit=2)


def _reset(w):
    if hasattr(w, "reset"):
        w.reset()


def _show(r):
    out = []
    for p, x in flatten(r)[:3]:
        if leaf_kind(x) == "opaque":
            out.append(type(x).__name__)
        else:
            out.append(_short(np.asarray(x)) + (" [%s]" % x.units if leaf_kind(x) == "unit" else ""))
    return out


def _integer_artifact(t, call, layout, w1, w2):
    """does NumPy itself, on the bare integer data of either run, disagree with the same numbers held as float64?
    (integer wrap-around, integer rounding of means/quotients: NumPy's integer arithmetic, not unyt's units).
    Only the rescaled operands (slots A, B) are turned into floats; index-like slot-1 operands stay as they are."""
    for w in (w1, w2):
        try:
            _reset(w)
            a, k, _ = call.realize(lambda d, dim, q: np.asarray(w(d, dim, q)), layout)
            ri = t.observe(a, k, t.invoke(a, k))
        except Exception:
            return True
        try:
            _reset(w)
            a, k, _ = call.realize(lambda d, dim, q: np.asarray(w(d, dim, q)).astype("f8") if dim in ("A", "B") and d.dtype.kind in "iu" else np.asarray(w(d, dim, q)), layout)
            rf = t.observe(a, k, t.invoke(a, k))
        except Exception:
            return False        # no float counterpart of this call: nothing shows an integer artefact
        li = [np.asarray(x) for _, x in flatten(ri) if leaf_kind(x) != "opaque"]
        lf = [np.asarray(x) for _, x in flatten(rf) if leaf_kind(x) != "opaque"]
        if len(li) != len(lf):
            return True
        for x, y in zip(li, lf):
            if x.shape != y.shape:
                return True
            with np.errstate(all="ignore"):
                m = max(float(np.max(np.abs(y))) if y.size else 0.0, 1.0)
                if not np.all(np.abs(x.astype(y.dtype if y.dtype.kind == "c" else "f8") - y) <= 1e-9 * m):
                    return True
    return False


def _numpy_inexactness(t, call, layout, w1, w2):
    """largest relative deviation of NumPy's own results, on the bare numbers of the two runs, from exact homogeneity
    (variant = base x one power of two per leaf); 0.0 when NumPy is bit-exactly homogeneous or the question cannot be asked.
    A non-zero value of rounding size means a last-bit difference between the runs is NumPy's
    (det = sign*exp(logdet), pow, log, exp ...)"""
    try:
        res = []
        for w in (w1, w2):
            _reset(w)
            a, k, _ = call.realize(lambda d, dim, q: np.asarray(w(d, dim, q)), layout)
            res.append([np.asarray(x) for _, x in flatten(t.observe(a, k, t.invoke(a, k))) if leaf_kind(x) != "opaque"])
    except Exception:
        return 0.0
    if len(res[0]) != len(res[1]):
        return 0.0
    worst = 0.0
    for b1, b2 in zip(*res):
        if b1.shape != b2.shape or b1.dtype.kind not in "fc":
            continue
        with np.errstate(all="ignore"):
            m1, m2 = np.abs(b1), np.abs(b2)
            ok = np.isfinite(m1) & np.isfinite(m2) & (m1 > 0) & (m2 > 0)
            if not ok.any():
                continue
            i = np.argmax(np.where(ok, m1, 0))
            k = round(math.log2(float(m2.reshape(-1)[i]) / float(m1.reshape(-1)[i])))
            ct = "c16" if b1.dtype.kind == "c" else "f8"
            v1, v2 = b1.astype(ct) * 2.0 ** k, b2.astype(ct)
            fin = np.isfinite(v1) & np.isfinite(v2)
            if not fin.any():
                continue
            mag = float(np.max(np.abs(v2[fin])))
            if mag > 0:
                worst = max(worst, float(np.max(np.abs(v1[fin] - v2[fin]))) / mag)
    return worst


def emit(fname, fails, rec):
    """turn the failures of one function into mechanism keys.  The key names function, failure kind and place (result leaf /
    out= buffer / operand); it is generic when the plain call form shows the failure; otherwise it names the minimal sets of
    optional parameters whose forms fail (one key per set), or "(options)" when more than two independent parameters do;
    a data-type class / 'ordinary-units' suffix is added when float data / the dyadic pool do not show it"""
    for (fkind, where), entries in sorted(fails.items()):
        if any(e["base"] for e in entries):
            groups = {"": entries}
        else:
            sets = {e["names"] for e in entries}
            if any("positional" not in s for s in sets):         # all-positional forms repeat the keyword forms
                sets = {s for s in sets if "positional" not in s}
            minimal = sorted((s for s in sets if not any(o < s for o in sets)), key=sorted)
            if len(minimal) > 2:
                groups = {"(options)": entries}
            else:
                groups = {}
                for e in entries:
                    for m in minimal:
                        if m <= e["names"]:
                            groups.setdefault("(" + ",".join(sorted(m)) + ")", []).append(e)
                            break
        for fq, es in sorted(groups.items()):
            dcs = {e["dt"] for e in es}
            dq = "" if "float" in dcs else (":" + sorted(dcs)[0] if len(dcs) == 1 else ":non-float")
            uks = {e["ukind"] for e in es}
            uq = ("" if "dyadic" in uks else ":mixed-units" if "dyadic-mixed" in uks else ":commensurable-slots" if "dyadic-partial" in uks
                  else ":stale-units" if "dyadic-stale" in uks else ":ordinary-units")
            key = f"C07:{fname}{fq}:{fkind}:{where}{dq}{uq}"
            for e in sorted(es, key=lambda e: (not e["base"], e["dt"] != "float", ",f8," not in e["desc"], e["desc"])):
                rec.violation(key, e["desc"], e["case"])


# ------------------------------------------------------------------------------------------------ evidence
def extra(tier, seed, results):
    reached = set()
    counters = {}
    for _, r in results:
        reached.update(r.get("reached", []))
        for k, v in r.get("counters", {}).items():
            counters[k] = counters.get(k, 0) + v
    funcs = sorted(nc.by_function())
    cmp_ = {f for f in funcs if "cmp:" + f in reached}
    refused = {f for f in funcs if "ref:" + f in reached}
    deciding = {
        "rule 1, unit-carrying leaves compared bit-for-bit (dyadic pool)": counters.get("rule1-unit-leaves:dyadic", 0),
        "rule 1, bare leaves compared (dyadic pool)": counters.get("rule1-bare-leaves:dyadic", 0),
        "rule 1, out= buffers compared": counters.get("rule1-out-buffer-leaves-compared", 0),
        "rule 1, operands of mutators compared": counters.get("rule1-operand-leaves-compared", 0),
        "rule 2, result-keeps-units evaluations": counters.get("rule2-evaluations", 0),
        "pairs of runs, array functions": counters.get("pairs-run:function", 0),
        "pairs of runs, ndarray methods": counters.get("pairs-run:method", 0),
        "pairs of runs, operators/protocols": counters.get("pairs-run:op", 0),
        "pairs of runs with one slot written in two units (mixed families)": counters.get("mixed-units-pairs-run", 0),
    }
    for what in ("ufunc", "op", "composition", "function", "method"):
        deciding[f"pairs of runs with an operand carrying a stale snapshot of the other operand's unit (stale families), {what}"] = counters.get("stale-units-pairs-run:" + what, 0)
    deciding["stale families, unit-carrying leaves compared by the scale their own Unit object carries"] = counters.get("stale-units-unit-leaves-compared", 0)
    deciding["stale families, bare leaves compared"] = counters.get("stale-units-bare-leaves-compared", 0)
    for what in WHATS:
        deciding[f"pairs of runs with one slot written in two sizes of a fractional-power / alias compound unit (compound mixed families), {what}"] = counters.get("compound-mixed-units-pairs-run:" + what, 0)
        deciding[f"pairs of runs with commensurable slots in units that cancel only partly (partial families), {what}"] = counters.get("partial-units-pairs-run:" + what, 0)
    for fk in ("compound-mixed", "partial"):
        for lk in ("unit", "bare"):
            deciding[f"{fk} families, {lk} leaves compared"] = counters.get(f"{fk}-units-{lk}-leaves-compared", 0)
    deciding["angle units: calls of sin/cos/tan answered on angles written in a non-radian unit, compared with NumPy on the radian magnitudes"] = counters.get("angle-units-reference-comparisons", 0)
    for cls in c07_angle.CLASSES[1:]:
        deciding[f"angle units: bare results compared with the same angles written in radian, unit class {cls}"] = counters.get("angle-units-covariance-comparisons:" + cls, 0)
    for door in c07_angle.DOORS[:-1]:          # ufunc.at is refused by unyt for every unit incl. radian (counted below), not gated
        deciding[f"angle units: calls answered through door {door}"] = counters.get("angle-units-door:" + door, 0)
    for sh in ("0d-quantity", "0d-array", "1d", "2d", "1d/strided", "2d/strided", "2d/T", "1d/reversed"):
        deciding[f"angle units: calls answered on {sh} data"] = counters.get("angle-units-shape:" + sh, 0)
    if tier != "quick":
        deciding["rule 1, unit-carrying leaves compared within tolerance (ordinary units)"] = counters.get("rule1-unit-leaves:ordinary", 0)
    ok_batches = [r for _, r in results if r.get("status") == "ok"]
    if ok_batches and len(ok_batches) == len(results):
        for name, v in deciding.items():
            if v == 0:
                raise core.Inconclusive(f"sub-monitor-saw-nothing:{name}")
        if len(cmp_) < 0.6 * len(funcs):
            raise core.Inconclusive(f"only {len(cmp_)} of {len(funcs)} catalogued functions produced a comparable pair of runs")
    return {
        "sub_monitors": deciding,
        "stale_families": {"set_up": counters.get("stale-families-set-up", 0), "set_up_failed": counters.get("stale-family-set-up-failed", 0),
                           "pairs_run": counters.get("stale-units-pairs-run", 0), "refused_in_the_stale_run_only": counters.get("stale-units-refused", 0),
                           "functions_with_a_compared_stale_pair": sorted(f for f in funcs if "stale-cmp:" + f in reached),
                           "functions_refusing_stale_pairs_only": sorted(f for f in funcs if "stale-refused:" + f in reached and "stale-cmp:" + f not in reached)},
        "angle_units": {k: v for k, v in sorted(counters.items()) if k.startswith("angle-units")},
        "catalogue": {"templates": len(nc.catalog()), "functions_and_methods": len(funcs), "functions_with_a_compared_pair": len(cmp_)},
        "unreached": {"wrappable_without_template": nc.without_template(),
                      "never_compared": sorted(set(funcs) - cmp_ - refused),
                      "refused_only": sorted(refused - cmp_)},
        "classification_tables": {"explicit_conversions_not_judged": sorted(meta.EXPLICIT_BARE), "unit_relative_functions_rule2_only": sorted(meta.UNIT_RELATIVE),
                                  "unit_position_parameters": sorted(meta.UNIT_POSITION_PARAMS), "index_position_forms": sorted("/".join(x) for x in meta.INDEX_POSITION_FORMS),
                                  "rule2_exempt": sorted(meta.RULE2_EXEMPT_FUNCS) + sorted("/".join(x) for x in meta.RULE2_EXEMPT_FORMS) + sorted("/".join(x) for x in meta.RULE2_EXEMPT_LEAVES),
                                  "own_templates": sorted(t.tid for t in nc.catalog() if "/c07:" in t.tid)},
        "not_judged_counters": {k: v for k, v in sorted(counters.items()) if "not-judged" in k or k.startswith("discarded:")},
    }
