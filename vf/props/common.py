"""helpers shared by the property drivers"""
import math
import numpy as np
from vf.ref import dims, defs, names

TAINTED = {"Tsun", "Mearth", "ly", "mp"}   # symbols whose table value is a listed C02 finding


def all_names():
    from unyt._unit_lookup_table import name_alternatives
    out = []
    for k, v in name_alternatives.items():
        out.extend(v)
    return out


def chunks(seq, n):
    seq = list(seq)
    k = max(1, math.ceil(len(seq) / n))
    return [seq[i:i + k] for i in range(0, len(seq), k)]


def udim(u):
    return dims.of_expr(u.dimensions)


def close(a, b, rel, abs_=0.0):
    a = np.asarray(a); b = np.asarray(b)
    if a.shape != b.shape:
        return False
    with np.errstate(all="ignore"):
        both_nan = np.isnan(a) & np.isnan(b)
        ok = np.abs(a - b) <= rel * np.maximum(np.abs(a), np.abs(b)) + abs_
        ok = ok | both_nan | (a == b)
    return bool(np.all(ok))


def bits_equal(a, b):
    a = np.asarray(a); b = np.asarray(b)
    if a.shape != b.shape or a.dtype != b.dtype:
        return False
    return a.tobytes() == b.tobytes() or bool(np.array_equal(a, b, equal_nan=True) and np.array_equal(np.signbit(a) if a.dtype.kind == "f" else a, np.signbit(b) if b.dtype.kind == "f" else b))


def snap(x):
    """snapshot of an operand: (bytes, dtype, shape, unit string, base_value, dimvec)"""
    if isinstance(x, np.ndarray):
        u = getattr(x, "units", None)
        return ("arr", np.asarray(x).tobytes(), str(x.dtype), x.shape,
                None if u is None else (str(u.expr), u.base_value, u.base_offset, udim(u)))
    if hasattr(x, "is_Unit"):
        return ("unit", str(x.expr), x.base_value, x.base_offset, udim(x))
    if isinstance(x, (list, tuple)):
        return ("seq", tuple(snap(e) for e in x))
    return ("py", repr(x))


def exc_name(e):
    return type(e).__name__
