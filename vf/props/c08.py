"""C08 - offset temperature scales: point/difference semantics or refusal (oracle: affine arithmetic in kelvin)."""
import itertools
import numpy as np
from vf import core
from vf.ref import defs, names
from .common import chunks

RULE = ("exhaustive over ordered pairs of temperature units (6 base spellings + delta units + SI-prefixed K/degC/delta_degC: quick m,k; "
        "thorough all prefixes) x additive forms {+,-,np.add,np.subtract,in-place,out=} x 6 readings, judged by affine arithmetic in "
        "kelvin (points via the affine map, differences via the scale); conversions among all of them against the exact affine map; "
        "multiplicative/power/reduction set on every offset-scale unit must raise; diff/ediff1d/ptp/gradient per unit. "
        "distinct = (operation form, unit1, unit2) tuples")
ASSUMPTIONS = ("vf/ref/defs.py affine parameters (degC: K = v + 273.15; degF: K = 5/9 (v + 459.67); prefixed degC keep the zero point)",
               "point+point, difference-point and comparisons are not in the statement: recorded, not judged")
MIN_EVALS = 2000
TIMEOUT = 900
READINGS = [0.0, 10.0, -40.0, 36.6, 451.0, -273.15, 0.5]


def aff(name):
    f, s, _ = names.resolve(name)
    de = defs.T[s]
    a = de.value * f
    return (a, -de.value * de.offset) if de.offset else (a, 0.0)


def fam(name):
    f, s, _ = names.resolve(name)
    return s if f == 1.0 else "p-" + s


def kind(name):
    return "point" if aff(name)[1] != 0.0 else "diff"


def units(tier):
    pre = ["m", "k"] if tier == "quick" else ["Y", "G", "M", "k", "h", "da", "d", "c", "m", "u", "n", "p", "y"]
    us = ["K", "R", "degC", "degF", "delta_degC", "delta_degF"]
    for p in pre:
        us += [p + "K", p + "degC", p + "delta_degC"]
    return us


def batches(tier, seed):
    us = units(tier)
    pairs = list(itertools.product(us, us))
    nrand = 8 if tier == "quick" else 40
    b = [("additive/%d" % i, ("additive", (c, seed, nrand))) for i, c in enumerate(chunks(pairs, 16))]
    b += [("convert/%d" % i, ("convert", c)) for i, c in enumerate(chunks(pairs, 16))]
    b += [("mustraise", ("mustraise", [u for u in us if kind(u) == "point"])), ("reductions", ("reductions", us))]
    return b


def tol(*terms):
    return 16 * 2.3e-16 * sum(abs(t) for t in terms) + 1e-300


def expected(u1, u2, x, y, op, U):
    """expected reading of the result labelled U, or None when the statement does not judge the combination"""
    k1, k2 = kind(u1), kind(u2)
    a1, b1 = aff(u1); a2, b2 = aff(u2); aU, bU = aff(U)
    sgn = 1 if op == "+" else -1
    if k1 == "point" and k2 == "diff":
        K = (a1 * x + b1) + sgn * a2 * y; sem = "point"
    elif k1 == "diff" and k2 == "point" and op == "+":
        K = a1 * x + (a2 * y + b2); sem = "point"
    elif k1 == "diff" and k2 == "diff":
        K = a1 * x + sgn * a2 * y; sem = "diff"
    elif k1 == "point" and k2 == "point" and op == "-":
        K = (a1 * x + b1) - (a2 * y + b2); sem = "diff"
    else:
        return None
    if sem == "point" and bU != 0.0:
        val = (K - bU) / aU
    else:
        val = K / aU
    return val, sem, tol(a1 * x / aU, a2 * y / aU, b1 / aU, b2 / aU, bU / aU)


FORMS = {
    "operator": lambda np_, a, b, op: (a + b) if op == "+" else (a - b),
    "ufunc": lambda np_, a, b, op: np_.add(a, b) if op == "+" else np_.subtract(a, b),
}


def run_form(unyt, form, u1, u2, x, y, op):
    a = unyt.unyt_array(np.array([x, x]), u1)
    b = unyt.unyt_array(np.array([y, y]), u2)
    if form == "operator":
        r = (a + b) if op == "+" else (a - b)
    elif form == "ufunc":
        r = np.add(a, b) if op == "+" else np.subtract(a, b)
    elif form == "inplace":
        r = a.copy()
        if op == "+":
            r += b
        else:
            r -= b
    elif form == "out":
        buf = unyt.unyt_array(np.zeros(2), u1)
        r = np.add(a, b, out=buf) if op == "+" else np.subtract(a, b, out=buf)
        if r is not buf and not np.shares_memory(r, buf):
            pass
        r = buf
    elif form == "scalar":
        qa = unyt.unyt_quantity(x, u1); qb = unyt.unyt_quantity(y, u2)
        r = (qa + qb) if op == "+" else (qa - qb)
        return np.array([float(r.d)]), r.units
    return np.asarray(r.d), r.units


def worker(batch, rec):
    import unyt
    from unyt import Unit
    bid, (kind_, payload) = batch
    if kind_ == "additive":
        payload, seed, nrand = payload
        r = core.rng(seed, bid)
        extra = [(r.choice([-1, 1]) * 10 ** r.uniform(-3, 5), r.choice([-1, 1]) * 10 ** r.uniform(-3, 5)) for _ in range(nrand)]
        for (u1, u2) in payload:
            k1, k2 = kind(u1), kind(u2)
            for op in "+-":
                for form in ("operator", "ufunc", "inplace", "out", "scalar"):
                    for (x, y) in ((10.0, 4.0), (-40.0, 36.6), (0.0, 451.0), (0.5, -273.15)) + tuple(extra):
                        case = {"u1": u1, "u2": u2, "x": x, "y": y, "op": op, "form": form}
                        try:
                            vals, U = run_form(unyt, form, u1, u2, x, y, op)
                            raised = None
                        except Exception as e:
                            raised = type(e).__name__
                        two_offset_scales = (k1 == "point" and k2 == "point" and Unit(u1) != Unit(u2))
                        key_f = f"{fam(u1)}{op}{fam(u2)}"
                        if two_offset_scales:
                            if raised is None:
                                rec.violation(f"C08:two-offset-scales-combined:{key_f}", f"{x} {u1} {op} {y} {u2} ({form}) returned {vals.tolist()} {U}; two different offset scales must be refused", case)
                            else:
                                rec.ok(("refused-2offset", form, u1, op, u2))
                            continue
                        if raised is not None:
                            rec.note(f"refused:{k1}{op}{k2}")
                            rec.ok(("refusal", form, u1, op, u2))
                            continue
                        Uname = str(U.expr)
                        if names.resolve(Uname) is None or defs.T[names.resolve(Uname)[1]].dim != defs.T["K"].dim:
                            rec.violation(f"C08:result-unit-not-temperature:{key_f}", f"{u1}{op}{u2} -> unit {U}", case); continue
                        ex = expected(u1, u2, x, y, op, Uname)
                        if ex is None:
                            rec.note(f"not-judged:{k1}{op}{k2}")
                            continue
                        val, sem, t = ex
                        if not np.all(np.abs(vals - val) <= t):
                            rec.violation(f"C08:affine-value:{key_f}", f"{x} {u1} {op} {y} {u2} ({form}) = {vals.tolist()} {U}; affine arithmetic gives {val!r} {Uname} ({sem})", case)
                        else:
                            rec.ok(("additive", form, u1, op, u2))
        rec.sample({"pair": list(payload[0]), "forms": ["operator", "ufunc", "inplace", "out", "scalar"]})
    elif kind_ == "convert":
        IREAD = [0, 10, -40, 37, 451, -273, 100]
        for (u1, u2) in payload:
            a1, b1 = aff(u1); a2, b2 = aff(u2)
            for dt in ("f8", "f4", "i8", "i4", "i2"):
                reads = READINGS if dt[0] == "f" else IREAD
                eps = {"f8": 2.3e-16, "f4": 1.2e-7, "i8": 2.3e-16, "i4": 1.2e-7, "i2": 9.8e-4}[dt]
                exp = np.array([(a1 * v + b1 - b2) / a2 for v in reads])
                t = np.array([4 * eps * (abs(a1 * v / a2) + abs(b1 / a2) + abs(b2 / a2)) for v in reads]) + 1e-300
                if dt == "i2" and (not np.all(np.isfinite(exp)) or np.max(np.abs(exp)) > 6e4 or abs(a1 / a2) > 6e4 or abs(a1 / a2) < 1e-4):
                    continue   # float16 range
                if dt in ("f4", "i4") and (np.max(np.abs(exp)) > 3e38 or abs(a1 / a2) > 3e38):
                    continue
                # results or factors below the normal range of the result's float type are rounded to subnormals/zero by
                # IEEE arithmetic itself (0.5 yK -> YK in float32 is 5e-49 -> 0.0): not decidable with a relative bound
                tiny = {"f8": 2.3e-308, "i8": 2.3e-308, "f4": 1.2e-38, "i4": 1.2e-38, "i2": 6.2e-5}[dt]
                nz = np.abs(exp[exp != 0])
                if abs(a1 / a2) < tiny or (nz.size and np.min(nz) < tiny):
                    rec.count("convert-discarded-underflow"); continue
                for route in ("to", "in_units", "to_value", "convert_to_units", "scalar.to", "scalar.convert_to_units", "view.convert_to_units"):
                    x = unyt.unyt_array(np.array(reads, dtype=dt), u1)
                    try:
                        if route == "to":
                            y = x.to(u2); got = np.asarray(y.d, dtype="f8"); U = y.units
                        elif route == "in_units":
                            y = x.in_units(u2); got = np.asarray(y.d, dtype="f8"); U = y.units
                        elif route == "to_value":
                            got = np.asarray(x.to_value(u2), dtype="f8"); U = None
                        elif route == "convert_to_units":
                            x.convert_to_units(u2); got = np.asarray(x.d, dtype="f8"); U = x.units
                        elif route == "scalar.to":
                            got = np.array([float(unyt.unyt_quantity(np.array(v, dtype=dt), u1).to(u2).d) for v in reads]); U = None
                        elif route == "scalar.convert_to_units":
                            got = []
                            for v in reads:
                                q = unyt.unyt_quantity(np.array(v, dtype=dt), u1); q.convert_to_units(u2); got.append(float(q.d))
                            got = np.array(got); U = None
                        else:
                            if dt[0] == "i":
                                continue     # in-place conversion of an integer view changes the itemsize of the base; refused or not is not C08's subject
                            base = unyt.unyt_array(np.array(list(reads) + list(reads), dtype=dt), u1)
                            v_ = base[:len(reads)]; v_.convert_to_units(u2); got = np.asarray(v_.d, dtype="f8"); U = v_.units
                    except Exception as e:
                        if dt[0] == "i" and isinstance(e, ValueError):
                            rec.note(f"convert-refused:{route}:{dt}"); continue
                        rec.violation(f"C08:convert-raises:{route}:{fam(u1)}->{fam(u2)}", f"{u1}->{u2} ({route}, {dt}) raised {type(e).__name__}: {e}", [u1, u2, route, dt]); continue
                    if U is not None and (str(U.expr) != str(unyt.Unit(u2).expr)):
                        rec.violation(f"C08:convert-unit:{route}:{fam(u1)}->{fam(u2)}", f"{u1}->{u2} ({route}) labelled {U}", [u1, u2, route, dt]); continue
                    if got.shape != exp.shape or not np.all(np.abs(got - exp) <= t):
                        bad = int(np.argmax(np.abs(got - exp) / t)) if got.shape == exp.shape else 0
                        rec.violation(f"C08:convert-value:{route}:{'int' if dt[0] == 'i' else 'float'}:{fam(u1)}->{fam(u2)}",
                                      f"{reads[bad]} {u1} ({dt}) -> {got.tolist()[bad] if got.shape == exp.shape else got.tolist()!r} {u2} via {route}; exact affine map gives {exp[bad]!r}", [u1, u2, route, dt])
                    else:
                        rec.ok(("convert", route, dt, u1, u2))
        rec.sample({"convert": list(payload[0]), "readings": READINGS, "routes": 7, "dtypes": 5})
    elif kind_ == "mustraise":
        m = unyt.unyt_quantity(3.0, "m"); s_ = unyt.unyt_quantity(2.0, "s")
        for u in payload:
            def arr():
                return unyt.unyt_array(np.array([10.0, 20.0, 30.0, 40.0]), u)

            def sq():
                return unyt.unyt_array(np.array([[10.0, 20.0], [30.0, 45.0]]), u)
            q = unyt.unyt_quantity(25.0, u)
            ops = {
                "q*2": lambda: arr() * 2, "2*q": lambda: 2 * arr(), "q*2.0(np)": lambda: arr() * np.float64(2.0), "q*q": lambda: arr() * arr(), "q*m": lambda: arr() * m, "m*q": lambda: m * arr(),
                "q/2": lambda: arr() / 2, "2/q": lambda: 2 / arr(), "q/q": lambda: arr() / arr(), "q/s": lambda: arr() / s_, "m/q": lambda: m / arr(),
                "q//2": lambda: arr() // 2,
                "q**2": lambda: arr() ** 2, "q**0.5": lambda: arr() ** 0.5, "q**-1": lambda: arr() ** -1, "q**3": lambda: arr() ** 3,
                "np.multiply": lambda: np.multiply(arr(), 2), "np.divide": lambda: np.divide(arr(), 2), "np.true_divide(q,q)": lambda: np.true_divide(arr(), arr()),
                "np.power(q,2)": lambda: np.power(arr(), 2), "np.power(q,4)": lambda: np.power(arr(), 4), "np.square": lambda: np.square(arr()),
                "np.sqrt": lambda: np.sqrt(arr()), "np.cbrt": lambda: np.cbrt(arr()), "np.reciprocal": lambda: np.reciprocal(arr()),
                "np.prod": lambda: np.prod(arr()), "multiply.reduce": lambda: np.multiply.reduce(arr()), "np.dot": lambda: np.dot(arr(), arr()),
                "np.var": lambda: np.var(arr()), "np.linalg.inv": lambda: np.linalg.inv(sq()), "q@q": lambda: sq() @ sq(),
                "q*=2": lambda: _ip(arr(), "mul"), "q/=2": lambda: _ip(arr(), "div"), "q**=2": lambda: _ip(arr(), "pow"),
                "np.multiply(out=)": lambda: np.multiply(arr(), 2, out=arr()), "scalar q*2": lambda: q * 2, "scalar q**2": lambda: q ** 2,
                "scalar q/q": lambda: q / q, "np.outer": lambda: np.outer(arr(), arr()), "np.cross": lambda: np.cross(arr()[:3], arr()[:3]),
                "np.linalg.det": lambda: np.linalg.det(sq()), "np.std**2": lambda: np.std(arr()) ** 2, "np.cumprod": lambda: np.cumprod(arr()),
            }
            for name, fn in ops.items():
                try:
                    r = fn()
                except Exception as e:
                    rec.ok(("mustraise", name, u)); continue
                rec.violation(f"C08:must-raise:{name}:{fam(u)}", f"{name} on {u} data returned {r!r} instead of raising", {"unit": u, "op": name})
        rec.sample({"mustraise_units": payload[:3], "ops": 42})
    elif kind_ == "reductions":
        for u in payload:
            a, b = aff(u)
            vals = np.array([10.0, 25.0, -5.0, 40.0])
            for name, fn, ref in (("np.diff", lambda x: np.diff(x), np.diff(vals)), ("np.ediff1d", lambda x: np.ediff1d(x), np.ediff1d(vals)),
                                  ("np.ptp", lambda x: np.ptp(x), np.array(np.ptp(vals))), ("np.gradient", lambda x: np.gradient(x), np.gradient(vals)),
                                  ("a[1:]-a[:-1]", lambda x: x[1:] - x[:-1], np.diff(vals))):
                x = unyt.unyt_array(vals.copy(), u)
                try:
                    r = fn(x)
                except Exception as e:
                    rec.note(f"reduction-refused:{name}:{kind(u)}"); rec.ok(("reduction-refusal", name, u)); continue
                if not hasattr(r, "units"):
                    rec.violation(f"C08:reduction:{name}:{fam(u)}:no-units", f"{name} of {u} data returned bare {r!r}", {"unit": u}); continue
                Un = str(r.units.expr)
                rr = names.resolve(Un)
                if rr is None or defs.T[rr[1]].dim != defs.T["K"].dim:
                    rec.violation(f"C08:reduction:{name}:{fam(u)}:unit", f"{name} of {u} -> unit {r.units}", {"unit": u}); continue
                aU, bU = aff(Un)
                exp = a * ref / aU          # a difference: scale only
                if not np.all(np.abs(np.asarray(r.d) - exp) <= 16 * 2.3e-16 * (np.abs(exp) + np.abs(a * vals.max() / aU))):
                    rec.violation(f"C08:reduction:{name}:{fam(u)}:value", f"{name} of {vals.tolist()} {u} = {np.asarray(r.d).tolist()} {Un}; differences are {exp.tolist()} {Un}", {"unit": u, "op": name})
                else:
                    rec.ok(("reduction", name, u))
        rec.sample({"reductions": ["diff", "ediff1d", "ptp", "gradient", "slice-subtract"], "units": payload[:4]})


def _ip(a, which):
    if which == "mul":
        a *= 2
    elif which == "div":
        a /= 2
    else:
        a **= 2
    return a
