"""C08 - offset temperature scales: point/difference semantics or refusal (oracle: affine arithmetic in kelvin)."""
import itertools
import numpy as np
from vf import core
from vf.ref import defs, names
from vf.gen import c08_alias
from .common import chunks

RULE = ("exhaustive over ordered pairs of temperature units (6 base spellings + delta units + SI-prefixed K/degC/delta_degC: quick m,k; "
        "thorough all prefixes) x additive forms {+,-,np.add,np.subtract,in-place,out=} x 6 readings, judged by affine arithmetic in "
        "kelvin (points via the affine map, differences via the scale); the same pairs x {+,-} x aliasing call forms (out= being the left "
        "operand, the right operand, a fresh buffer of matching/other dtype, shape or label, a bare ndarray; in-place operators on whole "
        "arrays, views, 0-d arrays and with scalar quantities; both operands being identical/reversed/overlapping/strided views of one "
        "buffer; the same object twice) x operand dtype pairs (float64, float32, int64, int32 mixed) x reading triples: one evaluation "
        "per object that holds the result (the returned object and, separately, the out= buffer), judged by the same affine reference "
        "on the readings the operands held before the call; a mandated refusal must also leave the target's numbers untouched; "
        "conversions among all of them against the exact affine map; "
        "multiplicative/power/reduction set on every offset-scale unit must raise; diff/ediff1d/ptp/gradient per unit. "
        "distinct = (operation form, [judged object,] unit1, unit2) tuples")
ASSUMPTIONS = ("vf/ref/defs.py affine parameters (degC: K = v + 273.15; degF: K = 5/9 (v + 459.67); prefixed degC keep the zero point)",
               "point+point, difference-point and comparisons are not in the statement: recorded, not judged",
               "aliasing forms: the out= buffer is judged with the unit it carries after the call; a bare ndarray handed as out= carries no label "
               "and its numbers are read with the unit of the object the call returned",
               "aliasing forms: the bound is 16 ulp of the narrowest float format among the operands (integers count as the float of their width, "
               "the type unyt/C17 gives them) and the out= buffer, on the sum of the magnitudes of the two rescaled readings; float32 cases whose "
               "factors or terms leave [1e-30, 1e30] are discarded and counted (IEEE range, same decision as for conversions)",
               "aliasing forms: 'two different offset scales ... raises instead of returning a number' also covers the number delivered through out=: "
               "after a mandated refusal the target must hold its old numbers (a dtype relabel with equal numbers is accepted); for refusals the "
               "statement does not mandate a changed target is a note",
               "aliasing forms: an operand that is not the target and changes during the call is C18's subject: note, not judged",
               "an integer out= buffer is turned into the float of its width by unyt before the ufunc runs (library idiom); a call that cannot do so "
               "(non-owning integer view) refuses, which the statement allows")
MIN_EVALS = 4000
TIMEOUT = 900
READINGS = [0.0, 10.0, -40.0, 36.6, 451.0, -273.15, 0.5]


def aff(name):
    f, s, _ = names.resolve(name)
    de = defs.T[s]
    a = de.value * f
    return (a, -de.value * de.offset) if de.offset else (a, 0.0)


def fam(name):
    f, s, _ = names.resolve(name)
    return s if f == 1.0 else "p-" + s


def kind(name):
    return "point" if aff(name)[1] != 0.0 else "diff"


def units(tier):
    pre = ["m", "k"] if tier == "quick" else ["Y", "G", "M", "k", "h", "da", "d", "c", "m", "u", "n", "p", "y"]
    us = ["K", "R", "degC", "degF", "delta_degC", "delta_degF"]
    for p in pre:
        us += [p + "K", p + "degC", p + "delta_degC"]
    return us


def batches(tier, seed):
    us = units(tier)
    pairs = list(itertools.product(us, us))
    nrand = 8 if tier == "quick" else 40
    b = [("additive/%d" % i, ("additive", (c, seed, nrand))) for i, c in enumerate(chunks(pairs, 16))]
    b += [("convert/%d" % i, ("convert", c)) for i, c in enumerate(chunks(pairs, 16))]
    # aliasing call forms: a chunk is a list of ordered pairs; more, smaller chunks in the thorough tier (each pair is ~40 forms x dtypes)
    nal = 16 if tier == "quick" else 96
    b += [("alias/%d" % i, ("alias", (c, seed, 1 if tier == "quick" else 2, c08_alias.DTPAIRS[tier]))) for i, c in enumerate(chunks(pairs, nal))]
    b += [("mustraise", ("mustraise", [u for u in us if kind(u) == "point"])), ("reductions", ("reductions", us))]
    return b


def tol(*terms):
    return 16 * 2.3e-16 * sum(abs(t) for t in terms) + 1e-300


def expected(u1, u2, x, y, op, U):
    """expected reading of the result labelled U, or None when the statement does not judge the combination"""
    k1, k2 = kind(u1), kind(u2)
    a1, b1 = aff(u1); a2, b2 = aff(u2); aU, bU = aff(U)
    sgn = 1 if op == "+" else -1
    if k1 == "point" and k2 == "diff":
        K = (a1 * x + b1) + sgn * a2 * y; sem = "point"
    elif k1 == "diff" and k2 == "point" and op == "+":
        K = a1 * x + (a2 * y + b2); sem = "point"
    elif k1 == "diff" and k2 == "diff":
        K = a1 * x + sgn * a2 * y; sem = "diff"
    elif k1 == "point" and k2 == "point" and op == "-":
        K = (a1 * x + b1) - (a2 * y + b2); sem = "diff"
    else:
        return None
    if sem == "point" and bU != 0.0:
        val = (K - bU) / aU
    else:
        val = K / aU
    return val, sem, tol(a1 * x / aU, a2 * y / aU, b1 / aU, b2 / aU, bU / aU)


EPS = {"f8": 2.3e-16, "f4": 1.2e-7, "f2": 9.8e-4}


def expected_alias(u1, u2, x, y, op, U, eps):
    """vectorised `expected` for the aliasing forms: x, y float64 arrays of the readings the operands held before the call.
    The zero points are combined first (they are the same float for one scale family, so they cancel exactly and do not
    drown readings written with a small prefix); the bound follows the narrowest float format that took part.
    Returns (values, semantics, bound, magnitudes that must fit the float format) or None when not judged."""
    k1, k2 = kind(u1), kind(u2)
    a1, b1 = aff(u1); a2, b2 = aff(u2); aU, bU = aff(U)
    sgn = 1.0 if op == "+" else -1.0
    if k1 == "point" and k2 == "diff":
        B = b1; sem = "point"
    elif k1 == "diff" and k2 == "point" and op == "+":
        B = b2; sem = "point"
    elif k1 == "diff" and k2 == "diff":
        B = 0.0; sem = "diff"
    elif k1 == "point" and k2 == "point" and op == "-":
        B = b1 - b2; sem = "diff"
    else:
        return None
    if sem == "point" and bU != 0.0:
        B = B - bU
    t1 = np.asarray(x, dtype="f8") * a1 / aU
    t2 = np.asarray(y, dtype="f8") * a2 / aU
    val = t1 + sgn * t2 + B / aU
    bound = 16 * eps * (np.abs(t1) + np.abs(t2) + abs(B / aU)) + 1e-300
    mags = [a1 / a2, a2 / a1, a1 / aU, a2 / aU, t1, t2, np.asarray(x) * a1 / a2, np.asarray(y) * a2 / a1, val]
    return val, sem, bound, mags


def _fits(mags, lo, hi):
    for m in mags:
        m = np.abs(np.asarray(m, dtype="f8")).ravel()
        m = m[m != 0]
        if m.size and (not np.all(np.isfinite(m)) or m.min() < lo or m.max() > hi):
            return False
    return True


def _vals(o):
    """float64 copy of the numbers an object holds now (its unit is read separately)"""
    return np.array(np.asarray(o.d if hasattr(o, "units") else o), dtype="f8")


def _same(p, q):
    return p.shape == q.shape and bool(np.all((p == q) | (np.isnan(p) & np.isnan(q))))


def judge_alias(rec, form, op, u1, u2, da, db, plan):
    """run one aliasing plan and judge the returned object and the out= buffer"""
    a, b, out, call, xe, ye = plan
    k1, k2 = kind(u1), kind(u2)
    key_f = f"{fam(u1)}{op}{fam(u2)}"
    case = {"u1": u1, "u2": u2, "x": np.asarray(xe).tolist(), "y": np.asarray(ye).tolist(), "op": op, "form": form, "dtypes": [da, db]}
    out_before = None if out is None else _vals(out)
    bystanders = [(nm, o, _vals(o), str(o.units)) for nm, o in (("left", a), ("right", b)) if out is None or (o is not out and not np.shares_memory(o, out))]
    floats = [c08_alias.fl(da), c08_alias.fl(db)] + ([c08_alias.fl(out.dtype)] if out is not None else [])
    # structural cell of its own: an integer target whose memory the *other* operand object also views (unyt turns an integer
    # target into floats in place before the ufunc reads its operands); keyed by form only, the unit pair plays no part in it
    int_target_viewed = out is not None and out.dtype.kind in "iu" and any(o is not out and np.shares_memory(o, out) for o in (a, b))
    eps = max(EPS[f] for f in floats)
    try:
        r = call(); raised = None
    except Exception as e:
        r = None; raised = type(e).__name__
    two_offset_scales = k1 == "point" and k2 == "point" and aff(u1) != aff(u2)
    if raised is not None:
        intact = out is None or _same(out_before, _vals(out))
        if two_offset_scales:
            if not intact:
                rec.violation(f"C08:alias:written-before-refusal:{form}:{key_f}", f"{u1}{op}{u2} ({form}, {da},{db}) raised {raised} but the target holds {_vals(out).tolist()} instead of {out_before.tolist()}", case)
            else:
                rec.ok(("alias-refused-2offset", form, u1, op, u2))
                if out is not None:
                    rec.count("alias:refusal-target-intact")
        else:
            rec.note(f"alias-refused:{k1}{op}{k2}")
            if not intact:
                rec.note(f"alias-refused-but-target-changed:{form}:{k1}{op}{k2}")
            rec.ok(("alias-refusal", form, u1, op, u2))
        return
    if two_offset_scales:
        rec.violation(f"C08:alias:two-offset-scales-combined:{form}:{key_f}", f"{u1}{op}{u2} ({form}, {da},{db}) returned {r!r}; two different offset scales must be refused", case)
        return
    if not hasattr(r, "units"):
        rec.violation(f"C08:alias:result-without-unit:{form}:{key_f}", f"{u1}{op}{u2} ({form}) returned bare {r!r}", case)
        return
    subjects = [("returned", r, r.units)]
    if out is not None and out is not r:
        # a bare ndarray carries no label: its numbers are read with the unit of the object the call returned
        subjects.append(("out-buffer", out, out.units if hasattr(out, "units") else r.units))
    judged = 0
    for role, obj, U in subjects:
        Uname = str(U.expr)
        rr = names.resolve(Uname)
        if rr is None or defs.T[rr[1]].dim != defs.T["K"].dim:
            rec.violation(f"C08:alias:result-unit-not-temperature:{form}:{role}:{key_f}", f"{u1}{op}{u2} ({form}) -> {role} unit {U}", case)
            continue
        ex = expected_alias(u1, u2, xe, ye, op, Uname, eps)
        if ex is None:
            rec.note(f"alias-not-judged:{k1}{op}{k2}")
            continue
        val, sem, bound, mags = ex
        if eps > EPS["f8"] and not _fits(mags, 1e-30, 1e30):
            rec.count("alias-discarded-float32-range"); continue
        got = _vals(obj)
        try:
            val_b = np.broadcast_to(val, got.shape); bound_b = np.broadcast_to(bound, got.shape)
        except ValueError:
            rec.violation(f"C08:alias:result-shape:{form}:{role}:{key_f}", f"{u1}{op}{u2} ({form}) -> {role} shape {got.shape}, operands broadcast to {np.shape(val)}", case)
            continue
        if not np.all(np.abs(got - val_b) <= bound_b):
            rec.violation(f"C08:alias:affine-value:{form}:{role}:" + ("integer-target-is-view-of-other-operand" if int_target_viewed else key_f),
                          f"{np.asarray(xe).tolist()} {u1} {op} {np.asarray(ye).tolist()} {u2} ({form}, {da},{db}): {role} holds {got.tolist()} {Uname}; affine arithmetic gives {val_b.tolist()} {Uname} ({sem})", case)
        else:
            rec.ok(("alias", form, role, u1, op, u2))
            rec.count(f"alias:{role}-judged"); rec.count(f"alias-dtypes:{da},{db}")
            judged += 1
    if judged:
        rec.count(f"alias-form:{form}")
    for nm, o, before, ub in bystanders:
        # an operand that is not the target: not in the statement (C18's subject), recorded only
        if not _same(before, _vals(o)) or str(o.units) != ub:
            rec.note(f"alias-bystander-operand-changed:{form}:{nm}")


FORMS = {
    "operator": lambda np_, a, b, op: (a + b) if op == "+" else (a - b),
    "ufunc": lambda np_, a, b, op: np_.add(a, b) if op == "+" else np_.subtract(a, b),
}


def run_form(unyt, form, u1, u2, x, y, op):
    a = unyt.unyt_array(np.array([x, x]), u1)
    b = unyt.unyt_array(np.array([y, y]), u2)
    if form == "operator":
        r = (a + b) if op == "+" else (a - b)
    elif form == "ufunc":
        r = np.add(a, b) if op == "+" else np.subtract(a, b)
    elif form == "inplace":
        r = a.copy()
        if op == "+":
            r += b
        else:
            r -= b
    elif form == "out":
        buf = unyt.unyt_array(np.zeros(2), u1)
        r = np.add(a, b, out=buf) if op == "+" else np.subtract(a, b, out=buf)
        if r is not buf and not np.shares_memory(r, buf):
            pass
        r = buf
    elif form == "scalar":
        qa = unyt.unyt_quantity(x, u1); qb = unyt.unyt_quantity(y, u2)
        r = (qa + qb) if op == "+" else (qa - qb)
        return np.array([float(r.d)]), r.units
    return np.asarray(r.d), r.units


def worker(batch, rec):
    import unyt
    from unyt import Unit
    bid, (kind_, payload) = batch
    if kind_ == "additive":
        payload, seed, nrand = payload
        r = core.rng(seed, bid)
        extra = [(r.choice([-1, 1]) * 10 ** r.uniform(-3, 5), r.choice([-1, 1]) * 10 ** r.uniform(-3, 5)) for _ in range(nrand)]
        for (u1, u2) in payload:
            k1, k2 = kind(u1), kind(u2)
            for op in "+-":
                for form in ("operator", "ufunc", "inplace", "out", "scalar"):
                    for (x, y) in ((10.0, 4.0), (-40.0, 36.6), (0.0, 451.0), (0.5, -273.15)) + tuple(extra):
                        case = {"u1": u1, "u2": u2, "x": x, "y": y, "op": op, "form": form}
                        try:
                            vals, U = run_form(unyt, form, u1, u2, x, y, op)
                            raised = None
                        except Exception as e:
                            raised = type(e).__name__
                        two_offset_scales = (k1 == "point" and k2 == "point" and Unit(u1) != Unit(u2))
                        key_f = f"{fam(u1)}{op}{fam(u2)}"
                        if two_offset_scales:
                            if raised is None:
                                rec.violation(f"C08:two-offset-scales-combined:{key_f}", f"{x} {u1} {op} {y} {u2} ({form}) returned {vals.tolist()} {U}; two different offset scales must be refused", case)
                            else:
                                rec.ok(("refused-2offset", form, u1, op, u2))
                            continue
                        if raised is not None:
                            rec.note(f"refused:{k1}{op}{k2}")
                            rec.ok(("refusal", form, u1, op, u2))
                            continue
                        Uname = str(U.expr)
                        if names.resolve(Uname) is None or defs.T[names.resolve(Uname)[1]].dim != defs.T["K"].dim:
                            rec.violation(f"C08:result-unit-not-temperature:{key_f}", f"{u1}{op}{u2} -> unit {U}", case); continue
                        ex = expected(u1, u2, x, y, op, Uname)
                        if ex is None:
                            rec.note(f"not-judged:{k1}{op}{k2}")
                            continue
                        val, sem, t = ex
                        if not np.all(np.abs(vals - val) <= t):
                            rec.violation(f"C08:affine-value:{key_f}", f"{x} {u1} {op} {y} {u2} ({form}) = {vals.tolist()} {U}; affine arithmetic gives {val!r} {Uname} ({sem})", case)
                        else:
                            rec.ok(("additive", form, u1, op, u2))
        rec.sample({"pair": list(payload[0]), "forms": ["operator", "ufunc", "inplace", "out", "scalar"]})
    elif kind_ == "alias":
        pairs, seed, nrand, dtpairs = payload
        r = core.rng(seed, bid)
        sets = [((10.0, -40.0, 0.5), (4.0, 36.6, -273.15))]
        for _ in range(nrand):
            sets.append((tuple(r.choice([-1, 1]) * 10 ** r.uniform(-3, 5) for _ in range(3)), tuple(r.choice([-1, 1]) * 10 ** r.uniform(-3, 5) for _ in range(3))))
        isets = [((10, -40, 7), (4, 37, -273))] + [(tuple(r.randint(-999, 999) for _ in range(3)), tuple(r.randint(-999, 999) for _ in range(3))) for _ in range(nrand)]
        for (u1, u2) in pairs:
            for op in "+-":
                for (da, db) in dtpairs:
                    for (fx, fy), (ix, iy) in zip(sets, isets):
                        xs = ix if da[0] == "i" else fx
                        ys = iy if db[0] == "i" else fy
                        for form, build in c08_alias.plans(unyt, op, u1, u2, xs, ys, da, db):
                            plan = build()
                            if plan is None:
                                continue
                            judge_alias(rec, form, op, u1, u2, da, db, plan)
        rec.sample({"alias_pair": list(pairs[0]), "forms": list(c08_alias.FORMS), "dtype_pairs": [list(d) for d in dtpairs], "reading_sets": len(sets)})
    elif kind_ == "convert":
        IREAD =[0, 10, -40, 37, 451, -273, 100]
        for (u1, u2) in payload:
            a1, b1 = aff(u1); a2, b2 = aff(u2)
            for dt in ("f8", "f4", "i8", "i4", "i2"):
                reads = READINGS if dt[0] == "f" else IREAD
                eps = {"f8": 2.3e-16, "f4": 1.2e-7, "i8": 2.3e-16, "i4": 1.2e-7, "i2": 9.8e-4}[dt]
                exp = np.array([(a1 * v + b1 - b2) / a2 for v in reads])
                t = np.array([4 * eps * (abs(a1 * v / a2) + abs(b1 / a2) + abs(b2 / a2)) for v in reads]) + 1e-300
                if dt == "i2" and (not np.all(np.isfinite(exp)) or np.max(np.abs(exp)) > 6e4 or abs(a1 / a2) > 6e4 or abs(a1 / a2) < 1e-4):
                    continue   # float16 range
                if dt in ("f4", "i4") and (np.max(np.abs(exp)) > 3e38 or abs(a1 / a2) > 3e38):
                    continue
                # results or factors below the normal range of the result's float type are rounded to subnormals/zero by
                # IEEE arithmetic itself (0.5 yK -> YK in float32 is 5e-49 -> 0.0): not decidable with a relative bound
                tiny = {"f8": 2.3e-308, "i8": 2.3e-308, "f4": 1.2e-38, "i4": 1.2e-38, "i2": 6.2e-5}[dt]
                nz = np.abs(exp[exp != 0])
                if abs(a1 / a2) < tiny or (nz.size and np.min(nz) < tiny):
                    rec.count("convert-discarded-underflow"); continue
                for route in ("to", "in_units", "to_value", "convert_to_units", "scalar.to", "scalar.convert_to_units", "view.convert_to_units"):
                    x = unyt.unyt_array(np.array(reads, dtype=dt), u1)
                    try:
                        if route == "to":
                            y = x.to(u2); got = np.asarray(y.d, dtype="f8"); U = y.units
                        elif route == "in_units":
                            y = x.in_units(u2); got = np.asarray(y.d, dtype="f8"); U = y.units
                        elif route == "to_value":
                            got = np.asarray(x.to_value(u2), dtype="f8"); U = None
                        elif route == "convert_to_units":
                            x.convert_to_units(u2); got = np.asarray(x.d, dtype="f8"); U = x.units
                        elif route == "scalar.to":
                            got = np.array([float(unyt.unyt_quantity(np.array(v, dtype=dt), u1).to(u2).d) for v in reads]); U = None
                        elif route == "scalar.convert_to_units":
                            got = []
                            for v in reads:
                                q = unyt.unyt_quantity(np.array(v, dtype=dt), u1); q.convert_to_units(u2); got.append(float(q.d))
                            got = np.array(got); U = None
                        else:
                            if dt[0] == "i":
                                continue     # in-place conversion of an integer view changes the itemsize of the base; refused or not is not C08's subject
                            base = unyt.unyt_array(np.array(list(reads) + list(reads), dtype=dt), u1)
                            v_ = base[:len(reads)]; v_.convert_to_units(u2); got = np.asarray(v_.d, dtype="f8"); U = v_.units
                    except Exception as e:
                        if dt[0] == "i" and isinstance(e, ValueError):
                            rec.note(f"convert-refused:{route}:{dt}"); continue
                        rec.violation(f"C08:convert-raises:{route}:{fam(u1)}->{fam(u2)}", f"{u1}->{u2} ({route}, {dt}) raised {type(e).__name__}: {e}", [u1, u2, route, dt]); continue
                    if U is not None and (str(U.expr) != str(unyt.Unit(u2).expr)):
                        rec.violation(f"C08:convert-unit:{route}:{fam(u1)}->{fam(u2)}", f"{u1}->{u2} ({route}) labelled {U}", [u1, u2, route, dt]); continue
                    if got.shape != exp.shape or not np.all(np.abs(got - exp) <= t):
                        bad = int(np.argmax(np.abs(got - exp) / t)) if got.shape == exp.shape else 0
                        rec.violation(f"C08:convert-value:{route}:{'int' if dt[0] == 'i' else 'float'}:{fam(u1)}->{fam(u2)}",
                                      f"{reads[bad]} {u1} ({dt}) -> {got.tolist()[bad] if got.shape == exp.shape else got.tolist()!r} {u2} via {route}; exact affine map gives {exp[bad]!r}", [u1, u2, route, dt])
                    else:
                        rec.ok(("convert", route, dt, u1, u2))
        rec.sample({"convert": list(payload[0]), "readings": READINGS, "routes": 7, "dtypes": 5})
    elif kind_ == "mustraise":
        m = unyt.unyt_quantity(3.0, "m"); s_ = unyt.unyt_quantity(2.0, "s")
        for u in payload:
            def arr():
                return unyt.unyt_array(np.array([10.0, 20.0, 30.0, 40.0]), u)

            def sq():
                return unyt.unyt_array(np.array([[10.0, 20.0], [30.0, 45.0]]), u)
            q = unyt.unyt_quantity(25.0, u)
            ops = {
                "q*2": lambda: arr() * 2, "2*q": lambda: 2 * arr(), "q*2.0(np)": lambda: arr() * np.float64(2.0), "q*q": lambda: arr() * arr(), "q*m": lambda: arr() * m, "m*q": lambda: m * arr(),
                "q/2": lambda: arr() / 2, "2/q": lambda: 2 / arr(), "q/q": lambda: arr() / arr(), "q/s": lambda: arr() / s_, "m/q": lambda: m / arr(),
                "q//2": lambda: arr() // 2,
                "q**2": lambda: arr() ** 2, "q**0.5": lambda: arr() ** 0.5, "q**-1": lambda: arr() ** -1, "q**3": lambda: arr() ** 3,
                "np.multiply": lambda: np.multiply(arr(), 2), "np.divide": lambda: np.divide(arr(), 2), "np.true_divide(q,q)": lambda: np.true_divide(arr(), arr()),
                "np.power(q,2)": lambda: np.power(arr(), 2), "np.power(q,4)": lambda: np.power(arr(), 4), "np.square": lambda: np.square(arr()),
                "np.sqrt": lambda: np.sqrt(arr()), "np.cbrt": lambda: np.cbrt(arr()), "np.reciprocal": lambda: np.reciprocal(arr()),
                "np.prod": lambda: np.prod(arr()), "multiply.reduce": lambda: np.multiply.reduce(arr()), "np.dot": lambda: np.dot(arr(), arr()),
                "np.var": lambda: np.var(arr()), "np.linalg.inv": lambda: np.linalg.inv(sq()), "q@q": lambda: sq() @ sq(),
                "q*=2": lambda: _ip(arr(), "mul"), "q/=2": lambda: _ip(arr(), "div"), "q**=2": lambda: _ip(arr(), "pow"),
                "np.multiply(out=)": lambda: np.multiply(arr(), 2, out=arr()), "scalar q*2": lambda: q * 2, "scalar q**2": lambda: q ** 2,
                "scalar q/q": lambda: q / q, "np.outer": lambda: np.outer(arr(), arr()), "np.cross": lambda: np.cross(arr()[:3], arr()[:3]),
                "np.linalg.det": lambda: np.linalg.det(sq()), "np.std**2": lambda: np.std(arr()) ** 2, "np.cumprod": lambda: np.cumprod(arr()),
            }
            for name, fn in ops.items():
                try:
                    r = fn()
                except Exception as e:
                    rec.ok(("mustraise", name, u)); continue
                rec.violation(f"C08:must-raise:{name}:{fam(u)}", f"{name} on {u} data returned {r!r} instead of raising", {"unit": u, "op": name})
        rec.sample({"mustraise_units": payload[:3], "ops": 42})
    elif kind_ == "reductions":
        for u in payload:
            a, b = aff(u)
            vals = np.array([10.0, 25.0, -5.0, 40.0])
            for name, fn, ref in (("np.diff", lambda x: np.diff(x), np.diff(vals)), ("np.ediff1d", lambda x: np.ediff1d(x), np.ediff1d(vals)),
                                  ("np.ptp", lambda x: np.ptp(x), np.array(np.ptp(vals))), ("np.gradient", lambda x: np.gradient(x), np.gradient(vals)),
                                  ("a[1:]-a[:-1]", lambda x: x[1:] - x[:-1], np.diff(vals))):
                x = unyt.unyt_array(vals.copy(), u)
                try:
                    r = fn(x)
                except Exception as e:
                    rec.note(f"reduction-refused:{name}:{kind(u)}"); rec.ok(("reduction-refusal", name, u)); continue
                if not hasattr(r, "units"):
                    rec.violation(f"C08:reduction:{name}:{fam(u)}:no-units", f"{name} of {u} data returned bare {r!r}", {"unit": u}); continue
                Un = str(r.units.expr)
                rr = names.resolve(Un)
                if rr is None or defs.T[rr[1]].dim != defs.T["K"].dim:
                    rec.violation(f"C08:reduction:{name}:{fam(u)}:unit", f"{name} of {u} -> unit {r.units}", {"unit": u}); continue
                aU, bU = aff(Un)
                exp = a * ref / aU          # a difference: scale only
                if not np.all(np.abs(np.asarray(r.d) - exp) <= 16 * 2.3e-16 * (np.abs(exp) + np.abs(a * vals.max() / aU))):
                    rec.violation(f"C08:reduction:{name}:{fam(u)}:value", f"{name} of {vals.tolist()} {u} = {np.asarray(r.d).tolist()} {Un}; differences are {exp.tolist()} {Un}", {"unit": u, "op": name})
                else:
                    rec.ok(("reduction", name, u))
        rec.sample({"reductions": ["diff", "ediff1d", "ptp", "gradient", "slice-subtract"], "units": payload[:4]})


def _ip(a, which):
    if which == "mul":
        a *= 2
    elif which == "div":
        a /= 2
    else:
        a **= 2
    return a


def extra(tier, seed, results):
    counters = {}
    for bid, rr in results:
        for k, v in (rr or {}).get("counters", {}).items():
            counters[k] = counters.get(k, 0) + v
    deciding = ["alias:returned-judged", "alias:out-buffer-judged", "alias:refusal-target-intact"] + [f"alias-form:{f}" for f in c08_alias.FORMS] \
        + [f"alias-dtypes:{a},{b}" for a, b in c08_alias.DTPAIRS[tier]]
    zero = [k for k in deciding if not counters.get(k)]
    broken = [bid for bid, rr in results if not rr or rr.get("status") != "ok"]
    if zero and not broken:
        raise core.Inconclusive("sub-monitors-evaluated-0-times:" + ",".join(zero))
    return {"alias_monitor_evaluations": {k: counters.get(k, 0) for k in deciding},
            "alias_discarded_float32_range": counters.get("alias-discarded-float32-range", 0),
            "convert_discarded_underflow": counters.get("convert-discarded-underflow", 0)}
