"""C08 - offset temperature scales: point/difference semantics or refusal (oracle: affine arithmetic in kelvin)."""
import functools
import itertools
import numpy as np
from vf import core
from vf.ref import defs, names
from vf.gen import c08_alias, c08_degenerate, c08_datadep
from .common import chunks

RULE = ("exhaustive over ordered pairs of temperature units (6 base spellings + delta units + SI-prefixed K/degC/delta_degC: quick m,k; "
        "thorough all prefixes) x additive forms {+,-,np.add,np.subtract,in-place,out=} x 6 readings, judged by affine arithmetic in "
        "kelvin (points via the affine map, differences via the scale); the same pairs x {+,-} x aliasing call forms (out= being the left "
        "operand, the right operand, a fresh buffer of matching/other dtype, shape or label, a bare ndarray; in-place operators on whole "
        "arrays, views, 0-d arrays and with scalar quantities; both operands being identical/reversed/overlapping/strided views of one "
        "buffer; the same object twice) x operand dtype pairs (float64, float32, int64, int32 mixed) x reading triples: one evaluation "
        "per object that holds the result (the returned object and, separately, the out= buffer), judged by the same affine reference "
        "on the readings the operands held before the call; a mandated refusal must also leave the target's numbers untouched; "
        "conversions among all of them against the exact affine map; "
        "multiplicative/power/reduction set on every offset-scale unit must raise; diff/ediff1d/ptp/gradient per unit; "
        "degenerate shapes of the must-raise set on every offset-scale unit: one evaluation per call of a multiplicative reduction "
        "(np.multiply.reduce, np.divide.reduce, np.prod, ndarray.prod, np.nanprod; cumulative forms) x shapes holding 0, 1, 2, 3 (thorough: to 5) "
        "readings along the reduced axes x axis form (omitted, int, negative, 1-tuple, multi-axis tuple, None) x keepdims x out= kind (none, labelled, "
        "bare ndarray, foreign label) x start value (absent, 1.0, 2.0) x dtype, of a power by an exponent that is or is computed to 0 or 1 "
        "(46 exponent spellings: Python/NumPy scalars, Fraction, 0-d and n-d arrays, lists, dimensionless and percent quantities, 0/1-mixed arrays, "
        "near-0 and near-1 values) x 12 call forms x 4 shapes, and of a product of one-reading / 1x1 / 0x0 operands (dot, inner, outer, matmul, kron, "
        "tensordot, einsum, ufunc.outer, inv, pinv, matrix_power, var, convolve, det): judged 'must raise' whenever two or more factors take part "
        "or the exponent is not 1, and only if the same call on the same numbers labelled K returns (control); after the refusal the out= / in-place "
        "target must hold its old numbers. "
        "data-dependent branches: the same ordered pairs x {+,-} x {operator, ufunc, out= fresh labelled buffer, out= bare ndarray, out= left operand, "
        "out= right operand, in-place operator} x the position of a *special* operand (left, right, both) x its reading class (0.0, -0.0, integer 0, "
        "float32 0, False, the absolute zero of its scale, NaN, +inf, -inf, the smallest subnormal) x its spelling (unyt_quantity, 0-d array, "
        "one-element array, 1x1 array, vector, 2-d array, vector mixing special and ordinary readings; bare Python number, NumPy scalar, 0-d ndarray, "
        "list, ndarray) against an ordinary partner (quantity, vector) - the quick tier leaves the second representatives of a class (-inf, float32 0, False, 1x1, NumPy scalar, list) to the thorough tier, which runs them on the pairs of the quick unit set and the quick cross on every other prefixed unit against degC and delta_degF in both orders: one evaluation per object holding the result, "
        "judged by the same affine reference (NaN where it gives NaN, the same infinity where it gives one); every special call is preceded by the "
        "same call with an ordinary non-zero reading of the same dtype in the same spelling (control), and a refusal is accepted as a refusal only; "
        "conversions of the special readings in 6 spellings by 5 routes for every ordered pair; sums and differences along an axis "
        "(add/subtract.reduce, sum, nansum, cumsum, accumulate, diff, ediff1d, ptp, a[0]-a[1], builtin sum) over 0-3 readings with special content "
        "(all zero, zeros first/last/in the middle, absolute zeros, NaN, infinities, subnormals) per unit, judged as differences against NumPy "
        "on the bare numbers; the same pairs x {+,-} x {operator, ufunc, quantity} with the unit of one operand (left, right), of the converted data or of "
        "the conversion target obtained through 11 doors (name, Unit(name), Unit(u), Unit(u, registry=own), Unit(u.expr, registry=own), copy(), "
        "copy(deep=True), deepcopy, pickle, quantity.units, module attribute); in_base / convert_to_base / get_base_equivalent of every unit into unit "
        "systems whose temperature unit is degC, degF, mdegC, kdegC, delta_degF, mK and into 5 built-in systems, against the exact affine map. "
        "distinct = (operation form, [judged object,] unit1, unit2) tuples; degenerate: (op, axis form, readings class, keepdims, out kind, unit) / (power form, exponent spelling, unit)")
ASSUMPTIONS = ("vf/ref/defs.py affine parameters (degC: K = v + 273.15; degF: K = 5/9 (v + 459.67); prefixed degC keep the zero point)",
               "point+point, difference-point and comparisons are not in the statement: recorded, not judged",
               "aliasing forms: the out= buffer is judged with the unit it carries after the call; a bare ndarray handed as out= carries no label "
               "and its numbers are read with the unit of the object the call returned",
               "aliasing forms: the bound is 16 ulp of the narrowest float format among the operands (integers count as the float of their width, "
               "the type unyt/C17 gives them) and the out= buffer, on the sum of the magnitudes of the two rescaled readings; float32 cases whose "
               "factors or terms leave [1e-30, 1e30] are discarded and counted (IEEE range, same decision as for conversions)",
               "aliasing forms: 'two different offset scales ... raises instead of returning a number' also covers the number delivered through out=: "
               "after a mandated refusal the target must hold its old numbers (a dtype relabel with equal numbers is accepted); for refusals the "
               "statement does not mandate a changed target is a note",
               "aliasing forms: an operand that is not the target and changes during the call is C18's subject: note, not judged",
               "an integer out= buffer is turned into the float of its width by unyt before the ufunc runs (library idiom); a call that cannot do so "
               "(non-owning integer view) refuses, which the statement allows",
               "degenerate shapes: a refusal is judged only when the same call on the same numbers labelled K (no zero point) returns; otherwise the "
               "refusal is vacuous (np.cumprod family, ufunc.accumulate, np.prod(out=unyt buffer) refuse every unit) and is a note",
               "degenerate shapes: a reduction over exactly one reading without a start value, x**1 in any spelling of 1, det of a 1x1 matrix and "
               "matrix_power(A, 1) hand the reading back and are not products/powers: recorded (refused / handed-back / returned-changed), not judged",
               "degenerate shapes: a reduction over an empty axis that delivers a number (the empty product 1.0, unit exponent 0) and x**0 are judged "
               "'must raise' (a product/power of offset-scale data returning a number); calls whose result has no element at all are recorded only",
               "degenerate shapes: initial= is one more factor (judged 'must raise' even over one reading), except initial=1.0 for products, which is the "
               "value NumPy starts from anyway (recorded); for np.divide.reduce every start value is a dividend",
               "degenerate shapes: an exponent one unit in the last place away from 1 (in the exponent's own float type; e.g. (0.1+0.2)/0.3) is float "
               "noise of a computed 1: recorded; exponents 1e-12 or further from 1 (1+1e-12, 1+1e-9, 1-1e-7, 1+1e-5) and tiny non-zero exponents are genuine powers: judged",
               "degenerate shapes: det(0x0), dot/outer/var of empty operands (no reading takes part) are recorded; matrix_power(A, 0) is a power by 0: judged",
               "data-dependent branches: a reading of 0 (0.0, -0.0, integer 0, False) on an offset scale is a point like any other reading; the reference makes "
               "no exception for any value, so the result for a special reading must be the affine result with the same point/difference reading of the label",
               "data-dependent branches: a refusal is never a violation (the statement says 'or refuses') unless it leaves a written target after a mandated "
               "refusal; a call that refuses a special reading while the control (ordinary reading, same dtype, same spelling, same form) returns is "
               "recorded (datadep_refusal_only_for_special_reading), not judged; a call that returns for a special reading while its control refuses is "
               "judged by the affine reference like every returned value",
               "data-dependent branches: a bare (unit-less) operand is not a temperature quantity; a bare zero takes the unit of the other operand by the "
               "library's documented idiom (C01) and is judged as a zero written in that unit (so 0 + x degC is point+point: recorded); every other bare "
               "operand is recorded only",
               "data-dependent branches: boolean operands are computed in float16 by the library's width rule (C17): the bound is 16 float16 ulp and cases "
               "whose factors leave the float16 range are discarded and counted, as for float32",
               "data-dependent reductions: every judged result is a difference (sums of differences; differences of two readings of one unit, where the "
               "zero points cancel) and is read through the scale of its label only; sums of points, difference-minus-point chains (subtract.reduce over 3 "
               "points, subtract.accumulate of points) and results without any element are recorded, not judged")
MIN_EVALS = 4000
TIMEOUT = 900
READINGS = [0.0, 10.0, -40.0, 36.6, 451.0, -273.15, 0.5]


@functools.lru_cache(maxsize=None)
def aff(name):
    f, s, _ = names.resolve(name)
    de = defs.T[s]
    a = de.value * f
    return (a, -de.value * de.offset) if de.offset else (a, 0.0)


@functools.lru_cache(maxsize=None)
def fam(name):
    f, s, _ = names.resolve(name)
    return s if f == 1.0 else "p-" + s


@functools.lru_cache(maxsize=None)
def kind(name):
    return "point" if aff(name)[1] != 0.0 else "diff"


def units(tier):
    pre = ["m", "k"] if tier == "quick" else ["Y", "G", "M", "k", "h", "da", "d", "c", "m", "u", "n", "p", "y"]
    us = ["K", "R", "degC", "degF", "delta_degC", "delta_degF"]
    for p in pre:
        us += [p + "K", p + "degC", p + "delta_degC"]
    return us


def batches(tier, seed):
    us = units(tier)
    pairs = list(itertools.product(us, us))
    nrand = 8 if tier == "quick" else 40
    b = [("additive/%d" % i, ("additive", (c, seed, nrand))) for i, c in enumerate(chunks(pairs, 16))]
    b += [("convert/%d" % i, ("convert", c)) for i, c in enumerate(chunks(pairs, 16))]
    # aliasing call forms: a chunk is a list of ordered pairs; more, smaller chunks in the thorough tier (each pair is ~40 forms x dtypes)
    nal = 16 if tier == "quick" else 96
    b += [("alias/%d" % i, ("alias", (c, seed, 1 if tier == "quick" else 2, c08_alias.DTPAIRS[tier]))) for i, c in enumerate(chunks(pairs, nal))]
    points = [u for u in us if kind(u) == "point"]
    b += [("mustraise", ("mustraise", points)), ("reductions", ("reductions", us))]
    # degenerate shapes of the must-refuse matrix: one batch per offset-scale unit and plan family (the control unit K runs in each)
    for u in points:
        b += [("degenerate/%s/%s" % (part, u), ("degenerate", (part, [u], tier))) for part in ("reduce", "cumulative")]
    b += [("degenerate/power/%d" % i, ("degenerate", ("power", c, tier))) for i, c in enumerate(chunks(points, 4))]
    b.append(("degenerate/products", ("degenerate", ("products", points, tier))))
    # data-dependent branches: special readings x spellings x positions x forms for every ordered pair; conversions; sums/differences along an axis
    # thorough: the pairs of the quick unit set (with the full cross) plus every other prefixed unit against one offset and one difference
    # scale in both orders (with the quick cross) - about three times the quick size
    ddpairs = pairs
    if tier != "quick":
        core = units("quick")
        ddpairs = list(itertools.product(core, core))
        for u in us:
            if u not in core:
                for p_ in ("degC", "delta_degF"):
                    ddpairs += [(u, p_), (p_, u)]
    b += [("datadep/%d" % i, ("datadep", (c, tier))) for i, c in enumerate(chunks(ddpairs, 24 if tier == "quick" else 48))]
    b += [("datadep-convert/%d" % i, ("datadep-convert", c)) for i, c in enumerate(chunks(ddpairs, 6 if tier == "quick" else 12))]
    b += [("datadep-reduce/%d" % i, ("datadep-reduce", (c, tier))) for i, c in enumerate(chunks(us, 4 if tier == "quick" else 12))]
    b += [("datadep-routes/%d" % i, ("datadep-routes", c)) for i, c in enumerate(chunks(ddpairs, 6 if tier == "quick" else 12))]
    b.append(("datadep-systems", ("datadep-systems", us)))
    return b


def tol(*terms):
    return 16 * 2.3e-16 * sum(abs(t) for t in terms) + 1e-300


def expected(u1, u2, x, y, op, U):
    """expected reading of the result labelled U, or None when the statement does not judge the combination"""
    k1, k2 = kind(u1), kind(u2)
    a1, b1 = aff(u1); a2, b2 = aff(u2); aU, bU = aff(U)
    sgn = 1 if op == "+" else -1
    if k1 == "point" and k2 == "diff":
        K = (a1 * x + b1) + sgn * a2 * y; sem = "point"
    elif k1 == "diff" and k2 == "point" and op == "+":
        K = a1 * x + (a2 * y + b2); sem = "point"
    elif k1 == "diff" and k2 == "diff":
        K = a1 * x + sgn * a2 * y; sem = "diff"
    elif k1 == "point" and k2 == "point" and op == "-":
        K = (a1 * x + b1) - (a2 * y + b2); sem = "diff"
    else:
        return None
    if sem == "point" and bU != 0.0:
        val = (K - bU) / aU
    else:
        val = K / aU
    return val, sem, tol(a1 * x / aU, a2 * y / aU, b1 / aU, b2 / aU, bU / aU)


EPS = {"f8": 2.3e-16, "f4": 1.2e-7, "f2": 9.8e-4}


def expected_alias(u1, u2, x, y, op, U, eps):
    """vectorised `expected` for the aliasing forms: x, y float64 arrays of the readings the operands held before the call.
    The zero points are combined first (they are the same float for one scale family, so they cancel exactly and do not
    drown readings written with a small prefix); the bound follows the narrowest float format that took part.
    Returns (values, semantics, bound, magnitudes that must fit the float format) or None when not judged."""
    k1, k2 = kind(u1), kind(u2)
    a1, b1 = aff(u1); a2, b2 = aff(u2); aU, bU = aff(U)
    sgn = 1.0 if op == "+" else -1.0
    if k1 == "point" and k2 == "diff":
        B = b1; sem = "point"
    elif k1 == "diff" and k2 == "point" and op == "+":
        B = b2; sem = "point"
    elif k1 == "diff" and k2 == "diff":
        B = 0.0; sem = "diff"
    elif k1 == "point" and k2 == "point" and op == "-":
        B = b1 - b2; sem = "diff"
    else:
        return None
    if sem == "point" and bU != 0.0:
        B = B - bU
    t1 = np.asarray(x, dtype="f8") * a1 / aU
    t2 = np.asarray(y, dtype="f8") * a2 / aU
    val = t1 + sgn * t2 + B / aU
    bound = 16 * eps * (np.abs(t1) + np.abs(t2) + abs(B / aU)) + 1e-300
    mags = [a1 / a2, a2 / a1, a1 / aU, a2 / aU, t1, t2, np.asarray(x) * a1 / a2, np.asarray(y) * a2 / a1, val]
    return val, sem, bound, mags


def _fits(mags, lo, hi):
    for m in mags:
        m = np.abs(np.asarray(m, dtype="f8")).ravel()
        m = m[m != 0]
        if m.size and (not np.all(np.isfinite(m)) or m.min() < lo or m.max() > hi):
            return False
    return True


def _vals(o):
    """float64 copy of the numbers an object holds now (its unit is read separately)"""
    return np.array(np.asarray(o.d if hasattr(o, "units") else o), dtype="f8")


def _same(p, q):
    return p.shape == q.shape and bool(np.all((p == q) | (np.isnan(p) & np.isnan(q))))


def judge_alias(rec, form, op, u1, u2, da, db, plan):
    """run one aliasing plan and judge the returned object and the out= buffer"""
    a, b, out, call, xe, ye = plan
    k1, k2 = kind(u1), kind(u2)
    key_f = f"{fam(u1)}{op}{fam(u2)}"
    case = {"u1": u1, "u2": u2, "x": np.asarray(xe).tolist(), "y": np.asarray(ye).tolist(), "op": op, "form": form, "dtypes": [da, db]}
    out_before = None if out is None else _vals(out)
    bystanders = [(nm, o, _vals(o), str(o.units)) for nm, o in (("left", a), ("right", b)) if out is None or (o is not out and not np.shares_memory(o, out))]
    floats = [c08_alias.fl(da), c08_alias.fl(db)] + ([c08_alias.fl(out.dtype)] if out is not None else [])
    # structural cell of its own: an integer target whose memory the *other* operand object also views (unyt turns an integer
    # target into floats in place before the ufunc reads its operands); keyed by form only, the unit pair plays no part in it
    int_target_viewed = out is not None and out.dtype.kind in "iu" and any(o is not out and np.shares_memory(o, out) for o in (a, b))
    eps = max(EPS[f] for f in floats)
    try:
        r = call(); raised = None
    except Exception as e:
        r = None; raised = type(e).__name__
    two_offset_scales = k1 == "point" and k2 == "point" and aff(u1) != aff(u2)
    if raised is not None:
        intact = out is None or _same(out_before, _vals(out))
        if two_offset_scales:
            if not intact:
                rec.violation(f"C08:alias:written-before-refusal:{form}:{key_f}", f"{u1}{op}{u2} ({form}, {da},{db}) raised {raised} but the target holds {_vals(out).tolist()} instead of {out_before.tolist()}", case)
            else:
                rec.ok(("alias-refused-2offset", form, u1, op, u2))
                if out is not None:
                    rec.count("alias:refusal-target-intact")
        else:
            rec.note(f"alias-refused:{k1}{op}{k2}")
            if not intact:
                rec.note(f"alias-refused-but-target-changed:{form}:{k1}{op}{k2}")
            rec.ok(("alias-refusal", form, u1, op, u2))
        return
    if two_offset_scales:
        rec.violation(f"C08:alias:two-offset-scales-combined:{form}:{key_f}", f"{u1}{op}{u2} ({form}, {da},{db}) returned {r!r}; two different offset scales must be refused", case)
        return
    if not hasattr(r, "units"):
        rec.violation(f"C08:alias:result-without-unit:{form}:{key_f}", f"{u1}{op}{u2} ({form}) returned bare {r!r}", case)
        return
    subjects = [("returned", r, r.units)]
    if out is not None and out is not r:
        # a bare ndarray carries no label: its numbers are read with the unit of the object the call returned
        subjects.append(("out-buffer", out, out.units if hasattr(out, "units") else r.units))
    judged = 0
    for role, obj, U in subjects:
        Uname = str(U.expr)
        rr = names.resolve(Uname)
        if rr is None or defs.T[rr[1]].dim != defs.T["K"].dim:
            rec.violation(f"C08:alias:result-unit-not-temperature:{form}:{role}:{key_f}", f"{u1}{op}{u2} ({form}) -> {role} unit {U}", case)
            continue
        ex = expected_alias(u1, u2, xe, ye, op, Uname, eps)
        if ex is None:
            rec.note(f"alias-not-judged:{k1}{op}{k2}")
            continue
        val, sem, bound, mags = ex
        if eps > EPS["f8"] and not _fits(mags, 1e-30, 1e30):
            rec.count("alias-discarded-float32-range"); continue
        got = _vals(obj)
        try:
            val_b = np.broadcast_to(val, got.shape); bound_b = np.broadcast_to(bound, got.shape)
        except ValueError:
            rec.violation(f"C08:alias:result-shape:{form}:{role}:{key_f}", f"{u1}{op}{u2} ({form}) -> {role} shape {got.shape}, operands broadcast to {np.shape(val)}", case)
            continue
        if not np.all(np.abs(got - val_b) <= bound_b):
            rec.violation(f"C08:alias:affine-value:{form}:{role}:" + ("integer-target-is-view-of-other-operand" if int_target_viewed else key_f),
                          f"{np.asarray(xe).tolist()} {u1} {op} {np.asarray(ye).tolist()} {u2} ({form}, {da},{db}): {role} holds {got.tolist()} {Uname}; affine arithmetic gives {val_b.tolist()} {Uname} ({sem})", case)
        else:
            rec.ok(("alias", form, role, u1, op, u2))
            rec.count(f"alias:{role}-judged"); rec.count(f"alias-dtypes:{da},{db}")
            judged += 1
    if judged:
        rec.count(f"alias-form:{form}")
    for nm, o, before, ub in bystanders:
        # an operand that is not the target: not in the statement (C18's subject), recorded only
        if not _same(before, _vals(o)) or str(o.units) != ub:
            rec.note(f"alias-bystander-operand-changed:{form}:{nm}")


FORMS = {
    "operator": lambda np_, a, b, op: (a + b) if op == "+" else (a - b),
    "ufunc": lambda np_, a, b, op: np_.add(a, b) if op == "+" else np_.subtract(a, b),
}


def run_form(unyt, form, u1, u2, x, y, op):
    a = unyt.unyt_array(np.array([x, x]), u1)
    b = unyt.unyt_array(np.array([y, y]), u2)
    if form == "operator":
        r = (a + b) if op == "+" else (a - b)
    elif form == "ufunc":
        r = np.add(a, b) if op == "+" else np.subtract(a, b)
    elif form == "inplace":
        r = a.copy()
        if op == "+":
            r += b
        else:
            r -= b
    elif form == "out":
        buf = unyt.unyt_array(np.zeros(2), u1)
        r = np.add(a, b, out=buf) if op == "+" else np.subtract(a, b, out=buf)
        if r is not buf and not np.shares_memory(r, buf):
            pass
        r = buf
    elif form == "scalar":
        qa = unyt.unyt_quantity(x, u1); qb = unyt.unyt_quantity(y, u2)
        r = (qa + qb) if op == "+" else (qa - qb)
        return np.array([float(r.d)]), r.units
    return np.asarray(r.d), r.units


def worker(batch, rec):
    import unyt
    from unyt import Unit
    bid, (kind_, payload) = batch
    if kind_ == "additive":
        payload, seed, nrand = payload
        r = core.rng(seed, bid)
        extra = [(r.choice([-1, 1]) * 10 ** r.uniform(-3, 5), r.choice([-1, 1]) * 10 ** r.uniform(-3, 5)) for _ in range(nrand)]
        for (u1, u2) in payload:
            k1, k2 = kind(u1), kind(u2)
            for op in "+-":
                for form in ("operator", "ufunc", "inplace", "out", "scalar"):
                    for (x, y) in ((10.0, 4.0), (-40.0, 36.6), (0.0, 451.0), (0.5, -273.15)) + tuple(extra):
                        case = {"u1": u1, "u2": u2, "x": x, "y": y, "op": op, "form": form}
                        try:
                            vals, U = run_form(unyt, form, u1, u2, x, y, op)
                            raised = None
                        except Exception as e:
                            raised = type(e).__name__
                        two_offset_scales = (k1 == "point" and k2 == "point" and Unit(u1) != Unit(u2))
                        key_f = f"{fam(u1)}{op}{fam(u2)}"
                        if two_offset_scales:
                            if raised is None:
                                rec.violation(f"C08:two-offset-scales-combined:{key_f}", f"{x} {u1} {op} {y} {u2} ({form}) returned {vals.tolist()} {U}; two different offset scales must be refused", case)
                            else:
                                rec.ok(("refused-2offset", form, u1, op, u2))
                            continue
                        if raised is not None:
                            rec.note(f"refused:{k1}{op}{k2}")
                            rec.ok(("refusal", form, u1, op, u2))
                            continue
                        Uname = str(U.expr)
                        if names.resolve(Uname) is None or defs.T[names.resolve(Uname)[1]].dim != defs.T["K"].dim:
                            rec.violation(f"C08:result-unit-not-temperature:{key_f}", f"{u1}{op}{u2} -> unit {U}", case); continue
                        ex = expected(u1, u2, x, y, op, Uname)
                        if ex is None:
                            rec.note(f"not-judged:{k1}{op}{k2}")
                            continue
                        val, sem, t = ex
                        if not np.all(np.abs(vals - val) <= t):
                            rec.violation(f"C08:affine-value:{key_f}", f"{x} {u1} {op} {y} {u2} ({form}) = {vals.tolist()} {U}; affine arithmetic gives {val!r} {Uname} ({sem})", case)
                        else:
                            rec.ok(("additive", form, u1, op, u2))
        rec.sample({"pair": list(payload[0]), "forms": ["operator", "ufunc", "inplace", "out", "scalar"]})
    elif kind_ == "alias":
        pairs, seed, nrand, dtpairs = payload
        r = core.rng(seed, bid)
        sets = [((10.0, -40.0, 0.5), (4.0, 36.6, -273.15))]
        for _ in range(nrand):
            sets.append((tuple(r.choice([-1, 1]) * 10 ** r.uniform(-3, 5) for _ in range(3)), tuple(r.choice([-1, 1]) * 10 ** r.uniform(-3, 5) for _ in range(3))))
        isets = [((10, -40, 7), (4, 37, -273))] + [(tuple(r.randint(-999, 999) for _ in range(3)), tuple(r.randint(-999, 999) for _ in range(3))) for _ in range(nrand)]
        for (u1, u2) in pairs:
            for op in "+-":
                for (da, db) in dtpairs:
                    for (fx, fy), (ix, iy) in zip(sets, isets):
                        xs = ix if da[0] == "i" else fx
                        ys = iy if db[0] == "i" else fy
                        for form, build in c08_alias.plans(unyt, op, u1, u2, xs, ys, da, db):
                            plan = build()
                            if plan is None:
                                continue
                            judge_alias(rec, form, op, u1, u2, da, db, plan)
        rec.sample({"alias_pair": list(pairs[0]), "forms": list(c08_alias.FORMS), "dtype_pairs": [list(d) for d in dtpairs], "reading_sets": len(sets)})
    elif kind_ == "convert":
        IREAD =[0, 10, -40, 37, 451, -273, 100]
        for (u1, u2) in payload:
            a1, b1 = aff(u1); a2, b2 = aff(u2)
            for dt in ("f8", "f4", "i8", "i4", "i2"):
                reads = READINGS if dt[0] == "f" else IREAD
                eps = {"f8": 2.3e-16, "f4": 1.2e-7, "i8": 2.3e-16, "i4": 1.2e-7, "i2": 9.8e-4}[dt]
                exp = np.array([(a1 * v + b1 - b2) / a2 for v in reads])
                t = np.array([4 * eps * (abs(a1 * v / a2) + abs(b1 / a2) + abs(b2 / a2)) for v in reads]) + 1e-300
                if dt == "i2" and (not np.all(np.isfinite(exp)) or np.max(np.abs(exp)) > 6e4 or abs(a1 / a2) > 6e4 or abs(a1 / a2) < 1e-4):
                    continue   # float16 range
                if dt in ("f4", "i4") and (np.max(np.abs(exp)) > 3e38 or abs(a1 / a2) > 3e38):
                    continue
                # results or factors below the normal range of the result's float type are rounded to subnormals/zero by
                # IEEE arithmetic itself (0.5 yK -> YK in float32 is 5e-49 -> 0.0): not decidable with a relative bound
                tiny = {"f8": 2.3e-308, "i8": 2.3e-308, "f4": 1.2e-38, "i4": 1.2e-38, "i2": 6.2e-5}[dt]
                nz = np.abs(exp[exp != 0])
                if abs(a1 / a2) < tiny or (nz.size and np.min(nz) < tiny):
                    rec.count("convert-discarded-underflow"); continue
                for route in ("to", "in_units", "to_value", "convert_to_units", "scalar.to", "scalar.convert_to_units", "view.convert_to_units"):
                    x = unyt.unyt_array(np.array(reads, dtype=dt), u1)
                    try:
                        if route == "to":
                            y = x.to(u2); got = np.asarray(y.d, dtype="f8"); U = y.units
                        elif route == "in_units":
                            y = x.in_units(u2); got = np.asarray(y.d, dtype="f8"); U = y.units
                        elif route == "to_value":
                            got = np.asarray(x.to_value(u2), dtype="f8"); U = None
                        elif route == "convert_to_units":
                            x.convert_to_units(u2); got = np.asarray(x.d, dtype="f8"); U = x.units
                        elif route == "scalar.to":
                            got = np.array([float(unyt.unyt_quantity(np.array(v, dtype=dt), u1).to(u2).d) for v in reads]); U = None
                        elif route == "scalar.convert_to_units":
                            got = []
                            for v in reads:
                                q = unyt.unyt_quantity(np.array(v, dtype=dt), u1); q.convert_to_units(u2); got.append(float(q.d))
                            got = np.array(got); U = None
                        else:
                            if dt[0] == "i":
                                continue     # in-place conversion of an integer view changes the itemsize of the base; refused or not is not C08's subject
                            base = unyt.unyt_array(np.array(list(reads) + list(reads), dtype=dt), u1)
                            v_ = base[:len(reads)]; v_.convert_to_units(u2); got = np.asarray(v_.d, dtype="f8"); U = v_.units
                    except Exception as e:
                        if dt[0] == "i" and isinstance(e, ValueError):
                            rec.note(f"convert-refused:{route}:{dt}"); continue
                        rec.violation(f"C08:convert-raises:{route}:{fam(u1)}->{fam(u2)}", f"{u1}->{u2} ({route}, {dt}) raised {type(e).__name__}: {e}", [u1, u2, route, dt]); continue
                    if U is not None and (str(U.expr) != str(unyt.Unit(u2).expr)):
                        rec.violation(f"C08:convert-unit:{route}:{fam(u1)}->{fam(u2)}", f"{u1}->{u2} ({route}) labelled {U}", [u1, u2, route, dt]); continue
                    if got.shape != exp.shape or not np.all(np.abs(got - exp) <= t):
                        bad = int(np.argmax(np.abs(got - exp) / t)) if got.shape == exp.shape else 0
                        rec.violation(f"C08:convert-value:{route}:{'int' if dt[0] == 'i' else 'float'}:{fam(u1)}->{fam(u2)}",
                                      f"{reads[bad]} {u1} ({dt}) -> {got.tolist()[bad] if got.shape == exp.shape else got.tolist()!r} {u2} via {route}; exact affine map gives {exp[bad]!r}", [u1, u2, route, dt])
                    else:
                        rec.ok(("convert", route, dt, u1, u2))
        rec.sample({"convert": list(payload[0]), "readings": READINGS, "routes": 7, "dtypes": 5})
    elif kind_ == "mustraise":
        m = unyt.unyt_quantity(3.0, "m"); s_ = unyt.unyt_quantity(2.0, "s")
        for u in payload:
            def arr():
                return unyt.unyt_array(np.array([10.0, 20.0, 30.0, 40.0]), u)

            def sq():
                return unyt.unyt_array(np.array([[10.0, 20.0], [30.0, 45.0]]), u)
            q = unyt.unyt_quantity(25.0, u)
            ops = {
                "q*2": lambda: arr() * 2, "2*q": lambda: 2 * arr(), "q*2.0(np)": lambda: arr() * np.float64(2.0), "q*q": lambda: arr() * arr(), "q*m": lambda: arr() * m, "m*q": lambda: m * arr(),
                "q/2": lambda: arr() / 2, "2/q": lambda: 2 / arr(), "q/q": lambda: arr() / arr(), "q/s": lambda: arr() / s_, "m/q": lambda: m / arr(),
                "q//2": lambda: arr() // 2,
                "q**2": lambda: arr() ** 2, "q**0.5": lambda: arr() ** 0.5, "q**-1": lambda: arr() ** -1, "q**3": lambda: arr() ** 3,
                "np.multiply": lambda: np.multiply(arr(), 2), "np.divide": lambda: np.divide(arr(), 2), "np.true_divide(q,q)": lambda: np.true_divide(arr(), arr()),
                "np.power(q,2)": lambda: np.power(arr(), 2), "np.power(q,4)": lambda: np.power(arr(), 4), "np.square": lambda: np.square(arr()),
                "np.sqrt": lambda: np.sqrt(arr()), "np.cbrt": lambda: np.cbrt(arr()), "np.reciprocal": lambda: np.reciprocal(arr()),
                "np.prod": lambda: np.prod(arr()), "multiply.reduce": lambda: np.multiply.reduce(arr()), "np.dot": lambda: np.dot(arr(), arr()),
                "np.var": lambda: np.var(arr()), "np.linalg.inv": lambda: np.linalg.inv(sq()), "q@q": lambda: sq() @ sq(),
                "q*=2": lambda: _ip(arr(), "mul"), "q/=2": lambda: _ip(arr(), "div"), "q**=2": lambda: _ip(arr(), "pow"),
                "np.multiply(out=)": lambda: np.multiply(arr(), 2, out=arr()), "scalar q*2": lambda: q * 2, "scalar q**2": lambda: q ** 2,
                "scalar q/q": lambda: q / q, "np.outer": lambda: np.outer(arr(), arr()), "np.cross": lambda: np.cross(arr()[:3], arr()[:3]),
                "np.linalg.det": lambda: np.linalg.det(sq()), "np.std**2": lambda: np.std(arr()) ** 2, "np.cumprod": lambda: np.cumprod(arr()),
            }
            for name, fn in ops.items():
                try:
                    r = fn()
                except Exception as e:
                    rec.ok(("mustraise", name, u)); continue
                rec.violation(f"C08:must-raise:{name}:{fam(u)}", f"{name} on {u} data returned {r!r} instead of raising", {"unit": u, "op": name})
        rec.sample({"mustraise_units": payload[:3], "ops": 42})
    elif kind_ == "reductions":
        for u in payload:
            a, b = aff(u)
            vals = np.array([10.0, 25.0, -5.0, 40.0])
            for name, fn, ref in (("np.diff", lambda x: np.diff(x), np.diff(vals)), ("np.ediff1d", lambda x: np.ediff1d(x), np.ediff1d(vals)),
                                  ("np.ptp", lambda x: np.ptp(x), np.array(np.ptp(vals))), ("np.gradient", lambda x: np.gradient(x), np.gradient(vals)),
                                  ("a[1:]-a[:-1]", lambda x: x[1:] - x[:-1], np.diff(vals))):
                x = unyt.unyt_array(vals.copy(), u)
                try:
                    r = fn(x)
                except Exception as e:
                    rec.note(f"reduction-refused:{name}:{kind(u)}"); rec.ok(("reduction-refusal", name, u)); continue
                if not hasattr(r, "units"):
                    rec.violation(f"C08:reduction:{name}:{fam(u)}:no-units", f"{name} of {u} data returned bare {r!r}", {"unit": u}); continue
                Un = str(r.units.expr)
                rr = names.resolve(Un)
                if rr is None or defs.T[rr[1]].dim != defs.T["K"].dim:
                    rec.violation(f"C08:reduction:{name}:{fam(u)}:unit", f"{name} of {u} -> unit {r.units}", {"unit": u}); continue
                aU, bU = aff(Un)
                exp = a * ref / aU          # a difference: scale only
                if not np.all(np.abs(np.asarray(r.d) - exp) <= 16 * 2.3e-16 * (np.abs(exp) + np.abs(a * vals.max() / aU))):
                    rec.violation(f"C08:reduction:{name}:{fam(u)}:value", f"{name} of {vals.tolist()} {u} = {np.asarray(r.d).tolist()} {Un}; differences are {exp.tolist()} {Un}", {"unit": u, "op": name})
                else:
                    rec.ok(("reduction", name, u))
        rec.sample({"reductions": ["diff", "ediff1d", "ptp", "gradient", "slice-subtract"], "units": payload[:4]})
    elif kind_ == "degenerate":
        import warnings
        part, us, tier = payload
        with warnings.catch_warnings(), np.errstate(all="ignore"):
            warnings.simplefilter("ignore")
            if part in ("reduce", "cumulative"):
                _deg_reductions(rec, unyt, part, us, tier)
            elif part == "power":
                _deg_powers(rec, unyt, us, tier)
            else:
                _deg_products(rec, unyt, us, tier)
    elif kind_ in ("datadep", "datadep-convert", "datadep-reduce", "datadep-routes", "datadep-systems"):
        import warnings
        with warnings.catch_warnings(), np.errstate(all="ignore"):
            warnings.simplefilter("ignore")
            if kind_ == "datadep":
                _dd_pairs(rec, unyt, payload[0], payload[1])
            elif kind_ == "datadep-convert":
                _dd_convert(rec, unyt, payload)
            elif kind_ == "datadep-routes":
                _dd_routes(rec, unyt, payload)
            elif kind_ == "datadep-systems":
                _dd_systems(rec, unyt, payload)
            else:
                _dd_reduce(rec, unyt, payload[0], payload[1])


CONTROL = "K"     # a scale without zero point: the same call on the same numbers must return, otherwise the refusal says nothing


def _attempt(fn):
    try:
        return fn(), None
    except Exception as e:
        return None, type(e).__name__


def _deg_out(unyt, kind_, ref, u):
    if kind_ == "none":
        return None
    buf = np.full(ref.shape, 7, dtype=ref.dtype)
    if kind_ == "ndarray":
        return buf
    return unyt.unyt_array(buf, u if kind_ == "unyt" else "m")


def _deg_reductions(rec, unyt, part, us, tier):
    g = c08_degenerate
    plans = g.reduce_plans(tier) if part == "reduce" else g.cumulative_plans(tier)
    for plan in plans:
        op = plan["op"]
        X = g.raw(plan["shape"], plan["dt"])
        ref, err = _attempt(lambda: np.asarray(g.run(op, X.copy(), g.kwargs_of(plan, None))))
        if err is not None:
            rec.count("degenerate-skipped:numpy-itself-refuses"); continue
        _, err = _attempt(lambda: g.run(op, unyt.unyt_array(X.copy(), CONTROL), g.kwargs_of(plan, _deg_out(unyt, plan["out"], ref, CONTROL))))
        if err is not None:
            rec.note(f"degenerate-vacuous:{op}:control-raises-{err}"); rec.count("degenerate-vacuous"); continue
        init = plan.get("initial", "absent")
        if part == "reduce":
            n = g.nred_for(plan)
            # a start value is one more factor, except the identity of a product (what NumPy starts from anyway)
            extra_factor = init != "absent" and not (init == 1.0 and "divide" not in op)
            single = n == 1 and not extra_factor
            ncls = ("n0" if n == 0 else "n1" if n == 1 else "n2" if n == 2 else "n3+") + ("+initial" if extra_factor else "")
            expo = (2 - n) if "divide" in op else n          # exponent of the unit in the product (start value: a bare number)
        else:
            n = g.nacc_for(plan)
            if n is None:
                rec.count("degenerate-skipped:numpy-itself-refuses"); continue
            single = n == 1; extra_factor = False; expo = None
            ncls = "n0" if n == 0 else "n1" if n == 1 else "n2" if n == 2 else "n3+"
        for u in us:
            x = unyt.unyt_array(X.copy(), u)
            out = _deg_out(unyt, plan["out"], ref, u)
            before = None if out is None else _vals(out)
            r, raised = _attempt(lambda: g.run(op, x, g.kwargs_of(plan, out)))
            case = {"unit": u, "op": op, "shape": list(plan["shape"]), "axis": repr(plan["axis"]), "keepdims": plan.get("keepdims", False), "out": plan["out"],
                    "initial": init, "dtype": plan["dt"], "readings_combined": n}
            if ref.size == 0 and n != 0:
                rec.note(f"degenerate-empty-result:{op}:{'refused' if raised else 'returned'}"); rec.count("degenerate:empty-result-recorded"); continue
            if single:
                # one reading, nothing multiplied or divided: not a product, recorded
                if raised:
                    rec.note(f"degenerate-single-reading:{op}:refused")
                else:
                    same = hasattr(r, "units") and str(r.units.expr) == str(x.units.expr) and _same(_vals(r).reshape(ref.shape), X.astype("f8").reshape(ref.shape))
                    rec.note(f"degenerate-single-reading:{op}:{'handed-back' if same else 'returned-changed'}")
                rec.count("degenerate:single-reading-recorded"); continue
            descr = f"{op}({plan['dt']} {u} data of shape {plan['shape']}, axis={plan['axis']!r}" + (", keepdims=True" if plan.get("keepdims") else "") \
                + (f", out=<{plan['out']}>" if out is not None else "") + (f", initial={init}" if init != "absent" else "") + f"): {n} readings combined per result element"
            if raised is None:
                rec.violation(f"C08:must-raise-degenerate:{op}:{ncls}:{fam(u)}", f"{descr}; returned {r!r} instead of raising", case)
            else:
                rec.ok(("degenerate", part, op, plan["aform"], ncls, plan.get("keepdims", False), plan["out"], u))
                if out is not None:
                    if _same(before, _vals(out)):
                        rec.count("degenerate:out-target-intact")
                    else:
                        rec.violation(f"C08:degenerate:written-before-refusal:{op}:{fam(u)}", f"{descr}; raised {raised} but the out= target holds {_vals(out).tolist()} instead of {before.tolist()}", case)
            rec.count(f"degenerate-{part}:{ncls.replace('+initial', '')}"); rec.count(f"degenerate-axis:{plan['aform']}"); rec.count(f"degenerate-out:{plan['out']}")
            rec.count(f"degenerate-op:{op}")
            if plan.get("keepdims"):
                rec.count("degenerate:keepdims")
            if extra_factor:
                rec.count("degenerate:initial")
            if expo == 0:
                rec.count("degenerate:unit-exponent-0")
            elif expo == 1:
                rec.count("degenerate:unit-exponent-1-with-start-value")
    rec.sample({"degenerate": part, "units": us, "ops": list(c08_degenerate.REDUCE_OPS if part == "reduce" else c08_degenerate.CUMULATIVE_OPS), "shapes": [list(s_) for s_ in c08_degenerate.shapes(tier)][:12]})


def _deg_powers(rec, unyt, us, tier):
    g = c08_degenerate
    for shape in g.POWER_SHAPES:
        X = g.raw(shape, "f8")
        for ename, cls, mkp in g.exponents(unyt):
            for form in g.POWER_FORMS:
                def build(u):
                    p = mkp(shape)
                    return g.power_call(unyt, form, X, p, u, shape)
                (_, err) = _attempt(lambda: build(CONTROL)[2]())
                if err is not None:
                    rec.note(f"degenerate-vacuous:power:{form}:control-raises-{err}"); rec.count("degenerate-vacuous"); continue
                for u in us:
                    tgt, base, call = build(u)
                    before = None if tgt is None else _vals(tgt)
                    r, raised = _attempt(call)
                    if cls in ("one", "ulp"):
                        # the first power is the quantity itself; an exponent one unit in the last place away from 1 is float noise of a computed 1
                        rec.note(f"degenerate-power:{cls}:{'refused' if raised else 'returned'}"); rec.count("degenerate:power-one-recorded"); continue
                    if base.size == 0:
                        rec.note(f"degenerate-empty-result:power:{'refused' if raised else 'returned'}"); rec.count("degenerate:empty-result-recorded"); continue
                    fc = g.FORM_CLASS[form]
                    case = {"unit": u, "form": form, "exponent": ename, "class": cls, "shape": list(shape)}
                    if raised is None:
                        rec.violation(f"C08:must-raise-degenerate:power:{cls}:{fc}:{fam(u)}", f"{form} with p = {ename} on {u} data of shape {shape} returned {r!r} instead of raising", case)
                    else:
                        rec.ok(("degenerate-power", form, ename, u))
                        if tgt is not None:
                            if _same(before, _vals(tgt)):
                                rec.count("degenerate:power-target-intact")
                            else:
                                rec.violation(f"C08:degenerate:written-before-refusal:power:{fc}:{fam(u)}", f"{form} with p = {ename} on {u} raised {raised} but the target holds {_vals(tgt).tolist()} instead of {before.tolist()}", case)
                    rec.count(f"degenerate-power:{cls}"); rec.count(f"degenerate-power-form:{form}")
    rec.sample({"degenerate": "power", "units": us, "forms": list(g.POWER_FORMS), "exponents": [e[0] for e in g.exponents(unyt)]})


def _deg_products(rec, unyt, us, tier):
    g = c08_degenerate
    for dt in ("f8", "i8"):
        ctl = {}
        for i, (name, cls, call) in enumerate(g.product_ops(unyt, CONTROL, dt)):
            ctl[i] = _attempt(call)[1]
        for u in us:
            for i, (name, cls, call) in enumerate(g.product_ops(unyt, u, dt)):
                if ctl[i] is not None:
                    rec.note(f"degenerate-vacuous:{name}:control-raises-{ctl[i]}"); rec.count("degenerate-vacuous"); continue
                r, raised = _attempt(call)
                if cls in ("single", "empty"):
                    rec.note(f"degenerate-products:{cls}:{name}:{'refused' if raised else 'returned'}"); rec.count("degenerate:products-recorded"); continue
                if raised is None:
                    rec.violation(f"C08:must-raise-degenerate:{name}:{fam(u)}", f"{name} on {dt} {u} operands returned {r!r} instead of raising", {"unit": u, "op": name, "dtype": dt})
                else:
                    rec.ok(("degenerate-products", name, dt, u))
                rec.count(f"degenerate-products:{cls}")
    rec.sample({"degenerate": "products", "units": us, "ops": [o[0] for o in g.product_ops(unyt, CONTROL, "f8")]})


# ------------------------------------------------------------------------------------------------ data-dependent branches
def _close(got, val, bound):
    """elementwise: within the bound where the reference is finite, the same infinity / NaN where it is not"""
    with np.errstate(all="ignore"):
        fin = np.isfinite(val)
        return np.where(fin, np.abs(got - val) <= bound, (got == val) | (np.isnan(got) & np.isnan(val)))


def _dd_judge(rec, form, op, u1, u2, e1, e2, plan, tag, pos, info, control):
    """run one plan of the data-dependent family. e1, e2: the units the operands are read in (a bare zero: the partner's unit; None: a bare
    operand that is not judged). control: outcome of the same call with ordinary readings ('returned' / 'refused'), None for the control
    itself. Returns 'returned' or 'refused'."""
    a, b, out, call, xe, ye = plan
    dd = c08_datadep
    key_f = f"{fam(u1)}{op}{fam(u2)}"
    case = dict(info, u1=u1, u2=u2, x=np.asarray(xe).tolist(), y=np.asarray(ye).tolist(), op=op, form=form)
    out_before = None if out is None else _vals(out)
    try:
        r = call(); raised = None
    except Exception as e:
        r = None; raised = type(e).__name__
    outcome = "refused" if raised else "returned"
    if e1 is None or e2 is None:
        rec.note(f"datadep-bare-nonzero-operand:{outcome}"); rec.count("datadep:bare-nonzero-recorded")
        return outcome
    k1, k2 = kind(e1), kind(e2)
    two_offset_scales = k1 == "point" and k2 == "point" and aff(e1) != aff(e2)
    if raised is not None:
        intact = out is None or _same(out_before, _vals(out))
        if two_offset_scales:
            if not intact:
                rec.violation(f"C08:datadep:written-before-refusal:{form}:{tag}:{key_f}", f"{case['x']} {u1} {op} {case['y']} {u2} ({form}) raised {raised} but the target holds {_vals(out).tolist()} instead of {out_before.tolist()}", case)
            else:
                rec.ok(("datadep-refused-2offset", form, pos, info["sclass"], info["rgroup"], fam(u1), op, fam(u2)))
                rec.count("datadep:refused-2offset")
        elif control is None or control == "refused":
            rec.ok(("datadep-refusal", form, pos, info["sclass"], info["rgroup"], fam(u1), op, fam(u2)))
            if control is not None:
                rec.count("datadep:refusal-as-control")
        else:
            # refuses the special reading, returns for the ordinary one: allowed by the statement, recorded
            rec.note(f"datadep-refusal-only-for-special-reading:{form}:{tag}:{k1}{op}{k2}"); rec.count("datadep:refusal-only-for-special-reading")
        return outcome
    if two_offset_scales:
        rec.violation(f"C08:datadep:two-offset-scales-combined:{form}:{tag}:{key_f}", f"{case['x']} {u1} {op} {case['y']} {u2} ({form}) returned {r!r}; two different offset scales must be refused", case)
        return outcome
    if not hasattr(r, "units"):
        rec.violation(f"C08:datadep:result-without-unit:{form}:{tag}:{key_f}", f"{case['x']} {u1} {op} {case['y']} {u2} ({form}) returned bare {r!r}", case)
        return outcome
    floats = [dd.fl(np.asarray(a).dtype), dd.fl(np.asarray(b).dtype)] + ([dd.fl(out.dtype)] if out is not None else [])
    eps = max(EPS[f] for f in floats)
    subjects = [("returned", r, r.units)]
    if out is not None and out is not r:
        subjects.append(("out-buffer", out, out.units if hasattr(out, "units") else r.units))
    for role, obj, U in subjects:
        Uname = str(U.expr)
        rr = names.resolve(Uname)
        if rr is None or defs.T[rr[1]].dim != defs.T["K"].dim:
            rec.violation(f"C08:datadep:result-unit-not-temperature:{form}:{role}:{tag}:{key_f}", f"{case['x']} {u1} {op} {case['y']} {u2} ({form}) -> {role} unit {U}", case)
            continue
        ex = expected_alias(e1, e2, xe, ye, op, Uname, eps)
        if ex is None:
            rec.note(f"datadep-not-judged:{k1}{op}{k2}"); rec.count("datadep:not-in-statement-recorded")
            continue
        val, sem, bound, mags = ex
        if eps > EPS["f8"]:
            lo, hi = (1e-30, 1e30) if eps == EPS["f4"] else (6.2e-5, 6e4)
            finite_mags = [np.asarray(m, dtype="f8")[np.isfinite(np.asarray(m, dtype="f8"))] for m in mags]
            if not _fits(finite_mags, lo, hi):
                rec.count("datadep-discarded-narrow-float-range"); continue
        got = _vals(obj)
        try:
            val_b = np.broadcast_to(val, got.shape); bound_b = np.broadcast_to(bound, got.shape)
        except ValueError:
            rec.violation(f"C08:datadep:result-shape:{form}:{role}:{tag}:{key_f}", f"{case['x']} {u1} {op} {case['y']} {u2} ({form}) -> {role} shape {got.shape}, operands broadcast to {np.shape(val)}", case)
            continue
        if not np.all(_close(got, val_b, bound_b)):
            rec.violation(f"C08:datadep:affine-value:{form}:{role}:{tag}:{key_f}",
                          f"{case['x']} {u1} {op} {case['y']} {u2} ({form}; special operand {pos}: {info['reading']} spelled {info['spelling']}): {role} holds {got.tolist()} {Uname}; "
                          f"affine arithmetic gives {val_b.tolist()} {Uname} ({sem})" + ("" if control != "refused" else "; the same call with an ordinary reading refuses"), case)
        else:
            rec.ok(("datadep", form, role, pos, info["sclass"], info["rgroup"], fam(u1), op, fam(u2)))
            rec.count(f"datadep:{role}-judged"); rec.count(f"datadep-form:{form}"); rec.count(f"datadep-pos:{pos}")
            rec.count(f"datadep-reading:{info['reading']}"); rec.count(f"datadep-spelling:{info['spelling']}")
            if control == "refused":
                rec.count("datadep:returned-where-control-refuses")
    return outcome


def _dd_pairs(rec, unyt, pairs, tier):
    dd = c08_datadep
    core_units = set(units("quick"))
    run_tier = tier
    for (u1, u2) in pairs:
        # the full cross (second representatives of each reading / spelling class, 2-d partner) runs on the pairs of the quick unit set;
        # the other prefixes (a scale factor) get the quick cross, which holds every class of the dimension
        tier = run_tier if (run_tier == "quick" or (u1 in core_units and u2 in core_units)) else "quick"
        R = dd.readings(tier); CT = dd.controls(tier)
        # one Unit object per operand position (built once: parsing the name for each of ~4000 operands would be most of the cost)
        U = {"left": unyt.Unit(u1), "right": unyt.Unit(u2)}
        for op in "+-":
            for pos in ("left", "right"):
                us, up = (u1, u2) if pos == "left" else (u2, u1)
                Us, Up = (U["left"], U["right"]) if pos == "left" else (U["right"], U["left"])
                a_s, b_s = aff(us)
                pv = dd.value("control2", 1.0, 0.0)
                for partner in dd.PARTNERS[tier]:
                    for spelling in dd.spellings(tier):
                        bare = spelling in dd.BSPELL
                        for grp, ctl in CT.items():
                            classes = [c for c in R if dd.READINGS[c][0] == grp and (not bare or c in dd.ZERO_LIKE)]
                            if not classes:
                                continue
                            c = dd.value(ctl, a_s, b_s)
                            ctl_outcome = {}
                            for cls in [ctl] + classes:
                                v = dd.value(cls, a_s, b_s)
                                mk_s = (lambda v=v: dd.operand(unyt, spelling, v, Us, c))
                                mk_p = (lambda: dd.operand(unyt, partner, pv, Up, pv))
                                mk_a, mk_b = (mk_s, mk_p) if pos == "left" else (mk_p, mk_s)
                                if bare:
                                    # a bare zero is read in the partner's unit; any other bare operand is recorded only
                                    es = up if cls in dd.ZERO_LIKE else None
                                else:
                                    es = us
                                e1, e2 = (es, up) if pos == "left" else (up, es)
                                rgroup = "control" if cls == ctl else dd.READINGS[cls][1]
                                tag = f"{pos}={rgroup}/{dd.SPELL_CLASS[spelling]}"
                                info = {"special": pos, "reading": cls, "spelling": spelling, "partner": partner, "rgroup": rgroup, "sclass": dd.SPELL_CLASS[spelling]}
                                for form, build in dd.plans(unyt, op, mk_a, mk_b, U["right"] if (bare and pos == "left") else U["left"]):
                                    plan = build()
                                    if plan is None:
                                        continue
                                    o = _dd_judge(rec, form, op, u1, u2, e1, e2, plan, tag, pos, info, None if cls == ctl else ctl_outcome.get(form))
                                    if cls == ctl:
                                        ctl_outcome[form] = o
            # both operands special
            a1, b1 = aff(u1); a2, b2 = aff(u2)
            ctl_cache = {}
            for (sl, sr) in dd.both_spellings(tier):
                for (cl, cr) in dd.both_readings(tier):
                    gl, gr = dd.READINGS[cl][0], dd.READINGS[cr][0]
                    for is_ctl in (True, False):
                        if is_ctl and (sl, sr, gl, gr) in ctl_cache:
                            continue
                        rl, rr_ = (dd.CONTROLS[gl], "control2" if gr == "f8" else dd.CONTROLS[gr]) if is_ctl else (cl, cr)
                        vl = dd.value(rl, a1, b1); vr = dd.value(rr_, a2, b2)
                        cvl = dd.value(dd.CONTROLS[gl], a1, b1); cvr = dd.value(dd.CONTROLS[gr], a2, b2)
                        mk_a = (lambda: dd.operand(unyt, sl, vl, U["left"], cvl)); mk_b = (lambda: dd.operand(unyt, sr, vr, U["right"], cvr))
                        rg = "control" if is_ctl else f"{dd.READINGS[cl][1]},{dd.READINGS[cr][1]}"
                        sc = f"{dd.SPELL_CLASS[sl]},{dd.SPELL_CLASS[sr]}"
                        info = {"special": "both", "reading": f"{rl},{rr_}", "spelling": f"{sl},{sr}", "partner": None, "rgroup": rg, "sclass": sc}
                        tag = f"both={rg}/{sc}"
                        outs = ctl_cache.setdefault((sl, sr, gl, gr), {}) if is_ctl else None
                        for form, build in dd.plans(unyt, op, mk_a, mk_b, U["left"]):
                            plan = build()
                            if plan is None:
                                continue
                            o = _dd_judge(rec, form, op, u1, u2, u1, u2, plan, tag, "both", info, None if is_ctl else ctl_cache[(sl, sr, gl, gr)].get(form))
                            if is_ctl:
                                outs[form] = o
    rec.sample({"datadep_pair": list(pairs[0]), "forms": list(dd.FORMS), "readings": list(dd.readings(run_tier)), "spellings": list(dd.spellings(run_tier)), "partners": list(dd.PARTNERS[run_tier]),
                "full_cross_units": sorted(core_units)})


def _dd_convert(rec, unyt, pairs):
    dd = c08_datadep
    for (u1, u2) in pairs:
        a1, b1 = aff(u1); a2, b2 = aff(u2)
        ratio = abs(a1 / a2)
        for cls in dd.CONVERT_READINGS:
            v = dd.value(cls, a1, b1)
            dt = np.asarray(v).dtype.str[1:]
            eps = EPS[dd.fl(dt)]
            if dt == "f4" and (ratio > 1e30 or ratio < 1e-30 or abs((b1 - b2) / a2) > 1e30 or 0 < abs((b1 - b2) / a2) < 1e-30):
                rec.count("datadep-convert-discarded-float32-range"); continue
            c = dd.value("icontrol" if dt == "i8" else "f4control" if dt == "f4" else "control", a1, b1)
            rgroup = "control" if cls == "control" else dd.READINGS[cls][1]
            for spelling in dd.CONVERT_SPELLINGS:
                for route in dd.CONVERT_ROUTES:
                    x, reads = dd.operand(unyt, spelling, v, u1, c)
                    tagk = f"{route}:{rgroup}/{dd.SPELL_CLASS[spelling]}:{fam(u1)}->{fam(u2)}"
                    case = {"u1": u1, "u2": u2, "route": route, "reading": cls, "spelling": spelling, "x": reads.tolist()}
                    try:
                        got, U = dd.convert_run(route, x, u2)
                    except Exception as e:
                        if dt[0] == "i" and isinstance(e, ValueError):
                            rec.note(f"datadep-convert-refused:{route}:{dt}"); continue
                        rec.violation(f"C08:datadep:convert-raises:{tagk}", f"{reads.tolist()} {u1} ({spelling}, {dt}) -> {u2} via {route} raised {type(e).__name__}: {e}", case); continue
                    got = np.array(got, dtype="f8")
                    if U is not None and str(U.expr) != str(unyt.Unit(u2).expr):
                        rec.violation(f"C08:datadep:convert-unit:{tagk}", f"{reads.tolist()} {u1} -> {u2} ({route}) labelled {U}", case); continue
                    exp = (a1 * reads + (b1 - b2)) / a2
                    bound = 4 * eps * (np.abs(a1 * reads / a2) + abs(b1 / a2) + abs(b2 / a2)) + 1e-300
                    if got.shape != exp.shape or not np.all(_close(got, exp, bound)):
                        rec.violation(f"C08:datadep:convert-value:{tagk}", f"{reads.tolist()} {u1} ({spelling}, {dt}) -> {got.tolist()} {u2} via {route}; exact affine map gives {exp.tolist()}", case)
                    else:
                        rec.ok(("datadep-convert", route, spelling, cls, fam(u1), fam(u2)))
                        rec.count("datadep-convert:judged"); rec.count(f"datadep-convert-route:{route}"); rec.count(f"datadep-convert-reading:{cls}")
    rec.sample({"datadep_convert": list(pairs[0]), "routes": list(dd.CONVERT_ROUTES), "spellings": list(dd.CONVERT_SPELLINGS), "readings": list(dd.CONVERT_READINGS)})


def _dd_routes(rec, unyt, pairs):
    """the unit of one operand (or the conversion target) is obtained through every door of the Unit constructor / copy protocol"""
    dd = c08_datadep
    X = np.array([0.0, dd.CONTROL_VALUE, -40.0]); Y = np.array([-7.25, 0.0, 36.6])
    for (u1, u2) in pairs:
        a1, b1 = aff(u1); a2, b2 = aff(u2)
        for route in dd.UNIT_ROUTES:
            for pos in ("left", "right"):
                r_unit = dd.unit_by_route(unyt, route, u1 if pos == "left" else u2)
                if r_unit is None:
                    rec.count("datadep-route-absent"); continue
                for op in "+-":
                    for form in ("operator", "ufunc", "quantity"):
                        ul, ur = (r_unit, u2) if pos == "left" else (u1, r_unit)
                        if form == "quantity":
                            a = unyt.unyt_quantity(X[1], ul); b = unyt.unyt_quantity(Y[0], ur); xe, ye = X[1], Y[0]
                        else:
                            a = unyt.unyt_array(X.copy(), ul); b = unyt.unyt_array(Y.copy(), ur); xe, ye = X, Y
                        uf = np.add if op == "+" else np.subtract
                        call = (lambda: uf(a, b)) if form == "ufunc" else (lambda: (a + b) if op == "+" else (a - b))
                        info = {"special": pos, "reading": "ordinary+zero", "spelling": form, "partner": None, "rgroup": "route", "sclass": route}
                        o = _dd_judge(rec, "route:" + form, op, u1, u2, u1, u2, (a, b, None, call, xe, ye), f"{route}:{pos}", pos, info, None)
                        rec.count(f"datadep-route:{route}:{o}")
            # the route-built unit as the label of the data / as the conversion target
            for side in ("source", "target"):
                U = dd.unit_by_route(unyt, route, u1 if side == "source" else u2)
                if U is None:
                    continue
                for cr in ("to", "in_units", "convert_to_units"):
                    x = unyt.unyt_array(X.copy(), U if side == "source" else u1)
                    tagk = f"{route}:{side}:{cr}:{fam(u1)}->{fam(u2)}"
                    case = {"u1": u1, "u2": u2, "route": route, "side": side, "entry": cr, "x": X.tolist()}
                    try:
                        got, Ur = dd.convert_run(cr, x, U if side == "target" else u2)
                    except Exception as e:
                        rec.violation(f"C08:route:convert-raises:{tagk}", f"{X.tolist()} {u1} -> {u2} ({cr}; {side} unit obtained as {route}) raised {type(e).__name__}: {e}", case); continue
                    exp = (a1 * X + (b1 - b2)) / a2
                    bound = 4 * 2.3e-16 * (np.abs(a1 * X / a2) + abs(b1 / a2) + abs(b2 / a2)) + 1e-300
                    got = np.array(got, dtype="f8")
                    if str(Ur.expr) != str(unyt.Unit(u2).expr):
                        rec.violation(f"C08:route:convert-unit:{tagk}", f"{u1} -> {u2} ({cr}; {side} unit obtained as {route}) labelled {Ur}", case)
                    elif got.shape != exp.shape or not np.all(_close(got, exp, bound)):
                        rec.violation(f"C08:route:convert-value:{tagk}", f"{X.tolist()} {u1} -> {got.tolist()} {u2} ({cr}; {side} unit obtained as {route}); exact affine map gives {exp.tolist()}", case)
                    else:
                        rec.ok(("datadep-route-convert", route, side, cr, fam(u1), fam(u2))); rec.count("datadep-route:convert-judged"); rec.count(f"datadep-route-convert:{route}")
    rec.sample({"datadep_routes_pair": list(pairs[0]), "routes": list(dd.UNIT_ROUTES)})


def _dd_systems(rec, unyt, us):
    """base-unit conversion into unit systems whose temperature unit is an offset / prefixed / difference scale, and into the built-in ones"""
    dd = c08_datadep
    X = np.array([0.0, dd.CONTROL_VALUE, -40.0, 300.0])
    systems = [("custom:" + t, t) for t in dd.SYSTEM_TEMPERATURE_UNITS] + [("builtin:" + n, None) for n in dd.BUILTIN_SYSTEMS]
    for sname, t in systems:
        try:
            system = dd.system_for(unyt, t) if t else sname.split(":")[1]
        except Exception as e:
            rec.note(f"datadep-system-not-constructible:{sname}:{type(e).__name__}"); continue
        for u in us:
            a1, b1 = aff(u)
            for entry in dd.SYSTEM_ENTRIES:
                for spelling in ("vec", "quantity"):
                    x = unyt.unyt_array(X.copy(), u) if spelling == "vec" else unyt.unyt_quantity(X[1], u)
                    reads = X if spelling == "vec" else X[1]
                    case = {"unit": u, "system": sname, "entry": entry, "spelling": spelling, "x": np.asarray(reads).tolist()}
                    try:
                        got, Ur = dd.system_run(unyt, entry, x, system)
                    except Exception as e:
                        rec.note(f"datadep-system-refused:{sname}:{entry}:{type(e).__name__}"); rec.count("datadep-system:refused"); continue
                    Un = str(Ur.expr); rr = names.resolve(Un)
                    if rr is None or defs.T[rr[1]].dim != defs.T["K"].dim:
                        rec.violation(f"C08:system:result-unit-not-temperature:{sname}:{entry}:{fam(u)}", f"{u} data, {entry}({sname}) -> unit {Ur}", case); continue
                    if t is not None and aff(Un) != aff(t):
                        rec.note(f"datadep-system-other-temperature-unit:{sname}:{entry}")
                    aU, bU = aff(Un)
                    exp = (a1 * reads + (b1 - bU)) / aU
                    bound = 4 * 2.3e-16 * (np.abs(a1 * reads / aU) + abs(b1 / aU) + abs(bU / aU)) + 1e-300
                    got = np.array(got, dtype="f8")
                    if got.shape != np.shape(exp) or not np.all(_close(got, exp, bound)):
                        rec.violation(f"C08:system:convert-value:{sname}:{entry}:{fam(u)}", f"{np.asarray(reads).tolist()} {u} -> {got.tolist()} {Un} via {entry}({sname}); exact affine map gives {np.asarray(exp).tolist()}", case)
                    else:
                        rec.ok(("datadep-system", sname, entry, spelling, u)); rec.count("datadep-system:judged"); rec.count(f"datadep-system:{sname}"); rec.count(f"datadep-system-entry:{entry}")
    rec.sample({"datadep_systems": [s_[0] for s_ in systems], "entries": list(dd.SYSTEM_ENTRIES), "units": list(us)[:6]})


_DD_SUMS = ("np.add.reduce", "np.sum", "method.sum", "np.nansum", "np.cumsum", "np.add.accumulate", "np.add.reduce(initial=0.0)", "builtin-sum")
_DD_DIFFS = ("np.diff", "np.ediff1d", "np.ptp", "a[0]-a[1]")


def _dd_reduce_judged(op, k, n):
    """is the result of op over n readings of kind k one of the combinations the statement speaks about (all of them differences)?"""
    if op in _DD_SUMS:
        return k == "diff" and not (op == "builtin-sum" and n == 0)
    if op == "np.subtract.reduce":
        return n >= 1 if k == "diff" else n == 2
    if op == "np.subtract.accumulate":
        return k == "diff"
    return True


def _dd_reduce(rec, unyt, us, tier):
    dd = c08_datadep
    for u in us:
        a, b = aff(u); k = kind(u)
        for plan in dd.reduce_plans(tier):
            op, n = plan["op"], plan["n"]
            X, kw = dd.reduce_raw(plan["content"], plan["layout"], n, a, b)
            ref, err = _attempt(lambda: np.asarray(dd.reduce_run(op, X.astype("f8"), kw), dtype="f8"))
            if err is not None:
                rec.count("datadep-reduce-skipped:numpy-itself-refuses"); continue
            x = unyt.unyt_array(X.copy(), u)
            r, raised = _attempt(lambda: dd.reduce_run(op, x, kw))
            case = {"unit": u, "op": op, "content": plan["content"], "layout": plan["layout"], "n": n, "x": X.tolist()}
            if not _dd_reduce_judged(op, k, n):
                rec.note(f"datadep-reduce-not-in-statement:{op}:{k}:{'refused' if raised else 'returned'}"); rec.count("datadep-reduce:not-in-statement-recorded"); continue
            if raised:
                rec.note(f"datadep-reduce-refused:{op}:{k}"); rec.ok(("datadep-reduce-refusal", op, plan["layout"], u)); rec.count("datadep-reduce:refused"); continue
            if ref.size == 0:
                rec.note(f"datadep-reduce-empty-result:{op}"); rec.count("datadep-reduce:empty-result-recorded"); continue
            key = f"{op}:{plan['content']}:{fam(u)}"
            if not hasattr(r, "units"):
                rec.violation(f"C08:datadep:reduction:no-units:{key}", f"{op} of {X.tolist()} {u} returned bare {r!r}", case); continue
            Un = str(r.units.expr)
            rr = names.resolve(Un)
            if rr is None or defs.T[rr[1]].dim != defs.T["K"].dim:
                rec.violation(f"C08:datadep:reduction:unit:{key}", f"{op} of {X.tolist()} {u} -> unit {r.units}", case); continue
            aU, bU = aff(Un)
            exp = a * ref / aU                      # a difference: scale only
            fin = X.astype("f8"); fin = np.abs(fin[np.isfinite(fin)])
            bound = 16 * 2.3e-16 * (np.abs(np.where(np.isfinite(exp), exp, 0.0)) + abs(a / aU) * (fin.sum() if fin.size else 0.0)) + 1e-300
            got = _vals(r)
            if got.shape != exp.shape or not np.all(_close(got, exp, bound)):
                rec.violation(f"C08:datadep:reduction:value:{key}", f"{op} of {X.tolist()} {u} ({plan['layout']}) = {got.tolist()} {Un}; as differences NumPy gives {exp.tolist()} {Un}", case)
            else:
                rec.ok(("datadep-reduce", op, plan["content"], plan["layout"], n, u))
                rec.count("datadep-reduce:judged"); rec.count(f"datadep-reduce-op:{op}"); rec.count(f"datadep-reduce-content:{plan['content']}"); rec.count(f"datadep-reduce-n:{n}")
    rec.sample({"datadep_reduce_units": list(us), "ops": list(dd.REDUCE_OPS), "contents": list(dd.CONTENTS), "layouts": [list(l) for l in dd.REDUCE_LAYOUTS]})


def _ip(a, which):
    if which == "mul":
        a *= 2
    elif which == "div":
        a /= 2
    else:
        a **= 2
    return a


def extra(tier, seed, results):
    counters = {}
    for bid, rr in results:
        for k, v in (rr or {}).get("counters", {}).items():
            counters[k] = counters.get(k, 0) + v
    deciding = ["alias:returned-judged", "alias:out-buffer-judged", "alias:refusal-target-intact"] + [f"alias-form:{f}" for f in c08_alias.FORMS] \
        + [f"alias-dtypes:{a},{b}" for a, b in c08_alias.DTPAIRS[tier]]
    degen = ["degenerate-reduce:n0", "degenerate-reduce:n1", "degenerate-reduce:n2", "degenerate-reduce:n3+", "degenerate:unit-exponent-0", "degenerate:unit-exponent-1-with-start-value",
             "degenerate:initial", "degenerate:keepdims", "degenerate:out-target-intact", "degenerate:single-reading-recorded"] \
        + [f"degenerate-axis:{a}" for a in ("omitted", "None", "int", "negint", "tuple1", "tupleN")] + [f"degenerate-out:{o}" for o in ("none", "unyt", "ndarray", "unyt-foreign")] \
        + [f"degenerate-op:{o}" for o in ("np.multiply.reduce", "np.divide.reduce", "method.prod")] \
        + [f"degenerate-power:{c}" for c in ("zero", "near-zero", "near-one", "mixed")] + [f"degenerate-power-form:{f}" for f in c08_degenerate.POWER_FORMS if "float_power" not in f] \
        + ["degenerate:power-target-intact", "degenerate:power-one-recorded", "degenerate-products:product", "degenerate-products:power0"]
    deciding += degen
    dd = c08_datadep
    datadep = ["datadep:returned-judged", "datadep:out-buffer-judged", "datadep:refused-2offset", "datadep:refusal-as-control", "datadep:returned-where-control-refuses",
               "datadep:not-in-statement-recorded", "datadep:bare-nonzero-recorded", "datadep-convert:judged", "datadep-reduce:judged", "datadep-reduce:not-in-statement-recorded"] \
        + [f"datadep-form:{f}" for f in dd.FORMS] + [f"datadep-pos:{p}" for p in ("left", "right", "both")] + [f"datadep-reading:{r}" for r in dd.readings(tier)] \
        + [f"datadep-reading:{r}" for r in dd.controls(tier).values()] + [f"datadep-spelling:{s_}" for s_ in dd.spellings(tier)] \
        + [f"datadep-convert-route:{r}" for r in dd.CONVERT_ROUTES] + [f"datadep-convert-reading:{r}" for r in dd.CONVERT_READINGS] \
        + [f"datadep-reduce-op:{o}" for o in dd.REDUCE_OPS] + [f"datadep-reduce-content:{c}" for c in dd.CONTENTS] + [f"datadep-reduce-n:{n}" for n in (0, 1, 2, 3)]
    datadep += ["datadep-route:convert-judged", "datadep-system:judged"] + [f"datadep-route:{r}:returned" for r in dd.UNIT_ROUTES] + [f"datadep-route-convert:{r}" for r in dd.UNIT_ROUTES] \
        + [f"datadep-system:custom:{t}" for t in dd.SYSTEM_TEMPERATURE_UNITS] + [f"datadep-system:builtin:{n}" for n in dd.BUILTIN_SYSTEMS] + [f"datadep-system-entry:{e}" for e in dd.SYSTEM_ENTRIES]
    deciding += datadep
    zero = [k for k in deciding if not counters.get(k)]
    broken = [bid for bid, rr in results if not rr or rr.get("status") != "ok"]
    if zero and not broken:
        raise core.Inconclusive("sub-monitors-evaluated-0-times:" + ",".join(zero))
    notes = {}
    for bid, rr in results:
        for k, v in (rr or {}).get("notes", {}).items():
            if k.startswith("datadep-refusal-only-for-special-reading"):
                notes[k] = notes.get(k, 0) + v
    return {"datadep_monitor_evaluations": {k: v for k, v in sorted(counters.items()) if k.startswith("datadep")},
            "datadep_refusal_only_for_special_reading": notes,
            "alias_monitor_evaluations": {k: counters.get(k, 0) for k in deciding if k not in degen and k not in datadep},
            "degenerate_monitor_evaluations": {k: v for k, v in sorted(counters.items()) if k.startswith("degenerate")},
            "alias_discarded_float32_range": counters.get("alias-discarded-float32-range", 0),
            "convert_discarded_underflow": counters.get("convert-discarded-underflow", 0)}
