"""pytest plugin: runs the repository's own test suite as one more *workload* under the passive monitors.

    VF_OBSERVERS="vf.monitors.c16_passive:Passive,vf.monitors.c18_passive:Passive" VF_PLUGIN_OUT=/path/out.json \
        /venv/bin/python -m pytest -p vf.pytest_plugin -p no:cacheprovider -q <tree>/unyt

Only tests in BASELINE.json's stable_pass set are run (tests failing at baseline are no workload source).  Each observer
class is instantiated once, gets `.context` set to the running test id before every test, and is asked for `.dump()`
(a JSON-able dict) at session end.  The plugin itself never judges anything; the property check that launched pytest
merges the dumps.  Outcome of every test is recorded too, so the check can assert that the suite still behaves as at
baseline under the taps (a tap that changes behaviour would be a harness error => inconclusive).
"""
import importlib, json, os

_state = {"handle": None, "observers": [], "outcomes": {}}


def _baseline():
    try:
        with open("/root/.vp/BASELINE.json") as f:
            return set(json.load(f)["stable_pass"])
    except Exception:
        return None


def _nodeid_key(item):
    # BASELINE ids look like "unyt.tests.test_units::test_foo[param]" (junit classname::name)
    mod = item.nodeid.split("::")[0][:-3].replace("/", ".")
    rest = item.nodeid.split("::")[1:]
    cls = ".".join([mod] + rest[:-1])
    return f"{cls}::{rest[-1]}"


def pytest_collection_modifyitems(config, items):
    base = _baseline()
    if base is None:
        return
    keep, drop = [], []
    for it in items:
        k = _nodeid_key(it)
        # baseline ids may be rooted differently (classname relative to rootdir); match by suffix
        if k in base or any(b.endswith(k) or k.endswith(b) for b in ()):
            keep.append(it)
        else:
            drop.append(it)
    if keep:      # if the id scheme does not match at all, run everything rather than nothing
        items[:] = keep
        config.hook.pytest_deselected(items=drop)


def pytest_sessionstart(session):
    from vf.monitors import taps
    obs = []
    for spec in filter(None, os.environ.get("VF_OBSERVERS", "").split(",")):
        modname, _, cls = spec.partition(":")
        obs.append(getattr(importlib.import_module(modname), cls)())
    _state["observers"] = obs
    _state["handle"] = taps.install(observers=obs)


def pytest_runtest_setup(item):
    for o in _state["observers"]:
        o.context = item.nodeid


def pytest_runtest_logreport(report):
    if report.when == "call" or (report.when == "setup" and report.outcome != "passed"):
        _state["outcomes"][report.nodeid] = report.outcome


def pytest_sessionfinish(session, exitstatus):
    h = _state["handle"]
    out = {"tap_calls": dict(h.calls) if h else {}, "outcomes": _state["outcomes"], "observers": {}}
    for o in _state["observers"]:
        try:
            out["observers"][type(o).__module__ + ":" + type(o).__name__] = o.dump()
        except Exception as e:  # noqa
            out["observers"][type(o).__module__ + ":" + type(o).__name__] = {"error": repr(e)}
    if h:
        h.uninstall()
    path = os.environ.get("VF_PLUGIN_OUT")
    if path:
        with open(path, "w") as f:
            json.dump(out, f)
