import argparse, importlib, json, os, sys, time


def main():
    ap = argparse.ArgumentParser()
    ap.add_argument("prop")
    ap.add_argument("--tier", default=os.environ.get("VERIF_TIER", "quick"))
    ap.add_argument("--replay")
    a = ap.parse_args()
    seed = int(os.environ.get("VERIF_SEED", "0"))
    tier = a.tier if a.tier in ("quick", "thorough") else "quick"
    from vf import core
    t0 = time.time()
    prop = a.prop.upper()
    try:
        core.bootstrap()
        mod = importlib.import_module("vf.props." + prop.lower())
    except core.Inconclusive as e:
        print(f"INCONCLUSIVE property={prop} reason={e}")
        return 2
    if a.replay:
        w = json.load(open(a.replay))
        tier, seed = w["tier"], w["seed"]
        batches = [b for b in mod.batches(tier, seed) if b[0] == w["batch"]]
        res = core.run_batches(mod.worker, batches, timeout=mod.TIMEOUT if hasattr(mod, "TIMEOUT") else 600)
        hit = [r for _, r in res if w["key"] in r["viol"]]
        print(("REPRODUCED " if hit else "NOT-REPRODUCED ") + w["key"])
        if hit:
            print(json.dumps(hit[0]["viol"][w["key"]], indent=1)[:3000])
        return 1 if hit else 0
    batches = mod.batches(tier, seed)
    res = core.run_batches(mod.worker, batches, timeout=getattr(mod, "TIMEOUT", 600))
    try:
        extra = mod.extra(tier, seed, res) if hasattr(mod, "extra") else None
    except core.Inconclusive as e:     # a deciding sub-monitor was never reached: not "held"
        print(f"INCONCLUSIVE property={prop} reason={e}")
        return 2
    return core.finish(prop, tier, seed, res, mod.RULE, t0, exhaustive=getattr(mod, "EXHAUSTIVE", False),
                       assumptions=getattr(mod, "ASSUMPTIONS", ()), min_evals=getattr(mod, "MIN_EVALS", 10), extra=extra)


if __name__ == "__main__":
    sys.exit(main())
