"""C02 sub-monitor 'handles': unit strings resolved through every registry HANDLE of a user registry, across registry edits.

A user registry can be reached through several registry objects: the registry itself, the registry of Unit.copy()
(copy.copy of the registry: shares the table), copy.copy(reg), the registry of q.in_mks()/in_cgs()/in_base() when q already
is in base units (get_base_equivalent returns self.copy()), the registry of a conversion result (the same object), and the
independent ones: deep copies (unit, registry, array), pickles (unit, registry, array) and JSON round trips.

One history = a user registry with added symbols, handles spawned from it (and from each other), unit strings (atomic,
prefixed, compound) resolved through one handle ("warm"), a symbol edited (modify by float / by quantity, remove, re-add,
add) through the same or ANOTHER handle, then every string resolved and converted through EVERY handle.  Oracle: the
sequential model ref/regmodel.py, one model per *table* (a handle belongs to the table whose lut dict it holds - observed
with `is`, never assumed from the provenance; an independent handle starts from a snapshot of its source's model), and the
independent expression evaluator ref/uexpr.py: Unit(s, registry=h) must have prefix x scale and the dimension that the
CURRENT contents of h's table imply (or be refused when they imply nothing), x.to(s2) must be x*scale(s1)/scale(s2).
The library is never asked what a string means.
"""
import copy
import pickle
import numpy as np
from vf.ref import dims, regmodel, uexpr

# ------------------------------------------------------------------------------------------------------------ alphabet
USER = {"code_length": ("L", True, 2.0), "code_mass": ("M", False, 3.0), "code_time": ("T", True, 5.0)}
LATE = {"code_velocity": ("L T-1", False, 11.0)}                # not in the registry at the start; added by an edit
BUILTIN = ("pc",)
EDITABLE = tuple(USER) + tuple(LATE) + BUILTIN
PREFIXES = ("k", "m", "M", "c", "u", "da", "G", "n", "d", "h")
SCALES = (0.25, 4.0, 7.0, 9.0, 0.5, 3000.0, 1.25e-3, 12.0, 0.0625, 2.0, 3.0, 5.0)
QUNITS = {"L": ("cm", "km", "inch", "m"), "M": ("g", "kg", "lb"), "T": ("s", "hr", "ms", "minute"), "L T-1": ("km/s", "cm/s", "m/s")}
VALUES = (1.0, 2.5, -40.0)
BASE_NAMES = ("kg", "m", "s", "K", "rad", "A", "cd")
EDIT_KINDS = ("modf", "modq", "rm", "readd", "add")
EXPS = ("2", "3", "-1", "-2", "(1/2)", "(-1/2)", "(3/2)", "(1/3)", "(2/3)", "0.5", "-3")

# provenance kind -> declared class (the class actually used by the oracle is the OBSERVED one: lut identity)
SPAWN = {
    "Unit.copy": "shallow", "copy.copy": "shallow", "in_mks(base data)": "shallow", "in_cgs(base data)": "shallow",
    "in_base(base data)": "shallow",
    "to()": "same-object", "in_mks(non-base data)": "same-object",
    "Unit.copy(deep)": "deep", "deepcopy(unit)": "deep", "deepcopy(registry)": "deep", "deepcopy(array)": "deep",
    "pickle(unit)": "pickle", "pickle(registry)": "pickle", "pickle(array)": "pickle-filled", "json": "json-filled",
}
SHARED_KINDS = tuple(k for k, c in SPAWN.items() if c in ("shallow", "same-object"))
INDEP_KINDS = tuple(k for k, c in SPAWN.items() if c not in ("shallow", "same-object"))
RELS = ("editor", "shares-table(editor-older)", "shares-table(editor-newer)", "snapshot-after-edit", "independent-of-edit")

FIXED_COMPOUNDS = ("code_mass/code_length**3", "kcode_length/code_time", "code_mass*code_length**2/code_time**2",
                   "sqrt(code_length*m)", "code_length**(1/2)/mcode_time", "code_velocity*code_time", "g*dacode_length**-3",
                   "kpc/code_time", "g/cm**3", "km")


def _syms_of(s):
    out = []
    for tok in uexpr.TOK.findall(s):
        for sym in EDITABLE:
            if tok == sym or (tok.endswith(sym) and tok[:-len(sym)] in PREFIXES):
                if sym not in out:
                    out.append(sym)
    return out


def _pclass(s, syms):
    if not syms:
        return "builtin"
    if s in EDITABLE:
        return "atomic"
    for sym in EDITABLE:
        if s.endswith(sym) and s[:-len(sym)] in PREFIXES:
            return "prefixed"
    return "compound"


def _mk(s):
    syms = _syms_of(s)
    return (s, _pclass(s, syms), syms)


def base_string(dv):
    parts = []
    for n, x in zip(BASE_NAMES, dv[:7]):
        if x == 0:
            continue
        if x == 1:
            parts.append(n)
        elif x.denominator == 1:
            parts.append(f"{n}**{x.numerator}")
        else:
            parts.append(f"{n}**({x.numerator}/{x.denominator})")
    return "*".join(parts)


def fixed_strings(rot=0):
    """the enumerated histories' strings: atomic, prefixed (two prefixes per symbol, rotating), compound, built-in controls"""
    out = [_mk(s) for s in list(USER) + list(LATE) + list(BUILTIN)]
    for j, sym in enumerate(list(USER) + list(BUILTIN)):
        for d in (0, 3):
            out.append(_mk(PREFIXES[(rot + j + d) % len(PREFIXES)] + sym))
    out += [_mk(s) for s in FIXED_COMPOUNDS]
    seen, res = set(), []
    for t in out:
        if t[0] not in seen:
            seen.add(t[0])
            res.append(t)
    return res


def random_strings(r, ncompound):
    out = [_mk(s) for s in list(USER) + list(LATE) + list(BUILTIN)]
    for sym in list(USER) + list(BUILTIN):
        out.append(_mk(r.choice(PREFIXES) + sym))
    pool = []
    for sym in list(USER) + list(LATE):
        pool += [sym] * 3 + [r.choice(PREFIXES) + sym]
    pool += ["pc", "kpc", "Mpc", "m", "cm", "km", "g", "kg", "s", "hr", "erg", "J", "inch", "K"]
    probe_model = regmodel.RegModel(defaults=True)
    for sym, (spec, pre, sc) in list(USER.items()) + list(LATE.items()):
        probe_model.add(sym, sc, spec, 0.0, True)        # everything prefixable: only the syntax and range are vetted here
    tries = 0
    while len(out) < 8 + ncompound and tries < 200:
        tries += 1
        n = r.randint(2, 4)
        s = ""
        for i in range(n):
            t = r.choice(pool)
            k = r.random()
            if k < 0.4:
                t = f"{t}**{r.choice(EXPS)}"
            elif k < 0.47:
                t = f"sqrt({t})"
            elif k < 0.55:
                t = f"({t}{r.choice('*/')}{r.choice(pool)})" + (f"**{r.choice(EXPS)}" if r.random() < 0.5 else "")
            s = t if not s else s + r.choice(["*", "/"]) + t
        toks = [sym for tok in uexpr.TOK.findall(s) for sym in EDITABLE
                if tok == sym or (tok.endswith(sym) and tok[:-len(sym)] in PREFIXES)]
        if len(toks) != len(set(toks)):
            continue        # a symbol written twice may cancel out of the expression before it is looked up (then the string is
                            # accepted although the symbol is undefined: nothing the property speaks about)
        try:
            v = probe_model.evaluate(s)
        except Exception:
            continue
        if not (1e-60 < abs(v.scale) < 1e60) or all(x == 0 for x in v.dim):
            continue
        t = _mk(s)
        if t[1] == "builtin" and r.random() < 0.8:
            continue
        if t[0] not in [o[0] for o in out]:
            out.append(t)
    out += [_mk("g/cm**3"), _mk("km")]
    return out


# ------------------------------------------------------------------------------------------------------------ history
class _Table:
    def __init__(self, model):
        self.model = model
        self.last_edit = {}      # symbol -> (step, edit kind, editing handle index, inherited)
        self.foreign = {}        # symbol -> edit kind of an edit made in a related table after the split
        self.seen = {}           # string -> step of the last resolution through any handle of this table
        self.memo = {}

    def outcome(self, s):
        k = (self.model.version, s)
        if k not in self.memo:
            self.memo[k] = self.model.outcome(s)
        return self.memo[k]

    def snapshot(self, filled):
        t = _Table(self.model.copy())
        if filled:
            t.model.fill_defaults()
            t.model.version += 1
        t.last_edit = {k: (v[0], v[1], v[2], True) for k, v in self.last_edit.items()}
        t.foreign = dict(self.foreign)
        t.seen = dict(self.seen)
        return t


class History:
    def __init__(self, unyt, rec, strings, tag):
        self.unyt, self.rec, self.strings, self.tag = unyt, rec, strings, tag
        self.handles = []        # dicts: reg, table, kind, parent, born
        self.tables = []
        self.log = []
        self.step = 0
        self.dead = False
        reg = unyt.UnitRegistry()
        model = regmodel.RegModel(defaults=True)
        for sym, (spec, pre, sc) in USER.items():
            reg.add(sym, sc, regmodel.dim_expr(unyt, dims.D(spec)), prefixable=pre)
            model.add(sym, sc, spec, 0.0, pre)
        self.tables.append(_Table(model))
        self.handles.append({"reg": reg, "table": 0, "kind": "self", "parent": None, "born": 0})
        rec.count("handles_histories_" + tag)

    # ---- spawning ---------------------------------------------------------------------------------------------
    def _known(self, hi, cands):
        t = self.tables[self.handles[hi]["table"]]
        for s in cands:
            if t.outcome(s)[0] == "ok":
                return s
        return "m"

    def spawn(self, src, kind):
        u_ = self.unyt
        self.step += 1
        h = self.handles[src]
        reg = h["reg"]
        s0 = self._known(src, ("code_length", "code_time", "code_mass", "m"))
        sd = self._known(src, ("code_mass/code_length**3", "code_length/code_time", "g/cm**3"))
        self.log.append(["spawn", src, kind])
        try:
            if kind == "Unit.copy":
                new = u_.Unit(s0, registry=reg).copy().registry
            elif kind == "copy.copy":
                new = copy.copy(reg)
            elif kind == "in_mks(base data)":
                new = u_.unyt_quantity(3.0, "m", registry=reg).in_mks().units.registry
            elif kind == "in_cgs(base data)":
                new = u_.unyt_quantity(1.0, "g/cm**3", registry=reg).in_cgs().units.registry
            elif kind == "in_base(base data)":
                new = u_.unyt_array([1.0, 2.0], "kg*m**2/s**2", registry=reg).in_base("mks").units.registry
            elif kind == "to()":
                new = u_.unyt_array([1.0, 2.0], "km", registry=reg).to("cm").units.registry
            elif kind == "in_mks(non-base data)":
                new = u_.unyt_array([1.0, 2.0], s0 if s0 != "m" else "km", registry=reg).in_mks().units.registry
            elif kind == "Unit.copy(deep)":
                new = u_.Unit(s0, registry=reg).copy(deep=True).registry
            elif kind == "deepcopy(unit)":
                new = copy.deepcopy(u_.Unit(sd, registry=reg)).registry
            elif kind == "deepcopy(registry)":
                new = copy.deepcopy(reg)
            elif kind == "deepcopy(array)":
                new = copy.deepcopy(u_.unyt_array([1.0, 2.0], sd, registry=reg)).units.registry
            elif kind == "pickle(unit)":
                new = pickle.loads(pickle.dumps(u_.Unit(sd, registry=reg))).registry
            elif kind == "pickle(registry)":
                new = pickle.loads(pickle.dumps(reg))
            elif kind == "pickle(array)":
                new = pickle.loads(pickle.dumps(u_.unyt_array([1.0, 2.0], sd, registry=reg))).units.registry
            elif kind == "json":
                new = u_.UnitRegistry.from_json(reg.to_json())
            else:
                raise ValueError(kind)
        except Exception as e:          # making a handle is input construction, never a verdict here (C11/C13)
            self.rec.note(f"handles:spawn-raised:{kind}:{type(e).__name__}")
            return None
        table = None
        for j, o in enumerate(self.handles):
            if o["reg"].lut is new.lut:
                table = o["table"]
                break
        declared = SPAWN[kind]
        if table is None:
            table = len(self.tables)
            self.tables.append(self.tables[h["table"]].snapshot(declared.endswith("filled")))
            self.rec.count("handles_independent_observed")
            if declared in ("shallow", "same-object"):
                self.rec.note(f"handles:declared-shared-observed-independent:{kind}")
        else:
            self.rec.count("handles_shared_observed")
            if declared not in ("shallow", "same-object"):
                self.rec.note(f"handles:declared-independent-observed-shared:{kind}")
        self.handles.append({"reg": new, "table": table, "kind": kind, "parent": src, "born": self.step})
        self.rec.count("handles_spawn:" + kind)
        return len(self.handles) - 1

    # ---- edits ------------------------------------------------------------------------------------------------
    def valid_edits(self, hi, r):
        """edit ops valid under the model of the handle's table: list of (edit kind, op)"""
        m = self.tables[self.handles[hi]["table"]].model
        out = []
        for sym in EDITABLE:
            e = m.contents.get(sym)
            if e is not None:
                new = r.choice([s for s in SCALES if abs(s - e.scale) > 1e-9 * abs(e.scale)])
                out.append(("modf", ("modf", sym, new)))
                spec = next((k for k in QUNITS if dims.D(k) == e.dim), None)
                if spec:
                    out.append(("modq", ("modq", sym, r.choice((0.5, 3.0, 8.0, 1.5)), r.choice(QUNITS[spec]), r.choice(("own", "default")))))
                out.append(("rm", ("rm", sym)))
                if sym not in BUILTIN:
                    spec0, pre0, _ = USER.get(sym) or LATE[sym]
                    pre = (not e.prefixable) if r.random() < 0.3 else e.prefixable
                    spec2 = r.choice(("L", "M", "T")) if r.random() < 0.15 else spec0
                    out.append(("readd", ("add", sym, new, spec2, pre, 0.0)))
            elif sym not in BUILTIN:
                spec0, pre0, sc0 = USER.get(sym) or LATE[sym]
                out.append(("add", ("add", sym, r.choice(SCALES), spec0, pre0, 0.0)))
        return out

    def edit(self, hi, ekind, op):
        u_ = self.unyt
        self.step += 1
        h = self.handles[hi]
        t = self.tables[h["table"]]
        reg = h["reg"]
        self.log.append(["edit", hi, ekind, list(op)])
        trial = t.model.copy()
        if trial.apply(tuple(op)) != "ok":
            self.rec.count("handles_edit_invalid_in_model")
            return False
        try:
            k = op[0]
            if k == "modf":
                reg.modify(op[1], float(op[2]))
            elif k == "modq":
                q = u_.unyt_quantity(float(op[2]), op[3], registry=(reg if op[4] == "own" else None))
                reg.modify(op[1], q)
            elif k == "rm":
                reg.remove(op[1])
            elif k == "add":
                reg.add(op[1], float(op[2]), regmodel.dim_expr(u_, dims.D(op[3])), prefixable=bool(op[4]))
        except Exception as e:          # whether an edit call is accepted is C12's subject; this history cannot go on
            self.rec.note(f"handles:edit-refused:{ekind}:{type(e).__name__}")
            self.rec.count("handles_abandoned")
            self.dead = True
            return False
        t.model.apply(tuple(op))
        sym = op[1]
        t.last_edit[sym] = (self.step, ekind, hi, False)
        for j, o in enumerate(self.tables):
            if o is not t:
                o.foreign[sym] = ekind
        self.rec.count("handles_edit:" + ekind)
        return True

    # ---- judging ----------------------------------------------------------------------------------------------
    def _relation(self, hi, syms):
        h = self.handles[hi]
        t = self.tables[h["table"]]
        last = None
        for sym in syms:
            e = t.last_edit.get(sym)
            if e is not None and (last is None or e[0] > last[0]):
                last = e
        foreign = next((t.foreign[sym] for sym in syms if sym in t.foreign), None)
        if last is None or last[3]:
            if foreign:
                return "independent-of-edit", foreign, (last[0] if last else 0)
            if last is None:
                return "none", "none", 0
            return "snapshot-after-edit", last[1], last[0]
        step, ekind, editor, _ = last
        if editor == hi or self.handles[editor]["reg"] is h["reg"]:
            return "editor", ekind, step
        return ("shares-table(editor-older)" if editor < hi else "shares-table(editor-newer)"), ekind, step

    def _warm_state(self, t, s, edit_step):
        seen = t.seen.get(s)
        if seen is None:
            return "cold"
        return "warm-pre-edit" if seen < edit_step else "re-resolved"

    def _case(self, hi, **kw):
        h = self.handles[hi]
        d = {"history": self.tag, "steps": list(self.log), "strings": [s[0] for s in self.strings],
             "handles": [[o["kind"], o["parent"], o["table"]] for o in self.handles], "probing_handle": hi,
             "table_contents(user symbols)": {k: [e.scale, dims.show(e.dim), e.prefixable] for k, e in
                                              self.tables[h["table"]].model.contents.items() if k in EDITABLE}}
        d.update(kw)
        return d

    def _table_entry_differs(self, hi, syms):
        h = self.handles[hi]
        m = self.tables[h["table"]].model
        for sym in syms:
            e = m.contents.get(sym)
            row = h["reg"].lut.get(sym)
            if (e is None) != (row is None):
                return True
            if e is not None and abs(row[0] - e.scale) > 1e-9 * abs(e.scale):
                return True
        return False

    def probe_unit(self, hi, ps):
        s, pclass, syms = ps
        h = self.handles[hi]
        t = self.tables[h["table"]]
        rec = self.rec
        rel, ekind, estep = self._relation(hi, syms)
        warm = self._warm_state(t, s, estep)
        exp = t.outcome(s)
        try:
            u = self.unyt.Unit(s, registry=h["reg"])
            got = (float(u.base_value), dims.of_expr(u.dimensions))
            err = None
        except Exception as e:
            got, err = None, e
        t.seen[s] = self.step
        tail = f"{ekind}:{rel.split('(')[0]}"         # mechanism: which edit's aftermath, seen from which side of the table
        rec.count("handles_unit_evals")
        if rel != "none":
            rec.count("handles_rel:" + rel)
            rec.reach(f"handles|{h['kind']}|{ekind}|{rel}")
            if rel.startswith("shares-table") and warm == "warm-pre-edit":
                rec.count("handles_cross_warm")
        where = f"history step {self.step}, handle #{hi} ({h['kind']}, table {h['table']}), last edit touching it: {ekind} [{rel}], string was {warm}"
        if exp[0] != "ok":
            if got is not None:
                rec.violation(f"C02:handles:resolves-undefined:{tail}",
                              f"Unit({s!r}, registry=h).base_value={got[0]!r} but the handle's table defines no such unit now ({where})",
                              self._case(hi, string=s))
                return
            rec.ok(("handles", h["kind"], rel, ekind, pclass, warm, "unknown"))
            rec.count("handles_unknown_agree")
            return
        _, sc, dv, tol = exp
        if got is None:
            rec.violation(f"C02:handles:raises:{tail}", f"Unit({s!r}, registry=h) raised {type(err).__name__}: {err}; the handle's table "
                          f"implies scale {sc!r} ({where})", self._case(hi, string=s))
            return
        if got[1] != dv:
            rec.violation(f"C02:handles:dim:{tail}", f"Unit({s!r}, registry=h) has dimension {dims.show(got[1])}, the handle's table implies "
                          f"{dims.show(dv)} ({where})", self._case(hi, string=s))
            return
        if pclass in ("compound", "builtin"):
            tol = max(tol, 1e-12)
        relerr = abs(got[0] - sc) / abs(sc)
        if not relerr <= tol:
            kind = "scale-table-entry-differs" if self._table_entry_differs(hi, syms) else "scale-stale-vs-table"
            rec.violation(f"C02:handles:{kind}:{tail}", f"Unit({s!r}, registry=h).base_value={got[0]!r}; prefix x scale from the current "
                          f"contents of the handle's table = {sc!r} (rel {relerr:.3g}) ({where})", self._case(hi, string=s))
            return
        rec.ok(("handles", h["kind"], rel, ekind, pclass, warm, "known"))

    def conv_pairs(self, hi, r=None, extra_pairs=4):
        """(s1, s2, pclass, syms): every known string to and from the SI base string of its dimension, plus same-dimension pairs"""
        t = self.tables[self.handles[hi]["table"]]
        known = []
        for ps in self.strings:
            o = t.outcome(ps[0])
            if o[0] == "ok" and any(x != 0 for x in o[2]) and all(x == 0 for x in o[2][7:]):
                known.append((ps, o))
        pairs = []
        for ps, o in known:
            b = base_string(o[2])
            pairs.append((ps[0], b, ps[1], ps[2]))
            pairs.append((b, ps[0], ps[1], ps[2]))
        same = [(a, b) for a, oa in known for b, ob in known if a is not b and oa[2] == ob[2]]
        if len(same) > extra_pairs:
            same = r.sample(same, extra_pairs) if r is not None else same[:extra_pairs]
        for a, b in same:
            pairs.append((a[0], b[0], "compound" if "compound" in (a[1], b[1]) else a[1], sorted(set(a[2]) | set(b[2]))))
        return pairs

    def probe_conv(self, hi, pair, in_base=False):
        s1, s2, pclass, syms = pair
        h = self.handles[hi]
        t = self.tables[h["table"]]
        rec = self.rec
        rel, ekind, estep = self._relation(hi, syms)
        tail = f"{ekind}:{rel.split('(')[0]}"
        o1 = t.outcome(s1)
        where = f"history step {self.step}, handle #{hi} ({h['kind']}, table {h['table']}), last edit touching it: {ekind} [{rel}]"
        route = "in_mks" if in_base else "to"
        try:
            x = self.unyt.unyt_array(np.array(VALUES), s1, registry=h["reg"])
            y = x.in_mks() if in_base else x.to(s2)
            if in_base:
                s2 = str(y.units)
            yd = np.asarray(y.d, dtype=float)
        except Exception as e:
            rec.count("handles_conv_evals")
            rec.violation(f"C02:handles:convert-raises:{tail}", f"{VALUES} {s1!r} .{route}({'' if in_base else repr(s2)}) through the handle "
                          f"raised {type(e).__name__}: {e} ({where})", self._case(hi, pair=[s1, s2]))
            return
        try:
            o2 = t.outcome(s2)
        except Exception:
            o2 = ("unknown",)
        if o2[0] != "ok" or o2[2] != o1[2]:
            if in_base:
                rec.count("handles_inbase_unit_not_evaluable")
                return
            raise AssertionError((s1, s2, o1, o2))
        rec.count("handles_inbase_evals" if in_base else "handles_conv_evals")
        if rel != "none":
            rec.count("handles_rel:" + rel)
        exp = np.array(VALUES) * (o1[1] / o2[1])
        tol = o1[3] + o2[3] + 1e-12
        if not np.all(np.abs(yd - exp) <= tol * np.abs(exp)):
            rec.violation(f"C02:handles:convert:{tail}", f"{VALUES} {s1!r} .{route}({'' if in_base else repr(s2)}) through the handle = "
                          f"{yd.tolist()} {s2}; scale({s1})/scale({s2}) from the current contents of the handle's table gives {exp.tolist()} "
                          f"({where})", self._case(hi, pair=[s1, s2]))
            return
        rec.ok(("handles-conv", route, h["kind"], rel, ekind, pclass))

    def warm(self, hi, idxs=None):
        self.step += 1
        self.log.append(["warm", hi, "all" if idxs is None else list(idxs)])
        for i, ps in enumerate(self.strings):
            if idxs is None or i in idxs:
                self.probe_unit(hi, ps)

    def probe(self, his=None, r=None, conv=True):
        self.step += 1
        self.log.append(["probe", "all" if his is None else list(his)])
        for hi in (range(len(self.handles)) if his is None else his):
            for ps in self.strings:
                self.probe_unit(hi, ps)
            if conv:
                pairs = self.conv_pairs(hi, r)
                for p in pairs:
                    self.probe_conv(hi, p)
                done = set()
                for p in pairs:
                    if p[0] not in done and p[2] != "builtin" and p[0] in [s[0] for s in self.strings]:
                        done.add(p[0])
                        self.probe_conv(hi, p, in_base=True)


# ------------------------------------------------------------------------------------------------------------ programs
def enum_combos():
    """(spawn kind, edit kind, edit through 'root'|'derived', spawn 'before-warm'|'after-warm', warm through 'root'|'derived')"""
    out = []
    for kind in SPAWN:
        for ek in EDIT_KINDS:
            for via in ("root", "derived"):
                for when, through in (("before-warm", "root"), ("before-warm", "derived"), ("after-warm", "root")):
                    out.append((kind, ek, via, when, through))
    return out


def _pick_edit(hist, hi, ekind, r, prefer):
    ops = [o for k, o in hist.valid_edits(hi, r) if k == ekind]
    if not ops:
        return None
    for sym in prefer:
        for o in ops:
            if o[1] == sym:
                return o
    return ops[0]


def run_enum(unyt, idx, combo, rec, deep):
    """one enumerated history: warm every string through one handle, edit through one handle, resolve and convert every string
    through every handle (the old ones, and ones made after the edit), then a second edit through the OTHER handle"""
    from vf import core
    kind, ekind, via, when, through = combo
    r = core.rng(0, "handles-enum", idx)
    hist = History(unyt, rec, fixed_strings(idx), "enum")
    d = None
    if when == "before-warm":
        d = hist.spawn(0, kind)
        if d is None:
            return
    hist.warm(d if (through == "derived" and d is not None) else 0)
    if when == "after-warm":
        d = hist.spawn(0, kind)
        if d is None:
            return
    syms = list(USER)
    prefer = [syms[idx % 3], syms[(idx + 1) % 3], "pc"] if ekind != "add" else list(LATE)
    e1 = d if via == "derived" else 0
    op = _pick_edit(hist, e1, ekind, r, prefer)
    if op is None or not hist.edit(e1, ekind, op):
        return
    hist.probe(r=r)
    # handles made after the edit, from both sides
    hist.spawn(0, kind)
    hist.spawn(d, kind)
    other = SHARED_KINDS[idx % len(SHARED_KINDS)] if SPAWN[kind] not in ("shallow", "same-object") else INDEP_KINDS[idx % len(INDEP_KINDS)]
    hist.spawn(d, other)
    hist.probe(r=r, conv=deep)
    # second edit through the other handle (the opposite direction), another symbol
    e2 = 0 if via == "derived" else d
    ek2 = EDIT_KINDS[(EDIT_KINDS.index(ekind) + 1 + idx % 3) % 4]        # modf / modq / rm / readd
    op2 = _pick_edit(hist, e2, ek2, r, [syms[(idx + 2) % 3], syms[(idx + 1) % 3], "pc"])
    if op2 is not None and hist.edit(e2, ek2, op2):
        hist.probe(r=r)
    rec.sample({"handles-history": combo, "steps": hist.log[:8], "handles": [[o["kind"], o["table"]] for o in hist.handles]})


def run_random(unyt, r, length, rec, ncompound=6, max_handles=7):
    hist = History(unyt, rec, random_strings(r, ncompound), "random")
    kinds = list(SPAWN)
    for _ in range(r.randint(1, 2)):
        hist.spawn(r.randrange(len(hist.handles)), r.choice(kinds))
    n = 0
    while n < length and not hist.dead:
        n += 1
        k = r.random()
        nh = len(hist.handles)
        if k < 0.22:
            idxs = set(r.sample(range(len(hist.strings)), r.randint(2, len(hist.strings))))
            hist.warm(r.randrange(nh), idxs)
        elif k < 0.52:
            hi = r.randrange(nh)
            ops = hist.valid_edits(hi, r)
            ek = r.choice(EDIT_KINDS)
            ops = [o for o in ops if o[0] == ek] or ops
            ek, op = r.choice(ops)
            if hist.edit(hi, ek, op):
                hist.probe(r=r, conv=(r.random() < 0.6))
        elif k < 0.80:
            if nh < max_handles:
                # prefer sources and kinds that mix the classes: copies of copies, deep copies of shallow copies, ...
                hist.spawn(r.randrange(nh), r.choice(kinds if r.random() < 0.5 else list(SHARED_KINDS)))
            else:
                hist.probe([r.randrange(nh)], r=r)
        else:
            hist.probe([r.randrange(nh)], r=r, conv=(r.random() < 0.5))
    if not hist.dead:
        hist.probe(r=r, conv=False)
    return hist


DECIDING = (["handles_unit_evals", "handles_conv_evals", "handles_inbase_evals", "handles_cross_warm", "handles_unknown_agree",
             "handles_histories_enum", "handles_histories_random", "handles_shared_observed", "handles_independent_observed"]
            + ["handles_rel:" + x for x in RELS] + ["handles_edit:" + x for x in EDIT_KINDS] + ["handles_spawn:" + x for x in SPAWN])


def catalogue():
    cat = set()
    for kind, cls in SPAWN.items():
        for ek in EDIT_KINDS:
            if cls == "shallow":
                cat |= {f"handles|{kind}|{ek}|{x}" for x in ("editor", "shares-table(editor-older)")}
            elif cls == "same-object":
                cat.add(f"handles|{kind}|{ek}|editor")
            else:
                cat |= {f"handles|{kind}|{ek}|{x}" for x in ("editor", "independent-of-edit")}
            cat.add(f"handles|self|{ek}|editor")
            cat.add(f"handles|self|{ek}|shares-table(editor-newer)")
    return cat
