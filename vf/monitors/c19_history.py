"""History monitor of C19: the verdict of a helper call inside a history against the reference AND against the same call made
alone in a process that has executed nothing else.

CapRec has the interface of vf.core.Rec but only remembers, in order, what a judging function reported.  The same judging
function is run twice on the same call: in the worker (which has already made all earlier calls of the batch) and in a cold
process; merge() turns the two captured reports into the real record:

    history ok,            cold ok / unavailable      -> ok
    history violation K,   cold ok                    -> violation coarse(K)<tail>:history-dependent   (earlier calls decided)
    history violation K,   cold violation K           -> violation K<tail>:also-in-fresh-process
    history violation K,   cold violation K'          -> violation K<tail>:differs-in-fresh-process
    history violation K,   cold unavailable           -> violation K<tail>:fresh-unavailable      (the cold process died)
    history violation K,   cold not sampled           -> violation K<tail>:fresh-not-sampled      (budget of replays used up)
    history ok,            cold violation K'          -> violation K'<tail>:fresh-process-only
"""


NOT_SAMPLED = "not-sampled"


class CapRec:
    def __init__(self):
        self.events = []

    def ok(self, cell=None, n=1):
        self.events.append(["ok", cell if isinstance(cell, str) or cell is None else "|".join(map(str, cell)), None, None])

    def violation(self, key, desc, case=None):
        self.events.append(["violation", key, str(desc)[:600], case])

    def note(self, key, n=1):
        self.events.append(["note", key, n, None])

    def count(self, name, n=1):
        self.events.append(["count", name, n, None])

    def sample(self, obj, limit=3):
        pass

    def reach(self, name):
        self.events.append(["reach", name, None, None])

    def wire(self):
        """what a cold process sends back: kinds and keys only"""
        return [[k, key] for k, key, _, _ in self.events if k in ("ok", "violation")]


def judged(events):
    return [e for e in events if e[0] in ("ok", "violation")]


def merge(rec, events, fresh, tail, cellx, case_extra=None, coarse=None):
    """events: CapRec.events of the in-history call; fresh: wire() of the cold call, None (cold process failed) or NOT_SAMPLED.
    coarse: key -> key without the call-form components, used when the verdict is history-dependent (the mechanism is then the
    history, not the call form).  -> 'ok' | 'violation' | 'unjudged'"""
    sampled = fresh != NOT_SAMPLED
    if not sampled:
        fresh = None
    fv = None if fresh is None else [e[1] for e in fresh if e[0] == "violation"]
    fj = None if fresh is None else [e for e in fresh if e[0] in ("ok", "violation")]
    verdict = "unjudged"
    for kind, key, a, b in events:
        if kind == "count":
            name = key
            if name.startswith("sub:"):
                name = "sub:history:" + name[4:]
            elif name.startswith("calls:"):
                name = "calls:history:" + name[6:]
            rec.count(name, a)
        elif kind == "note":
            rec.note("history:" + key, a)
        elif kind == "reach":
            rec.reach(key)
        elif kind == "ok":
            rec.ok((key,) + tuple(cellx))
            if verdict == "unjudged":
                verdict = "ok"
        elif kind == "violation":
            if fresh is None:
                attr = "fresh-unavailable" if sampled else "fresh-not-sampled"
            elif not fv:
                attr = "history-dependent" if fj else "fresh-unjudged"
            elif key in fv:
                attr = "also-in-fresh-process"
            else:
                attr = "differs-in-fresh-process"
            case = dict(b) if isinstance(b, dict) else {"case": b}
            case.update(case_extra or {})
            case["fresh-process"] = fresh
            if attr == "history-dependent" and coarse is not None:
                case["full-key"] = key
                key = coarse(key)
            rec.violation(key + tail + ":" + attr, f"[{attr}; {' / '.join(map(str, cellx))}] {a}", case)
            verdict = "violation"
    if judged(events):
        if not sampled:
            pass
        elif fresh is None:
            rec.count("history:fresh-unavailable")
        elif fj:
            rec.count("sub:history:fresh-compared")
        if verdict == "ok" and fv:
            case = dict(case_extra or {})
            case["fresh-process"] = fresh
            rec.violation(fv[0] + tail + ":fresh-process-only",
                          f"the call alone in a fresh process is judged wrong ({fv[0]}) but right inside the {' / '.join(map(str, cellx))}", case)
            verdict = "violation"
    return verdict
