"""C13 sub-monitor: SIBLING registries - several objects bound to ONE registry restored together (one pickle of a tuple /
list / dict, the pure-Python unpickler, the same bytes loaded twice, one deepcopy of a container, deep copies taken one
after the other, the same JSON text loaded twice).

Contract (snapshot/identity, no reference values): the registries of the restored objects are either the very same
registry object (one registry: noted) or independent - two DISTINCT registry objects must not share their table dict or
their string cache with each other, with the source or with any live registry of the history; and an edit (add of a
never-used symbol, modify of a built-in) made through one sibling must leave the table and the resolutions of the other
siblings as they were. The siblings are transient (never slots of the history), the step is addressed to nobody, so the
history monitor additionally compares every live registry and all default digests after the step.
"""
import copy, pickle, io
import numpy as np
from vf.monitors import c13_watch as W

ROUTES = ["pickle-tuple", "pickle-list", "pickle-dict", "pickle-py-unpickler", "pickle-loaded-twice", "pickle-units-tuple",
          "deepcopy-list", "deepcopy-twice", "Unit.copy-deep-twice", "from_json-same-text-twice", "pickle-registry-twice"]
#: routes made of separate calls (each one an independent creation); the others restore one container in one call
SEPARATE_CALLS = ("pickle-loaded-twice", "deepcopy-twice", "Unit.copy-deep-twice", "from_json-same-text-twice", "pickle-registry-twice")
PROBES = ["m", "g", "km", "erg", "Msun/yr", "zub", "code_length"]


def _objects(H, s, r, n):
    """n arrays/quantities bound to s.reg (fresh ones: the pool may hold objects of shallow aliases)"""
    U = H.unyt
    out = []
    for i in range(n):
        p = H.good_str(s) or ""
        try:
            out.append(U.unyt_array([1.0, 2.0, 4.0], p, registry=s.reg) if r.random() < 0.6 else U.unyt_quantity(3.0, p, registry=s.reg))
        except Exception as e:
            H.note_exc(e)
    # a unit handed out by the registry's string cache may be bound to a shallow alias of s.reg (same table, other registry
    # object): pickle would faithfully restore that aliasing. Siblings start from ONE registry object.
    return [o for o in out if o.units.registry is s.reg]


def _units(H, s, r, n):
    out = []
    for i in range(n + 2):
        try:
            u = H.unyt.Unit(H.good_str(s) or "", registry=s.reg)
        except Exception as e:
            H.note_exc(e)
            continue
        if u.registry is s.reg:
            out.append(u)
    return out[:n]


def restore(H, s, route, r):
    """-> list of (class name, registry) of the restored siblings"""
    U = H.unyt
    proto = r.choice([2, 4, pickle.HIGHEST_PROTOCOL])
    n = r.choice([2, 2, 3])
    if route in ("pickle-tuple", "pickle-list", "pickle-dict", "pickle-py-unpickler", "deepcopy-list"):
        objs = _objects(H, s, r, n)
        if len(objs) < 2:
            return []
        if route == "pickle-tuple":
            back = pickle.loads(pickle.dumps(tuple(objs), protocol=proto))
        elif route == "pickle-list":
            back = pickle.loads(pickle.dumps(list(objs), protocol=proto))
        elif route == "pickle-dict":
            back = list(pickle.loads(pickle.dumps({"field%d" % i: o for i, o in enumerate(objs)}, protocol=proto)).values())
        elif route == "pickle-py-unpickler":
            back = pickle._Unpickler(io.BytesIO(pickle.dumps(tuple(objs), protocol=proto))).load()
        else:
            back = copy.deepcopy(list(objs))
        return [("array", b.units.registry) for b in back]
    if route == "pickle-loaded-twice":
        objs = _objects(H, s, r, 1)
        if not objs:
            return []
        data = pickle.dumps(objs[0], protocol=proto)
        return [("array", pickle.loads(data).units.registry) for _ in range(n)]
    if route == "pickle-units-tuple":
        us = _units(H, s, r, n)
        if len(us) < 2:
            return []
        return [("unit", b.registry) for b in pickle.loads(pickle.dumps(tuple(us), protocol=proto))]
    if route == "deepcopy-twice":
        objs = _objects(H, s, r, n)
        return [("array", copy.deepcopy(o).units.registry) for o in objs]
    if route == "Unit.copy-deep-twice":
        us = _units(H, s, r, n)
        return [("unit", u.copy(deep=True).registry) for u in us]
    if route == "from_json-same-text-twice":
        text = s.reg.to_json()
        return [("registry", U.UnitRegistry.from_json(text)) for _ in range(n)]
    if route == "pickle-registry-twice":
        data = pickle.dumps(s.reg, protocol=proto)
        return [("registry", pickle.loads(data)) for _ in range(n)]
    raise ValueError(route)


def run(H, r):
    rec, U = H.rec, H.unyt
    route = r.choice(ROUTES)
    kind = "create-siblings/" + route
    H.kind = kind
    rec.reach(kind)
    live = [x for x in H.slots if x is not None]
    s = r.choice(live) if live and r.random() < 0.7 else H.D
    try:
        sibs = restore(H, s, route, r)
    except Exception as e:
        H.note_exc(e)
        return {"detail": "%s of %s raised %s" % (route, s.idx, type(e).__name__)}
    if len(sibs) < 2:
        return {"detail": "%s of %s: fewer than two siblings" % (route, s.idx)}
    rec.count("mon:siblings-no-shared-table")
    good = True
    # 1. identity: distinct registry objects share neither table nor string cache with each other ...
    for i in range(len(sibs)):
        for j in range(i + 1, len(sibs)):
            (ci, ri), (cj, rj) = sibs[i], sibs[j]
            if ri is rj:
                if route in SEPARATE_CALLS:
                    # every call is a creation of its own: the same registry object handed out twice is two 'independent'
                    # copies that follow each other's edits (same reading as create(): `reg is x.reg` for a live registry)
                    rec.violation("C13:%s:separate-restorations-return-one-registry:%s+%s" % (kind, *sorted((ci, cj))),
                                  "%s: two separate calls returned objects bound to the very same registry object: the 'independent' "
                                  "copies follow each other's edits" % route, H.case(route=route, source=s.idx))
                    good = False
                else:
                    rec.note("siblings-are-one-registry-object:" + route)
                continue
            what = "table" if ri.lut is rj.lut else "string-cache" if ri._unit_object_cache is rj._unit_object_cache else None
            if what:
                rec.violation("C13:%s:siblings-share-%s:%s+%s" % (kind, what, *sorted((ci, cj))),
                              "%s: two restored objects carry DISTINCT registry objects that share one %s object: an edit through one "
                              "registry changes what the other resolves" % (route, what), H.case(route=route, source=s.idx))
                good = False
    # ... nor with the source or any live registry
    for c, reg in sibs:
        for x in H.everyone():
            if reg is x.reg or reg.lut is x.reg.lut or reg._unit_object_cache is x.reg._unit_object_cache:
                w = "source" if x is s else "default-registry" if x.is_default else "unrelated-registry"
                rec.violation("C13:%s:table-shared-with:%s" % (kind, w),
                              "%s: a restored %s is bound to a registry that is, or shares its table or string cache with, %s"
                              % (route, c, "the default registry" if x.is_default else "registry %s [%s]" % (x.idx, x.prov)), H.case(route=route, source=s.idx))
                good = False
                break
    # 2. behaviour: an edit through one sibling leaves the others as they were
    regs = []
    for c, reg in sibs:
        if not any(reg is q for q in regs):
            regs.append(reg)
    if len(regs) >= 2:
        rec.count("mon:siblings-edit-isolated")
        first, others = regs[0], regs[1:]
        W.ENABLED[0] = False
        snaps = [dict(o.lut) for o in others]
        W.ENABLED[0] = True
        res = [[W.resolve(U, o, p) for p in PROBES] for o in others]
        # (the probes may have derived prefixed entries: the snapshot is taken again after them)
        W.ENABLED[0] = False
        snaps = [dict(o.lut) for o in others]
        W.ENABLED[0] = True
        sym = H.C.unique("sib")
        edits = 0
        for call in (lambda: first.add(sym, 2.5, H.C.dim.length, prefixable=True), lambda: first.modify("g", 0.25), lambda: first.remove("erg")):
            try:
                call()
                edits += 1
            except Exception as e:
                H.note_exc(e)
        for o, snap, rs in zip(others, snaps, res):
            removed, changed, added = W.table_diff(snap, o.lut)
            bad_added = [k for k in added if not W.is_derived(k, o.lut[k], o.lut)]
            now = [W.resolve(U, o, p) for p in PROBES]
            moved = [p for p, a, b in zip(PROBES, rs, now) if not W.res_equal(a, b)]
            try:
                knows = W.resolve(U, o, sym)[0] != "EXC"
            except Exception:
                knows = False
            if removed or changed or bad_added or moved or knows:
                what = ("entry-changed" if changed else "entry-removed" if removed else "entry-added" if bad_added else
                        "resolves-symbol-added-to-sibling" if knows else "resolution-changed")
                rec.violation("C13:%s:sibling-changed-by-edit:%s" % (kind, what),
                              "%s: add(%r)/modify('g')/remove('erg') through the registry of one restored object changed what the registry of "
                              "another restored object holds or resolves (%s: %s)" % (route, sym, what, (changed or removed or bad_added or moved or [sym])[0]),
                              H.case(route=route, source=s.idx))
                good = False
        if not edits:
            rec.note("siblings:no-edit-accepted:" + route)
    if good:
        rec.ok((kind, "siblings-independent", "default" if s.is_default else s.prov))
    return {"detail": "%s: %d siblings of %s [%s], %d distinct registries" % (route, len(sibs), s.idx, s.prov, len(regs))}
