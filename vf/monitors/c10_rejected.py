"""C10 monitors for the aftermath of a rejected operation.

* `snapshot` / `compare`: a snapshot contract on `unit_system_registry` taken immediately before and immediately after one
  operation that raised: the registry must hold the same names, each bound to the same object, and each object must still carry
  the name, registry and base units it carried.  Growth of `units_map` by memoised entries is reported separately (not part of
  the contract: a conversion that raises late may have synthesised a correct derived unit on its way).
* `Twin`: the twin process.  Forked from the batch child before it has touched unyt's state; runs `fn(payload)` and hands plain
  data back.  Nothing here judges; a twin that dies or exceeds its limit yields ControlFailed (never a verdict)."""
import os
import pickle
import select
import signal
import time
import traceback


class ControlFailed(Exception):
    pass


def snapshot(registry):
    """name -> (object, its name attribute, id of its registry attribute, base units as strings, units_map as strings)"""
    out = {}
    for name, obj in list(registry.items()):
        bu = getattr(obj, "base_units", None)
        um = getattr(obj, "units_map", None)
        out[name] = (obj, getattr(obj, "name", None), id(getattr(obj, "registry", None)),
                     None if bu is None else tuple((str(k), str(v)) for k, v in bu.items()),
                     None if um is None else tuple((str(k), str(v)) for k, v in um.items()))
    return out


def compare(before, after):
    """-> (contract breaches [(kind, name, detail)], memo changes [(kind, name, detail)])"""
    bad, memo = [], []
    for name in after:
        if name not in before:
            bad.append(("added", name, f"base units {after[name][3]}"))
    for name, (obj, nm, rid, bu, um) in before.items():
        if name not in after:
            bad.append(("removed", name, "")); continue
        obj2, nm2, rid2, bu2, um2 = after[name]
        if obj2 is not obj:
            bad.append(("replaced", name, f"base units were {bu}, the object now registered has {bu2}")); continue
        if nm2 != nm:
            bad.append(("name-attribute", name, f"{nm!r} -> {nm2!r}"))
        if rid2 != rid:
            bad.append(("registry-attribute", name, "the system is bound to another registry object"))
        if bu2 != bu:
            bad.append(("base-units", name, f"{bu} -> {bu2}"))
        if um2 != um:
            d1, d2 = dict(um or ()), dict(um2 or ())
            changed = sorted(k for k in d1 if k in d2 and d1[k] != d2[k])
            gone = sorted(k for k in d1 if k not in d2)
            new = sorted(k for k in d2 if k not in d1)
            if changed or gone:
                memo.append(("units_map-entry-changed", name, f"changed {[(k, d1[k], d2[k]) for k in changed]} removed {gone}"))
            elif new:
                memo.append(("units_map-grew", name, f"{[(k, d2[k]) for k in new]}"))
    return bad, memo


class Twin:
    """one forked process that runs fn(payload) once; result() collects what it returned"""

    def __init__(self, fn, payload, limit=900.0):
        r, w = os.pipe()
        self.limit = limit
        self.t0 = time.time()
        pid = os.fork()
        if pid == 0:
            os.close(r)
            try:
                signal.signal(signal.SIGINT, signal.SIG_DFL)
                try:
                    out = ("ok", fn(payload))
                except BaseException as e:  # noqa: BLE001 - reported to the caller as a control failure
                    out = ("error", "".join(traceback.format_exception(type(e), e, e.__traceback__))[-2500:])
                data = pickle.dumps(out, protocol=4)
                with os.fdopen(w, "wb") as f:
                    f.write(data)
            finally:
                os._exit(0)
        os.close(w)
        self.pid, self.fd = pid, r
        self.buf = []
        self.done = False
        self.out = None

    def result(self):
        if self.done:
            return self._unwrap()
        killed = False
        while True:
            left = self.limit - (time.time() - self.t0)
            if left <= 0:
                try:
                    os.kill(self.pid, signal.SIGKILL)
                except OSError:
                    pass
                killed = True
                break
            rl, _, _ = select.select([self.fd], [], [], min(left, 1.0))
            if rl:
                c = os.read(self.fd, 1 << 20)
                if not c:
                    break
                self.buf.append(c)
        os.close(self.fd)
        try:
            os.waitpid(self.pid, 0)
        except OSError:
            pass
        self.done = True
        if killed:
            self.out = ("watchdog", None)
        else:
            try:
                self.out = pickle.loads(b"".join(self.buf))
            except Exception:
                self.out = ("error", "twin died without a report")
        return self._unwrap()

    def _unwrap(self):
        kind, val = self.out
        if kind != "ok":
            raise ControlFailed(f"{kind}: {val}")
        return val
