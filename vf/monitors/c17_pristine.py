"""C17 history control: a *pristine twin* of the batch child.

The twin is forked from the batch child before the child has executed any unyt conversion, and it never executes one
itself: for every request it forks a grandchild that runs `fn(case)` (plain picklable data in, plain picklable data out)
in the import-time state and exits.  The history monitor uses it to decide whether a failing observation depends on what
the process had converted before (twin holds / fails differently) or not (twin fails the same way: the ordinary key).
Nothing here judges anything; wall-clock limits only produce ControlFailed (never a verdict)."""
import os
import pickle
import select
import signal
import struct
import traceback


class ControlFailed(Exception):
    pass


def _read_exact(fd, n):
    buf = b""
    while len(buf) < n:
        chunk = os.read(fd, n - len(buf))
        if not chunk:
            return None
        buf += chunk
    return buf


def _send(fd, obj):
    data = pickle.dumps(obj, protocol=4)
    data = struct.pack("<I", len(data)) + data
    while data:
        data = data[os.write(fd, data):]


class Pristine:
    def __init__(self, fn, limit=120):
        rq_r, rq_w = os.pipe()
        rp_r, rp_w = os.pipe()
        pid = os.fork()
        if pid == 0:
            try:
                keep = {0, 1, 2, rq_r, rp_w}
                for name in os.listdir("/proc/self/fd"):
                    fd = int(name)
                    if fd not in keep:
                        try:
                            os.close(fd)
                        except OSError:
                            pass
                signal.signal(signal.SIGINT, signal.SIG_DFL)
                self._serve(fn, rq_r, rp_w, limit)
            finally:
                os._exit(0)
        os.close(rq_r)
        os.close(rp_w)
        self.pid, self.rq, self.rp, self.limit = pid, rq_w, rp_r, limit
        self.runs = 0
        self.dead = False

    @staticmethod
    def _serve(fn, rq_r, rp_w, limit):
        while True:
            head = _read_exact(rq_r, 4)
            if head is None:
                return
            body = _read_exact(rq_r, struct.unpack("<I", head)[0])
            if body is None:
                return
            g = os.fork()
            if g == 0:
                try:
                    signal.alarm(limit)
                    try:
                        out = ("ok", fn(pickle.loads(body)))
                    except BaseException as e:  # noqa: BLE001 - reported to the caller as a control failure
                        out = ("error", "".join(traceback.format_exception(type(e), e, e.__traceback__))[-1500:])
                    _send(rp_w, out)
                finally:
                    os._exit(0)
            _, status = os.waitpid(g, 0)
            if status != 0:
                _send(rp_w, ("error", "pristine grandchild ended with status %d" % status))

    def run(self, case):
        """fn(case) evaluated in a process that has the import-time state; raises ControlFailed when that was impossible"""
        if self.dead:
            raise ControlFailed("twin unusable after an earlier failure")
        self.runs += 1
        self.dead = True                 # cleared only after a complete reply: a late reply must not answer a later request
        try:
            _send(self.rq, case)
        except OSError as e:
            raise ControlFailed("request pipe: %s" % e)
        buf = b""
        want = None
        while True:
            rl, _, _ = select.select([self.rp], [], [], self.limit + 10)
            if not rl:
                raise ControlFailed("no reply")
            chunk = os.read(self.rp, 1 << 16)
            if not chunk:
                raise ControlFailed("twin closed the reply pipe")
            buf += chunk
            if want is None and len(buf) >= 4:
                want = struct.unpack("<I", buf[:4])[0]
            if want is not None and len(buf) >= 4 + want:
                break
        self.dead = False
        tag, val = pickle.loads(buf[4:4 + want])
        if tag != "ok":
            raise ControlFailed(val)
        return val

    def close(self):
        for fd in (self.rq, self.rp):
            try:
                os.close(fd)
            except OSError:
                pass
        try:
            os.waitpid(self.pid, 0)
        except OSError:
            pass
