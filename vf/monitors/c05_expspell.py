"""C05 sub-monitor: one rational exponent, many spellings - every spelling must denote the same power.

For a unit u with reference (scale su, dimension vector du) taken from the independent expression evaluator, a rational r = a/b and a
spelling p = spell(r) (vf/gen/c05_expspell.py) the laws are judged against the *model* (su ** r, du * r), never against another call of
the function under judgement:

  pow-eq-fraction     u ** p                      denotes (su**r, du*r), compares equal to u ** Fraction(a, b), exponents stay rational
  power-of-power      (u ** p) ** q               denotes u ** (r*q)   (q = the denominator as an int, and another fraction in the same spelling)
  inverse             u ** p * u ** spell(-r)     is the dimensionless unit of scale 1
  power-of-product    (u*v) ** p , u**p * v**p    both denote ((su*sv)**r, (du+dv)*r)
  sum-of-exponents    u ** p * u ** spell(n - r)  denotes u ** n  (n the next integer above r)
  array doors         (2.0*u) ** p, np.power(2.0*u, p), [2,3]*u ** p, np.power([2,3]*u, [p, p]):  the unit of the result denotes
                      (su**r, du*r) and equals the unit door's u ** p

A spelling that a door refuses is judged against a control: the same door and spelling at a dyadic value (1/2; 2 for integer-only
spellings) on the metre.  Control refuses too -> consistent refusal, counted, not judged.  Control returns -> the refusal is a violation.

The multiplier family does the same for a bare number k next to a unit: u*k, k*u, u/k, k/u give a quantity whose value times unit scale
is k*su, k*su, su/k, k/su and whose dimension is du, du, du, -du.
"""
import math
from fractions import Fraction as Fr
import numpy as np
from vf import core
from vf.ref import dims, names, uexpr, defs
from vf.gen import c05_expspell as G

LAWS = ("pow-eq-fraction", "power-of-power", "inverse", "power-of-product", "sum-of-exponents", "array-door")
OTHER_Q = (Fr(2, 3), Fr(-3, 2), Fr(3), Fr(-1, 3), Fr(5, 2), Fr(-2), Fr(3, 4))
# spellings that must have returned at least once from the unit door in any run (the others are only required to have been tried)
MUST_RETURN = tuple(s for s in G.SPELLINGS if s != "dimensionless-quantity")


def _udim(u):
    return dims.of_expr(u.dimensions)


def _in_range(*xs):
    for x in xs:
        try:
            x = float(x)
        except (OverflowError, TypeError, ValueError):
            return False
        if not (x > 0 and math.isfinite(x)) or abs(math.log10(x)) > 250:
            return False
    return True


def _pow(s, r):
    try:
        return s ** float(r)
    except OverflowError:
        return math.inf


def _relclose(a, b, rel=1e-12):
    return abs(a - b) <= rel * max(abs(a), abs(b))


def _attempt(thunk):
    try:
        return thunk(), None
    except Exception as e:                                        # noqa: BLE001 - the refusal itself is the observation
        return None, f"{type(e).__name__}: {str(e)[:120]}"


class Monitor:
    def __init__(self, rec, unyt, make_resolver):
        import sympy
        self.rec, self.unyt, self.sympy = rec, unyt, sympy
        self.env = {"unyt": unyt}
        self.reg = unyt.UnitRegistry()
        sdim = {"L": unyt.dimensions.length, "T": unyt.dimensions.time}
        for sym, (val, d, pf) in G.CUSTOM.items():
            self.reg.add(sym, val, sdim[d], prefixable=pf)
        self.res = make_resolver(unyt, {k: (v, dims.D(d)) for k, (v, d) in G.CUSTOM_EXTRA.items()})
        self.control = {}
        self.k = 0
        self._ref = {}
        self.metre = unyt.Unit("m")

    # ------------------------------------------------------------------ operands
    def unit(self, expr, custom):
        """(Unit, su, du) or None if the reference cannot evaluate the expression / the unit is not what the reference says"""
        try:
            su, du = uexpr.evaluate(expr, self.res)
        except uexpr.ParseError:
            return None
        u = self.unyt.Unit(expr, registry=self.reg if custom else None)
        if _udim(u) != du or not _relclose(float(u.base_value), su, 1e-9) or float(u.base_offset) != 0.0:
            self.rec.note("expspell:unit-differs-from-reference-not-used")
            return None
        return u, float(u.base_value), du

    def spell(self, sname, r):
        return G.SPELLINGS[sname](Fr(r), self.env)

    # ------------------------------------------------------------------ doors
    def door(self, name, u, p):
        unyt = self.unyt
        if name == "unit-pow":
            return u ** p
        if name == "quantity-pow":
            return unyt.unyt_quantity(2.0, u) ** p
        if name == "np.power":
            return np.power(unyt.unyt_quantity(2.0, u), p)
        if name == "array-pow":
            return unyt.unyt_array([2.0, 3.0], u) ** p
        if name == "np.power-array-exponent":
            return np.power(unyt.unyt_array([2.0, 3.0], u), np.full(2, p))
        if name == "u*k":
            return u * p
        if name == "k*u":
            return p * u
        if name == "u/k":
            return u / p
        if name == "k/u":
            return p / u
        raise KeyError(name)

    def control_returns(self, door, sname):
        """does this door accept this spelling at all?  (dyadic control value on the metre)"""
        key = (door, sname)
        if key not in self.control:
            r = Fr(2) if (sname in G.INT_ONLY or door in ("u*k", "k*u", "u/k", "k/u")) else Fr(1, 2)
            p = self.spell(sname, r)
            _, err = _attempt(lambda: self.door(door, self.metre, p))
            self.control[key] = err is None
        return self.control[key]

    def refusal(self, family, door, sname, vc, err, desc, case):
        """a door refused: violation if the control returns, else a consistent refusal"""
        if self.control_returns(door, sname):
            self.rec.violation(f"C05:{family}:{door}:refuses:{sname}:{vc}", f"{desc()} raised {err} although the same door accepts this spelling at a dyadic value", case)
        else:
            self.rec.count(f"expspell:refused-consistently:{door}:{sname}")

    # ------------------------------------------------------------------ judging a Unit result
    def judge(self, law, sname, vc, x, es, ed, desc, case, cell, partner=None):
        """x must be a Unit denoting (es, ed) with rational exponents; partner (a Unit denoting the same) must compare equal.
        desc is a thunk (descriptions are only rendered for violations)."""
        rec = self.rec
        key = f"C05:exponent-spelling:{law}:%s:{sname}:{vc}"
        rec.count("expspell:law:" + law)
        if not getattr(x, "is_Unit", False):
            rec.violation(key % "not-a-unit", f"{desc()} returned {x!r} of type {type(x).__name__}, not a Unit", case)
            return False
        if x.dimensions.atoms(self.sympy.Float) or any(e.is_Float for e in x.expr.as_powers_dict().values()):
            rec.violation(key % "float-exponent", f"{desc()} = {x!r}: expression {x.expr} / dimensions {x.dimensions} carry a floating-point exponent, "
                          f"expected the rational {case['r']}", case)
            return False
        xd = _udim(x)
        if xd != ed or not _relclose(float(x.base_value), es) or float(x.base_offset) != 0.0:
            # one kind for scale and dimension: the three representations move together when the exponent is taken for another number
            rec.violation(key % "denotes-other-unit", f"{desc()} = {x!r} has scale {x.base_value!r} offset {x.base_offset!r} dimension {x.dimensions} "
                          f"({dims.show(xd)}); the operands' scales and the rational exponent give scale {es!r} dimension {dims.show(ed)}", case)
            return False
        if partner is not None and (not (x == partner) or (x != partner) or not (partner == x)):
            rec.violation(key % "not-equal", f"{desc()} = {x!r} does not compare equal to {partner!r} although scale and dimension agree", case)
            return False
        rec.ok(("expspell", law) + cell)
        return True

    def refpow(self, u, q):
        """u ** Fraction(q) (the Fraction spelling is itself judged against the model in every case), cached per unit object"""
        key = (id(u), q)
        if key not in self._ref:
            if len(self._ref) > 4000:
                self._ref.clear()
            self._ref[key] = (u, u ** Fr(q))                      # keeps u alive so that id(u) stays unique
        return self._ref[key][1]

    # ------------------------------------------------------------------ one (unit, rational, spelling)
    def case(self, U, V, r, sname, uclass):
        rec = self.rec
        u, su, du = U
        p = self.spell(sname, r)
        if p is G.NA:
            return
        vc = G.keyclass(r)
        self.k += 1
        cell = (sname, vc, uclass, "neg" if r < 0 else "pos")
        case = {"unit": str(u), "r": str(r), "spelling": sname, "p": repr(p)[:60]}
        rec.count("expspell:cases")
        rec.count("expspell:tried:" + sname)
        if not _in_range(_pow(su, r)):
            rec.count("discarded:scale-outside-float-range")
            return
        x, err = _attempt(lambda: u ** p)
        ok = False
        if err:
            self.refusal("exponent-spelling", "unit-pow", sname, vc, err, lambda: f"({u}) ** {p!r}", case)
        else:
            rec.count("expspell:returned:" + sname)
            rec.count("expspell:vclass:" + G.vclass(r))
            ok = self.judge("pow-eq-fraction", sname, vc, x, _pow(su, r), dims.power(du, r), lambda: f"({u}) ** {p!r}", case, cell,
                            partner=self.refpow(u, r))
            if ok:
                self.derived(U, V, r, sname, vc, p, x, case, cell)
        self.array_doors(U, r, sname, vc, p, x if ok else None, case, cell)

    def derived(self, U, V, r, sname, vc, p, x, case, cell):
        rec = self.rec
        u, su, du = U

        def sp(q):
            """q in the spelling under test if it can hold it, else as a Fraction"""
            o = self.spell(sname, q)
            return Fr(q) if o is G.NA else o
        # (u**p)**q == u**(p*q): q = the denominator as an int (the result is an integer power), and another fraction in the same spelling
        qs = [Fr(r.denominator) if r.denominator != 1 else Fr(1, 2), OTHER_Q[self.k % len(OTHER_Q)]]
        for j, q in enumerate(qs):
            if not _in_range(_pow(su, r * q)):
                rec.count("discarded:scale-outside-float-range")
                continue
            qq = int(q) if (j == 0 and q.denominator == 1) else sp(q)
            # the key names the hardest value class among the two exponents
            vq = G.keyclass(r, q) if not isinstance(qq, int) else vc
            y, err = _attempt(lambda: x ** qq)
            if err:
                self.refusal("exponent-spelling", "unit-pow", sname, vq, err, lambda: f"(({u}) ** {p!r}) ** {qq!r}", case)
                continue
            self.judge("power-of-power", sname, vq, y, _pow(su, r * q), dims.power(du, r * q), lambda: f"(({u}) ** {p!r}) ** {qq!r}", case, cell + (j,),
                       partner=self.refpow(u, r * q))
        # u**p * u**-p == 1
        pn = self.spell(sname, -r)
        if pn is not G.NA:
            y, err = _attempt(lambda: x * u ** pn)
            if err:
                self.refusal("exponent-spelling", "unit-pow", sname, vc, err, lambda: f"({u}) ** {p!r} * ({u}) ** {pn!r}", case)
            elif self.judge("inverse", sname, vc, y, 1.0, dims.ZERO, lambda: f"({u}) ** {p!r} * ({u}) ** {pn!r}", case, cell):
                if not y.is_dimensionless:
                    rec.violation(f"C05:exponent-spelling:inverse:not-dimensionless:{sname}:{vc}", f"({u}) ** {p!r} * ({u}) ** {pn!r} = {y!r}: is_dimensionless is False", case)
        # (u*v)**p == u**p * v**p
        if V is not None:
            v, sv, dv = V
            if _in_range(su * sv, _pow(sv, r), _pow(su * sv, r)):
                es, ed = _pow(su * sv, r), dims.power(dims.mul(du, dv), r)
                lhs, e1 = _attempt(lambda: (u * v) ** p)
                rhs, e2 = _attempt(lambda: x * v ** p)
                if e1 or e2:
                    self.refusal("exponent-spelling", "unit-pow", sname, vc, e1 or e2, lambda: f"(({u})*({v})) ** {p!r} / ({u})**p * ({v})**p", case)
                elif self.judge("power-of-product", sname, vc, lhs, es, ed, lambda: f"(({u})*({v})) ** {p!r}", case, cell + ("lhs",)):
                    self.judge("power-of-product", sname, vc, rhs, es, ed, lambda: f"({u}) ** {p!r} * ({v}) ** {p!r}", case, cell + ("rhs",), partner=lhs)
            else:
                rec.count("discarded:scale-outside-float-range")
        # u**p * u**(n-p) == u**n
        n = math.floor(r) + 1
        q = Fr(n) - r
        if _in_range(_pow(su, q), _pow(su, n)):
            qq = sp(q)
            y, err = _attempt(lambda: x * u ** qq)
            if err:
                self.refusal("exponent-spelling", "unit-pow", sname, vc, err, lambda: f"({u}) ** {p!r} * ({u}) ** {qq!r}", case)
            else:
                self.judge("sum-of-exponents", sname, vc, y, _pow(su, n), dims.power(du, n), lambda: f"({u}) ** {p!r} * ({u}) ** {qq!r}", case, cell,
                           partner=self.refpow(u, n))

    def array_doors(self, U, r, sname, vc, p, x, case, cell):
        """x: the unit door's result if it was judged right (then the array door's unit must also compare equal to it), else None.
        Two of the four doors per case, alternating, so that every (spelling, value) meets every door on some unit."""
        rec = self.rec
        u, su, du = U
        es, ed = _pow(su, r), dims.power(du, r)
        for door in G.ARRAY_DOORS[self.k % 2::2]:
            if door == "np.power-array-exponent":
                try:
                    if np.full(2, p).dtype.kind not in "fiu":
                        continue
                except Exception:                                 # noqa: BLE001
                    continue
            q, err = _attempt(lambda: self.door(door, u, p))

            def desc():
                return f"{door} of a quantity in {u} with exponent {p!r}"
            if err:
                self.refusal("exponent-spelling", door, sname, vc, err, desc, case)
                continue
            rec.count("expspell:array-door:" + door)
            un = getattr(q, "units", None)
            if un is None:
                if ed == dims.ZERO and _relclose(es, 1.0):
                    rec.ok(("expspell", "array-door", door) + cell)
                else:
                    rec.violation(f"C05:exponent-spelling:{door}:no-unit:{sname}:{vc}", f"{desc()} returned {q!r} without a unit", case)
                continue
            self.judge("array-door", sname, vc, un, es, ed, lambda: desc() + " (unit of the result)", case, (door,) + cell, partner=x)

    # ------------------------------------------------------------------ multipliers
    def multipliers(self, U, uclass):
        rec = self.rec
        u, su, du = U
        neg = dims.power(du, -1)
        for ks in G.MULTIPLIERS:
            k = Fr(ks)
            vc = G.keyclass(k)
            for sname in G.MULT_SPELLINGS:
                p = self.spell(sname, k)
                if p is G.NA:
                    continue
                try:
                    kf = float(p)                                 # the number this spelling actually holds
                except Exception:                                 # noqa: BLE001
                    kf = float(k)
                eps = 8 * G.SPELL_EPS.get(sname, 0.0) + 1e-12
                for door, es, ed in (("u*k", kf * su, du), ("k*u", kf * su, du), ("u/k", su / kf, du), ("k/u", kf / su, neg)):
                    case = {"unit": str(u), "k": ks, "spelling": sname, "p": repr(p)[:60], "door": door}
                    rec.count("expspell:multiplier-cases")
                    q, err = _attempt(lambda: self.door(door, u, p))
                    if err:
                        self.refusal("multiplier-spelling", door, sname, vc, err, lambda: f"{door} with u={u} k={p!r}", case)
                        continue
                    key = f"C05:multiplier-spelling:{door}:%s:{sname}:{vc}"
                    un = getattr(q, "units", None)
                    if un is None or not getattr(un, "is_Unit", False):
                        rec.violation(key % "no-unit", f"{door} with u={u} k={p!r} returned {q!r} ({type(q).__name__}) without a unit", case)
                        continue
                    try:
                        val = float(np.asarray(q).reshape(-1)[0])
                    except Exception as e:                        # noqa: BLE001
                        rec.violation(key % "value-not-numeric", f"{door} with u={u} k={p!r} returned {q!r}: {type(e).__name__}", case)
                        continue
                    tot = val * float(un.base_value)
                    if _udim(un) != ed:
                        rec.violation(key % "dimension", f"{door} with u={u} k={p!r} = {q!r}: dimension {dims.show(_udim(un))}, expected {dims.show(ed)}", case)
                    elif not _relclose(tot, es, eps):
                        rec.violation(key % "scale", f"{door} with u={u} k={p!r} = {q!r}: value*unit scale {tot!r}, expected {es!r}", case)
                    else:
                        rec.count("expspell:multiplier-evals")
                        rec.ok(("expspell", "multiplier", door, sname, vc, uclass))


def _intact(rec, u, snap, where):
    now = (u.base_value, str(u.expr), _udim(u), float(u.base_offset))
    if now != snap:
        rec.violation(f"C05:exponent-spelling:operand-changed:{where}", f"unit {snap[1]!r} had (scale, expr, dim, offset) {snap} and after the spelled powers it has {now}", {"unit": snap[1]})


def run(rec, unyt, payload, make_resolver):
    m = Monitor(rec, unyt, make_resolver)
    if payload["mode"] == "enum":
        U = m.unit(payload["unit"], payload["custom"])
        V = m.unit(payload["partner"], payload["custom"])
        if U is None:
            rec.note("expspell:fixed-unit-not-usable:" + payload["unit"])
            return
        uclass = G.unit_class(payload["unit"], payload["custom"])
        snap = (U[0].base_value, str(U[0].expr), _udim(U[0]), float(U[0].base_offset))
        for rs in payload["rationals"]:
            r = Fr(rs)
            for sname in G.SPELLINGS:
                m.case(U, V, r, sname, uclass)
        if payload.get("multipliers"):
            m.multipliers(U, uclass)
        _intact(rec, U[0], snap, "enumerated")
        rec.sample({"expspell": "enumerated", "unit": payload["unit"], "rationals": len(payload["rationals"]), "spellings": len(G.SPELLINGS)})
        return
    # random (unit, rational) pairs over every name the library knows, every spelling
    from vf.props.common import all_names
    rnd = core.rng(payload["seed"], "expspell", payload["index"])
    tier = payload["tier"]
    nm = []
    for x in all_names():
        rr = names.resolve(x)
        if rr and "°" not in x and x not in ("", "_") and rr[1] not in ("degC", "degF", "lat", "lon", "B", "Np") and not defs.T[rr[1]].offset:
            nm.append(x)
    nm.sort()
    rs = G.rationals(tier)
    maxden = 12 if tier == "quick" else 20
    for i in range(payload["n"]):
        custom = rnd.random() < 0.25
        if custom:
            expr = rnd.choice(["cu0", "kcu0", "cu1", "cu0/cu1", "mcu0*cu1", "cu0**2"]) if rnd.random() < 0.6 else rnd.choice(nm)
            vexpr = rnd.choice(["cu1", "kcu0", "cu0"])
        else:
            a, b = rnd.choice(nm), rnd.choice(nm)
            expr = a if rnd.random() < 0.5 else (f"{a}*{b}" if rnd.random() < 0.5 else f"{a}/{b}")
            vexpr = rnd.choice(nm)
        try:
            U, V = m.unit(expr, custom), m.unit(vexpr, custom)
        except Exception as e:                                    # noqa: BLE001
            rec.note(f"expspell:random-unit-not-constructible:{type(e).__name__}")
            continue
        if U is None or not _in_range(U[1]) or abs(math.log10(U[1])) > 60 or (U[2] == dims.ZERO and U[1] == 1.0):
            # unusable, far from 1 (powers leave the float range), or the unit 1 itself (every power of it is 1: vacuous)
            rec.note("expspell:random-unit-skipped")
            continue
        if V is not None and abs(math.log10(V[1])) > 60:
            V = None
        if rnd.random() < 0.5:
            r = rnd.choice(rs)
        else:
            b = rnd.randint(1, maxden)
            r = Fr(rnd.choice([a for a in range(-4 * b, 4 * b + 1) if a != 0]), b)
        uclass = "custom" if custom else ("random-compound" if any(c in expr for c in "*/") else "random-name")
        snap = (U[0].base_value, str(U[0].expr), _udim(U[0]), float(U[0].base_offset))
        for sname in G.SPELLINGS:
            m.case(U, V, r, sname, uclass)
        if i % 8 == 0:
            m.multipliers(U, uclass)
        _intact(rec, U[0], snap, "random")
        if i < 2:
            rec.sample({"expspell": "random", "unit": expr, "partner": vexpr, "r": str(r)})
