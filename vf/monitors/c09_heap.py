"""Heap poisoning and repeat-call determinism (monitor helper of C09's special-values dimension).

A result element that the library never writes (a ufunc called with `where=` and no initialised `out=`, np.empty instead of np.zeros,
a branch that skips elements) holds whatever the allocator hands back.  In a quiet process that is often 0.0 or a plausible stale number,
so a single observation can look right.  `poison(sizes, sentinel)` allocates and frees a handful of buffers of exactly the byte sizes the
next call is going to allocate, filled with a recognisable number: NumPy keeps freed small data buffers (< 1024 bytes, up to 7 per size)
in a per-size cache and hands the most recently freed one to the next allocation of that size, so an unwritten element of the next
result shows the sentinel (or some other stale number) instead.  Calling the same thing twice after poisoning with two different
sentinels turns "uninitialised" into a run-to-run difference that `same_bits` sees.  Nothing here touches unyt.
"""
import numpy as np


def poison(sizes, sentinel, n=7):
    """fill and free n buffers of each byte size in `sizes` (only sizes NumPy's small-block cache keeps are useful, others are harmless)"""
    for nb in sizes:
        nb = int(nb)
        if nb <= 0:
            continue
        bufs = []
        for _ in range(n):
            raw = np.empty(nb, dtype=np.uint8)
            if nb % 8 == 0:
                raw.view(np.float64)[...] = sentinel
            elif nb % 4 == 0:
                raw.view(np.float32)[...] = np.float32(sentinel if abs(sentinel) < 1e38 else 7.25e33)
            else:
                raw[...] = 0xA5
            bufs.append(raw)
        del bufs


def sizes_for(x):
    """byte sizes a conversion of x plausibly allocates for its result and temporaries"""
    x = np.asarray(x)
    n = max(1, x.size)
    return sorted({x.nbytes, 8 * n, 4 * n, n, 8, 4})


def same_bits(a, b):
    a = np.asarray(a)
    b = np.asarray(b)
    return a.shape == b.shape and a.dtype == b.dtype and a.tobytes() == b.tobytes()
