"""C07, workload dimension 'angle units': unary functions whose *bare* result depends on the unit of the input through an
implicit conversion (np.sin / np.cos / np.tan take any angle unit and convert to radian before NumPy sees the numbers).

One physical angle theta (radian, float64, drawn by the harness) is written by the harness - never by unyt - as a reading in
every angle unit of the pool: prefixed radians, scaled units (degree, arcmin, arcsec, mas, hourangle ...), units with a
zero point (lat, lon and their long names) and user-registered angle units of a custom registry (a power-of-two multiple of
the radian, a scaled one and one with a zero point).  Every call door is driven (plain ufunc call, keyword dtype=,
out= bare / out= unyt, where= + out=, in place out=self, direct __array_ufunc__, ufunc.at) on 0-d quantity / 0-d array /
1-d / 2-d data in C, strided, reversed and transposed layout, float64 and float32.

 rule 1 (covariance)  the result is bare (or dimensionless) and must be numerically the same as the result of the same door
                      for the same angles written in radian, within rounding;
 reference            and it must equal NumPy applied to the radian magnitudes that vf.ref.defs (affine reading of the unit's
                      definition: base = scale x (reading - zero point)) gives for the readings actually passed.
The oracle never calls unyt: readings are produced and read back with vf.ref.defs only.
"""
import math

import numpy as np

from vf.ref import defs

FUNCS = ("sin", "cos", "tan")
# (symbol, class)
POOL = [("rad", "radian"), ("radian", "radian"), ("mrad", "prefixed-radian"), ("urad", "prefixed-radian"), ("krad", "prefixed-radian"),
        ("degree", "scaled"), ("arcmin", "scaled"), ("arcsec", "scaled"), ("mas", "scaled"), ("hourangle", "scaled"),
        ("lat", "zero-point"), ("lon", "zero-point"), ("latitude", "zero-point"), ("longitude", "zero-point"),
        ("degree_latitude", "zero-point"), ("degree_longitude", "zero-point")]
# user-registered units of a custom registry: symbol -> (scale, zero point, class)
CUSTOM = {"octrad": (2.0 ** -3, 0.0, "custom-dyadic"), "sextant": (math.pi / 3, 0.0, "custom-scaled"),
          "bearing": (-math.pi / 180, 45.0, "custom-zero-point"), "azim": (math.pi / 200, -100.0, "custom-zero-point")}
CLASSES = ("radian", "prefixed-radian", "scaled", "zero-point", "custom-dyadic", "custom-scaled", "custom-zero-point")
DOORS = ("call", "dtype=", "out=bare", "out=unyt", "where=", "out=self", "__array_ufunc__", "at")
SHAPES = ("0d-quantity", "0d-array", "1d", "2d")
LAYOUTS = ("C", "strided", "reversed", "T")
_LONG = {"latitude": "lat", "longitude": "lon", "degree_latitude": "lat", "degree_longitude": "lon", "radian": "rad"}


def _affine(sym):
    """(scale, zero point) of a pool symbol by the independent definitions: radian = scale x (reading - zero point)"""
    if sym in CUSTOM:
        return CUSTOM[sym][0], CUSTOM[sym][1]
    s = _LONG.get(sym, sym)
    if s in defs.T:
        return defs.T[s].value, defs.T[s].offset
    f, rest = defs.split_symbol(s)
    return defs.T[rest].value * f, defs.T[rest].offset


def _thetas(rng, n):
    fixed = [0.0, math.pi / 6, -math.pi / 4, 1.0, 2.5, -2.0, 3.0, 0.3]
    out = []
    while len(out) < n:
        t = fixed[len(out)] if len(out) < len(fixed) and rng.random() < 0.5 else float(rng.uniform(-3.1, 3.1))
        if abs(math.cos(t)) > 0.05:           # stay off the poles of tan
            out.append(t)
    return np.array(out)


def _layout(vals, shape, layout):
    """an array holding vals (flat order) in the requested shape and memory layout"""
    if shape.startswith("0d"):
        return np.array(vals[0])
    if shape == "1d":
        if layout == "strided":
            buf = np.zeros(2 * len(vals), vals.dtype)
            buf[::2] = vals
            return buf[::2]
        if layout == "reversed":
            return vals[::-1].copy()[::-1]
        return vals.copy()
    a = vals.reshape(2, -1)
    if layout == "T":
        return np.ascontiguousarray(a.T).T
    if layout == "strided":
        buf = np.zeros((2, 2 * a.shape[1]), vals.dtype)
        buf[:, ::2] = a
        return buf[:, ::2]
    if layout == "reversed":
        return a[::-1, ::-1].copy()[::-1, ::-1]
    return a.copy()


def _bare(r):
    """(numbers, problem) of a result that must be bare or dimensionless"""
    u = getattr(r, "units", None)
    if u is not None and str(u) not in ("dimensionless", "", "1"):
        return None, f"result carries the unit {u}"
    return np.array(np.asarray(r), dtype=np.float64), None


def _invoke(unyt, uf, door, x, mask):
    """returns (result numbers as float64 ndarray or exception, positions judged)"""
    sel = np.ones(x.shape, bool)
    if door == "call":
        r = uf(x)
    elif door == "dtype=":
        r = uf(x, dtype=x.dtype)
    elif door == "out=bare":
        o = np.full(x.shape, 7.0, x.dtype)
        r = uf(x, out=o)
        r = o if r is not None else r
    elif door == "out=unyt":
        o = unyt.unyt_array(np.full(x.shape, 7.0, x.dtype), "dimensionless")
        uf(x, out=o)
        r = o
    elif door == "where=":
        o = np.full(x.shape, 7.0, x.dtype)
        uf(x, out=o, where=mask)
        keep, prob = _bare(o)
        if prob is None and not np.all(keep[~mask] == 7.0):
            return None, "positions outside where= were overwritten"
        r, sel = o, mask
    elif door == "out=self":
        uf(x, out=x)
        r = x
    elif door == "__array_ufunc__":
        r = x.__array_ufunc__(uf, "__call__", x)
    elif door == "at":
        idx = np.flatnonzero(mask.reshape(-1)) if x.ndim == 1 else None
        if idx is None:
            raise _Skip()
        uf.at(x, idx)
        r, sel = x, mask
    num, prob = _bare(r)
    if prob:
        return None, prob
    if num.shape != x.shape:
        return None, f"result shape {num.shape} for input shape {x.shape}"
    return (num, sel), None


class _Skip(Exception):
    pass


def run(rec, tier, seed):
    import unyt
    from unyt.dimensions import angle
    rng = np.random.default_rng(1000 + seed)
    reg = unyt.UnitRegistry()
    for sym, (scale, zero, _) in CUSTOM.items():
        reg.add(sym, scale, angle, offset=zero) if zero else reg.add(sym, scale, angle)
    pool = [(s, c, None) for s, c in POOL] + [(s, v[2], reg) for s, v in CUSTOM.items()]
    pool += [("degree", "scaled", reg), ("lon", "zero-point", reg)]          # default symbols looked up through a custom registry
    ndraw = 2 if tier == "quick" else 12
    fails = {}
    for draw in range(ndraw):
        for shape in SHAPES:
            for layout in (LAYOUTS if shape in ("1d", "2d") else ("C",)):
                theta = _thetas(rng, 8)
                mask = rng.random(8) < 0.6
                mask[0], mask[1] = True, False
                for dt in ("f8", "f4"):
                    eps = float(np.finfo(dt).eps)
                    for fn in FUNCS:
                        uf = getattr(np, fn)
                        for door in DOORS:
                            if door == "at" and shape != "1d":
                                continue
                            ref_rad = None
                            for sym, cls, r_ in pool:
                                scale, zero = _affine(sym)
                                reading = (theta / scale + zero).astype(dt)
                                arr = _layout(reading, shape, layout)
                                m = _layout(mask, shape, layout)
                                back = scale * (np.asarray(arr, np.float64) - zero)          # radians actually denoted by the readings
                                want = uf(back)
                                tol = 32 * eps * (np.abs(back) + abs(scale * zero) + 1.0) * (1.0 + want ** 2 if fn == "tan" else 1.0)
                                try:
                                    un = unyt.Unit(sym, registry=r_) if r_ is not None else unyt.Unit(sym)
                                    x = unyt.unyt_quantity(arr[()], un) if shape == "0d-quantity" else unyt.unyt_array(arr, un)
                                except Exception as e:
                                    rec.note(f"angle-units:unit-not-built:{sym}:{type(e).__name__}")
                                    rec.count("angle-units-unit-not-built")
                                    continue
                                if door in ("out=self", "at") and shape == "0d-quantity":
                                    continue
                                desc = f"np.{fn} door {door} on {shape}/{layout}/{dt} in {sym}{' (custom registry)' if r_ is not None else ''}"
                                try:
                                    got, prob = _invoke(unyt, uf, door, x, m)
                                except _Skip:
                                    continue
                                except Exception as e:
                                    prob = f"raises {type(e).__name__}: {str(e)[:120]}"
                                    if sym == "rad" and r_ is None:
                                        ref_rad = ("exc", type(e).__name__)
                                        rec.count("angle-units-door-refused-in-radian")
                                    elif ref_rad is not None and ref_rad[0] == "exc":
                                        rec.count("angle-units-door-refused-for-every-unit")      # the door itself is refused, also in radian: allowed
                                    else:
                                        fails.setdefault((fn, "refused-in-one-unit-only", cls), []).append((door, desc + ": " + prob))
                                    continue
                                rec.count("angle-units-calls")
                                rec.count("angle-units-calls:" + cls)
                                rec.count("angle-units-door:" + door)
                                rec.count("angle-units-shape:" + shape + ("" if layout == "C" else "/" + layout))
                                if prob:
                                    fails.setdefault((fn, "result-not-bare" if "carries" in prob else "wrong-result-structure", cls), []).append((door, desc + ": " + prob))
                                    continue
                                num, sel = got
                                bad = False
                                d = np.abs(num - want)
                                if not np.all((d <= tol)[sel]) or not np.all(np.isfinite(num[sel])):
                                    i = int(np.argmax(np.where(sel, d / tol, 0)))
                                    fails.setdefault((fn, "differs-from-numpy-on-the-radian-magnitudes", cls), []).append(
                                        (door, f"{desc}: reading {arr.reshape(-1)[i]!r} = {back.reshape(-1)[i]!r} rad gives {num.reshape(-1)[i]!r}, NumPy on radians {want.reshape(-1)[i]!r}"))
                                    bad = True
                                rec.count("angle-units-reference-comparisons")
                                if sym == "rad" and r_ is None:
                                    ref_rad = ("ok", num, tol)
                                elif ref_rad is not None and ref_rad[0] == "ok":
                                    rec.count("angle-units-covariance-comparisons")
                                    rec.count("angle-units-covariance-comparisons:" + cls)
                                    d2 = np.abs(num - ref_rad[1])
                                    if cls == "custom-dyadic" and dt == "f8" and not np.array_equal(num[sel], ref_rad[1][sel]):
                                        fails.setdefault((fn, "not-bit-exact", cls), []).append((door, f"{desc}: power-of-two multiple of the radian gives {num[sel]!r}, radian gives {ref_rad[1][sel]!r}"))
                                        bad = True
                                    elif not np.all((d2 <= tol + ref_rad[2])[sel]):
                                        i = int(np.argmax(np.where(sel, d2 / (tol + ref_rad[2]), 0)))
                                        fails.setdefault((fn, "bare-result-changes-with-angle-unit", cls), []).append(
                                            (door, f"{desc}: the angle {back.reshape(-1)[i]!r} rad gives {num.reshape(-1)[i]!r} written in {sym}, {ref_rad[1].reshape(-1)[i]!r} written in rad"))
                                        bad = True
                                elif ref_rad is not None and ref_rad[0] == "exc":
                                    fails.setdefault((fn, "refused-in-one-unit-only", "radian"), []).append((door, f"{desc} is answered, the same door in rad raises {ref_rad[1]}"))
                                    bad = True
                                if not bad:
                                    rec.ok(("angle-units", fn, door, shape, dt, cls))
    for (fn, kind, cls), es in sorted(fails.items()):
        doors = {e[0] for e in es}
        dq = "" if "call" in doors else "(" + ",".join(sorted(doors)[:2]) + ")" if len(doors) <= 2 else "(doors)"
        key = f"C07:numpy.{fn}{dq}:angle-units:{kind}:{cls}"
        for door, desc in sorted(es, key=lambda e: (e[0] != "call", e[1])):
            rec.violation(key, desc, {"dimension": "angle-units", "function": fn, "door": door})
