"""C17 taps: class-level wrappers on the real conversion entry points of unyt_array (installed from the harness inside
the forked child, no source edit).  They (a) count every execution per entry point and input dtype kind - the evidence of
what the workload really reached, including internal calls (binary ufuncs / list coercion calling in_units) - and
(b) run the passive C17 contract on *every* such execution: integer-typed data whose unit label changed must not come
back integer-typed."""
import functools

COPY = ("in_units", "to", "to_value", "in_base", "in_cgs", "in_mks", "to_equivalent")
INPLACE = ("convert_to_units", "convert_to_base", "convert_to_cgs", "convert_to_mks", "convert_to_equivalent")


class Taps:
    def __init__(self):
        self.calls = {}
        self.passive_evals = 0
        self.passive_bad = []     # (entry, in dtype, out dtype, units before, units after)
        self.depth = 0

    def bump(self, name):
        self.calls[name] = self.calls.get(name, 0) + 1


def install(unyt):
    """returns the Taps object; idempotent per process"""
    cls = unyt.unyt_array
    if getattr(cls, "_c17_taps", None) is not None:
        return cls._c17_taps
    taps = Taps()

    def wrap_copy(name, orig):
        @functools.wraps(orig)
        def w(self, *a, **k):
            kind, ustr = self.dtype.kind, str(self.units)
            taps.bump(f"{name}:{kind}")
            r = orig(self, *a, **k)
            if kind in "iu":
                rk = getattr(getattr(r, "dtype", None), "kind", None)
                ru = getattr(r, "units", None)
                if rk is not None and (ru is None or str(ru) != ustr):
                    taps.passive_evals += 1
                    if rk in "iub":
                        taps.passive_bad.append((name, str(self.dtype), str(r.dtype), ustr, str(ru)))
            return r
        return w

    def wrap_inplace(name, orig):
        @functools.wraps(orig)
        def w(self, *a, **k):
            kind, ustr, dt = self.dtype.kind, str(self.units), str(self.dtype)
            taps.bump(f"{name}:{kind}")
            r = orig(self, *a, **k)
            if kind in "iu" and str(self.units) != ustr:
                taps.passive_evals += 1
                if self.dtype.kind in "iub":
                    taps.passive_bad.append((name, dt, str(self.dtype), ustr, str(self.units)))
            return r
        return w

    for n in COPY:
        setattr(cls, n, wrap_copy(n, getattr(cls, n)))
    for n in INPLACE:
        setattr(cls, n, wrap_inplace(n, getattr(cls, n)))

    orig_ufunc = cls.__array_ufunc__

    @functools.wraps(orig_ufunc)
    def ufunc_tap(self, ufunc, method, *inputs, **kwargs):
        taps.bump(f"__array_ufunc__:{ufunc.__name__}:{method}" + (":out" if "out" in kwargs else ""))
        return orig_ufunc(self, ufunc, method, *inputs, **kwargs)
    cls.__array_ufunc__ = ufunc_tap
    cls._c17_taps = taps
    return taps
