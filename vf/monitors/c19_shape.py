"""Shape monitor of C19: the verdict of a helper on operands of different sizes against (1) the SI reference verdict and (2) the
verdict of the SAME comparison with both operands written out at the common (broadcast) shape.

The judging function of the check reports into a CapRec (vf.monitors.c19_history); replay() turns what it reported into the real
record, with the shape coordinates added to the coverage cell, the counters filed under sub:shape:..., and - for a verdict the
reference calls wrong - the mechanism attributed by observation: when the explicitly broadcast twin of the same call is judged
right, the operand shape decided and the key says so (<key>:shape-asymmetric:<relation>); when the twin is wrong too the key is
the ordinary one of the check (the shape is not the mechanism).

same_verdict() is the metamorphic law itself: accept/refuse (elementwise for np.isclose) must not change when an operand is
spelled as a 0-d / size-1 / partial array instead of the same values at full shape.  It never needs to know how a bare atol is
read, only that the reading does not follow the sizes of the operands.
"""
import numpy as np


def violated(events):
    return any(e[0] == "violation" for e in events)


def judged_ok(events):
    return any(e[0] == "ok" for e in events) and not violated(events)


def replay(rec, events, cellx, rel, twin_events=None, case_extra=None, prefix="shape"):
    """-> 'ok' | 'violation' | 'unjudged'"""
    verdict = "unjudged"
    for kind, key, a, b in events:
        if kind == "count":
            name = key
            if name.startswith("sub:"):
                name = f"sub:{prefix}:" + name[4:]
            elif name.startswith("calls:"):
                name = f"calls:{prefix}:" + name[6:]
            elif name.startswith("discarded:"):
                name = f"discarded:{prefix}:" + name[10:]
            rec.count(name, a)
        elif kind == "note":
            rec.note(f"{prefix}:" + key, a)
        elif kind == "reach":
            rec.reach(key)
        elif kind == "ok":
            rec.ok((key,) + tuple(cellx))
            if verdict == "unjudged":
                verdict = "ok"
        elif kind == "violation":
            case = dict(b) if isinstance(b, dict) else {"case": b}
            case.update(case_extra or {})
            if twin_events is not None and judged_ok(twin_events):
                key = f"{key}:shape-asymmetric:{rel}"
                case["explicitly-broadcast-twin"] = "judged right"
                a = f"[only with operands of different size ({rel}); right when both are written at the common shape] {a}"
            elif twin_events is not None:
                case["explicitly-broadcast-twin"] = "judged wrong too" if violated(twin_events) else "not judged"
            rec.violation(key, a, case)
            verdict = "violation"
    return verdict


def same_verdict(fn, out_given, out_twin, full):
    """out_*: (accept|refuse, detail, elementwise-or-None) as returned by the check's outcome_close.  -> (bool, text)"""
    vg, dg, eg = out_given
    vt, dt, et = out_twin
    if fn == "np.isclose" and eg is not None and et is not None:
        try:
            g = np.broadcast_to(eg, full)
            t = np.broadcast_to(et, full)
        except ValueError:
            return False, f"result shapes {np.shape(eg)} / {np.shape(et)} do not broadcast to {full}"
        if np.array_equal(g, t):
            return True, ""
        return False, f"as given {np.asarray(eg).tolist()}, written at the common shape {np.asarray(et).tolist()}"
    if vg == vt:
        return True, ""
    return False, f"as given {vg} ({dg}), written at the common shape {vt} ({dt})"
