"""C14 monitor for edit histories on custom registries (workload: vf/gen/c14_edits.py).

One history: a fresh UnitRegistry, one or two edited symbols X (a table symbol the user makes prefixable, or the user's own
prefixable unit) whose SI-prefixed spellings are other documented names, a word of add / modify / remove edits with look-ups,
namespace builds and registry copies in between.  Judged after the steps the history says:

* reading monitor (route string): every documented name that does not involve an edited symbol must still be the unit
  the independent resolver gives (canonical symbol of the default registry x prefix factor <= 1 ulp, dimension, offset) and
  print as it does in the unedited default registry; 'involves X' = is X, is listed under X, or resolves to X;
* reading monitor (route namespace): the same for every entry of an add_symbols() namespace of the edited registry, plus
  the same-symbol contract against the string route for the colliding names; add_symbols must not raise unless an edited
  *table* symbol is currently removed;
* edited-symbol monitor: X itself reads as the model says (last written value / refused after remove) and <prefix>+X that
  is not a documented name is prefix x current value while X is prefixable and refused otherwise (no stale derived entry).
"""
import copy
import math
import pickle

from vf.ref import defs, dims, names
from vf.gen import c14_edits as G
from vf.props.common import all_names

ULP = 2.3e-16


class Ctx:
    """per-worker reference table, built once"""

    def __init__(self, unyt):
        self.unyt = unyt
        self.canon = G.canon_of()
        self.exposed = set(all_names()) | set(defs.T)
        self.dimcache = {}
        self.ref = {}
        self.unusable = set()
        self.family = {}
        canon_unit = {}
        for n in sorted(self.exposed):
            r = names.resolve(n)
            if r is None:
                continue
            f, s, _amb = r
            try:
                du = unyt.Unit(n)
            except Exception:
                self.unusable.add(n)          # judged (and listed) by the string batches
                continue
            if s not in canon_unit:
                cu = unyt.Unit(s)
                canon_unit[s] = (cu.base_value, self.dim(cu), float(cu.base_offset))
            v, d, o = canon_unit[s]
            self.ref[n] = (v * f, d, o, str(du), du.expr, s)
            self.family.setdefault(self.canon.get(n, n), []).append(n)
        self.symbols = [s for s in defs.T if s in self.ref]
        self.allnames = sorted(self.ref)

    def dim(self, u):
        e = u.dimensions
        try:
            return self.dimcache[e]
        except KeyError:
            v = self.dimcache[e] = dims.of_expr(e)
            return v

    def reading(self, u):
        return (u.base_value, self.dim(u), float(u.base_offset))


def compare(ctx, u, ref, printed=True):
    """-> None or failure kind"""
    v, d, o = ctx.reading(u)
    if d != ref[1]:
        return "dimension"
    if abs(v - ref[0]) > ULP * abs(ref[0]):
        return "scale"
    if o != ref[2]:
        return "offset"
    if printed and (str(u) != ref[3] or u.expr != ref[4]):
        return "printed-symbol"
    return None


class History:
    def __init__(self, ctx, h, rec):
        import random
        unyt = ctx.unyt
        self.ctx, self.h, self.rec, self.unyt = ctx, h, rec, unyt
        self.rnd = random.Random(h.get("jseed", 0))
        self.reg = unyt.UnitRegistry(unit_system=h["system"]) if h.get("system") else unyt.UnitRegistry()
        self.syms = h["syms"]
        self.word = ""
        self.last = None
        self.model = []
        pristine = unyt.UnitRegistry()
        for s in self.syms:
            x = s["x"]
            if s["kind"].startswith("table"):
                u = unyt.Unit(x, registry=pristine)
                self.model.append({"present": True, "value": float(u.base_value), "dimobj": u.dimensions, "offset": float(u.base_offset),
                                   "tex": u.latex_repr, "prefixable": defs.T[x].prefixable, "table": True})
            elif s.get("like"):
                # the user's unit is the unprefixed unit of the colliding table symbol: value = table value / prefix
                p, N = s["like"]
                like = unyt.Unit(N, registry=pristine)
                v = like.base_value / defs.PREFIX[p]
                for cand in (v, math.nextafter(v, math.inf), math.nextafter(v, -math.inf)):
                    if cand * defs.PREFIX[p] == like.base_value:
                        v = cand
                        break
                else:
                    rec.note("equal-value-not-representable")
                self.model.append({"present": False, "value": v, "dimobj": like.dimensions, "offset": None, "tex": None, "prefixable": False, "table": False})
            else:
                self.model.append({"present": False, "value": s["value"], "dimobj": getattr(unyt.dimensions, s["dim"]), "offset": None,
                                   "tex": None, "prefixable": False, "table": False})
        # names that involve an edited symbol / the colliding families
        self.xs = {s["x"] for s in self.syms}
        self.involved_cache = {}
        self.focus = []
        self.collision_names = set()
        for s in self.syms:
            for N in s["collide"]:
                for n in ctx.family.get(ctx.canon.get(N, N), [N]):
                    self.collision_names.add(n)
            for p in defs.PREFIX:
                n = p + s["x"]
                if n in ctx.ref:
                    self.collision_names.add(n)
        self.collision_names = {n for n in self.collision_names if n in ctx.ref and not self.involved(n)}
        self.focus = sorted(self.collision_names)
        # (symbol index, prefix factor, colliding name) and the names whose table value has at some point of the history been
        # exactly prefix x value of the edited symbol with its dimension (the documented unit then IS the prefixed user unit)
        self.colliders = [(i, f, p + s["x"]) for i, s in enumerate(self.syms) for p, f in defs.PREFIX.items() if p + s["x"] in self.collision_names]
        self.equal_value = set()

    # ------------------------------------------------------------------ helpers
    def involved(self, n):
        c = self.involved_cache.get(n)
        if c is None:
            ctx = self.ctx
            c = n in self.xs or ctx.canon.get(n, n) in self.xs or (n in ctx.ref and ctx.ref[n][5] in self.xs)
            self.involved_cache[n] = c
        return c

    def relation(self, n):
        if n in self.equal_value:
            return "prefix-collision-equal-value"
        return "prefix-collision" if n in self.collision_names else "unrelated"

    def note_equal_values(self):
        ctx = self.ctx
        for i, f, N in self.colliders:
            m = self.model[i]
            r = ctx.ref[N]
            if m["present"] and m["value"] * f == r[0] and dims.of_expr(m["dimobj"]) == r[1]:
                self.equal_value.update(n for n in ctx.family.get(ctx.canon.get(N, N), [N]) if n in self.collision_names)
                self.equal_value.add(N)
                self.rec.count("edits_equal_value_collisions")

    def key(self, route, failure, relation, kind):
        if relation == "prefix-collision-equal-value" or (relation == "whole-namespace" and self.equal_value):
            # one structural cause (derived-entry bookkeeping by value): not split by symbol kind / edit
            return f"C14:edited-registry:{route}:{failure}:prefix-collision-equal-value"
        after = G.EDIT_NAME[self.last] if self.last else "no-edit"
        return f"C14:edited-registry:{route}:{failure}:{relation}:{kind}-symbol:after-{after}"

    def case(self, name):
        return {"edited": [{k: s.get(k) for k in ("x", "kind", "value", "dim", "like")} for s in self.syms], "steps": self.h["steps"],
                "executed": self.word, "system": self.h.get("system"), "name": name}

    def kinds(self):
        return "+".join(sorted({s["kind"] for s in self.syms}))

    # ------------------------------------------------------------------ steps
    def apply(self, op, i):
        reg, m, s = self.reg, self.model[i], self.syms[i]
        x = s["x"]
        rec = self.rec
        if op in G.EDITS:
            kw = {}
            if m["table"]:
                kw = {"tex_repr": m["tex"], "offset": m["offset"]}
            if op == "E":
                reg.add(x, m["value"], m["dimobj"], prefixable=True, **kw)
                m.update(present=True, prefixable=True)
            elif op == "A":
                m["value"] = m["value"] * 1.25
                reg.add(x, m["value"], m["dimobj"], prefixable=True, **kw)
                m.update(present=True, prefixable=True)
            elif op == "N":
                reg.add(x, m["value"], m["dimobj"], prefixable=False, **kw)
                m.update(present=True, prefixable=False)
            elif op == "S":
                reg.modify(x, m["value"])
            elif op == "M":
                m["value"] = m["value"] * 1.5
                reg.modify(x, m["value"])
            elif op == "R":
                reg.remove(x)
                m.update(present=False)
            self.last = op
            self.note_equal_values()
            rec.count("edit:" + G.EDIT_NAME[op])
            rec.reach("edit:" + G.EDIT_NAME[op] + "|" + s["kind"] + "|" + s["level"])
        else:
            unyt = self.unyt
            rec.count("step:" + op)
            if op == "Lp":
                for p in defs.PREFIX:
                    try:
                        unyt.Unit(p + x, registry=reg)
                    except Exception:
                        pass
            elif op == "Lc":
                for n in self.focus:
                    try:
                        unyt.Unit(n, registry=reg)
                    except Exception:
                        pass
            elif op == "Ln":
                try:
                    unyt.unit_systems.add_symbols({}, reg)
                except Exception:
                    pass
            elif op == "Lq":
                if self.focus:
                    try:
                        unyt.unyt_quantity(2.0, self.rnd.choice(self.focus), registry=reg).in_base("mks")
                    except Exception:
                        pass
            elif op == "Cd":
                self.reg = copy.deepcopy(reg)
            elif op == "Cp":
                self.reg = pickle.loads(pickle.dumps(reg))
            elif op == "Cj":
                self.reg = unyt.UnitRegistry.from_json(reg.to_json())
        self.word += op

    # ------------------------------------------------------------------ judging
    def judge_strings(self, sweep):
        ctx, rec, reg, unyt = self.ctx, self.rec, self.reg, self.unyt
        todo = list(self.focus)
        if sweep == "slice":
            self.slice = (getattr(self, "slice", -1) + 1) % 4
            todo += [s for s in ctx.symbols[self.slice::4] if s not in self.collision_names]
        elif sweep == "symbols":
            todo += [s for s in ctx.symbols if s not in self.collision_names]
        elif sweep == "full":
            todo += [n for n in ctx.allnames if n not in self.collision_names]
        nfocus = len(self.focus)
        good = {"prefix-collision": 0, "unrelated": 0, "prefix-collision-equal-value": 0}
        for j, n in enumerate(todo):
            if j >= nfocus and self.involved(n):
                rec.count("edits_involved_names_skipped")
                continue
            relation = self.relation(n)
            try:
                u = unyt.Unit(n, registry=reg)
            except Exception as e:
                rec.violation(self.key("string", "refused", relation, self.kinds()),
                              f"after {self.word}: Unit({n!r}, registry=<edited>) raises {type(e).__name__}; documented reading {ctx.ref[n][:3]}", self.case(n))
                continue
            bad = compare(ctx, u, ctx.ref[n])
            if bad:
                rec.violation(self.key("string", bad, relation, self.kinds()),
                              f"after {self.word} on {sorted(self.xs)}: Unit({n!r}, registry=<edited>) reads {ctx.reading(u)} printed {str(u)!r}; "
                              f"documented {ctx.ref[n][:4]}", self.case(n))
            else:
                good[relation] += 1
        for relation, k in good.items():
            if k:
                rec.ok(("edits", "string", relation, "+".join(sorted(self.xs)), self.word), k)
                rec.count("edits_string_" + relation.replace("-", "_"), k)

    def judge_edited(self):
        """X itself and <prefix>+X against the model"""
        ctx, rec, reg, unyt = self.ctx, self.rec, self.reg, self.unyt
        for s, m in zip(self.syms, self.model):
            x = s["x"]
            mdim = dims.of_expr(m["dimobj"])
            todo = []
            if s["kind"] in ("own", "table", "table-prefixable"):
                todo.append((x, 1.0, "edited-symbol"))
            else:
                rec.note("edited-symbol-spelled-like-a-listed-name-not-judged-by-its-bare-name")
            for p, f in defs.PREFIX.items():
                n = p + x
                if n in ctx.exposed or n in ctx.unusable:
                    continue                      # a documented name: reading monitor
                if names.resolve(n) is not None:
                    rec.note("prefixed-edited-symbol-known-to-resolver-only")
                    continue
                if p == "d" and x.startswith("a"):
                    rec.note("deci-prefix-on-symbol-starting-with-a-reads-as-deca-split")   # 'da'+rest is tried first, documented rule
                    continue
                todo.append((n, f, "prefixed-edited-symbol"))
            good = 0
            for n, f, what in todo:
                expect = m["present"] and (f == 1.0 and what == "edited-symbol" or m["prefixable"])
                try:
                    u = unyt.Unit(n, registry=reg)
                except Exception as e:
                    if expect:
                        rec.violation(self.key("string", "refused", what, s["kind"]),
                                      f"after {self.word}: Unit({n!r}) raises {type(e).__name__} although {x!r} is present"
                                      f"{' and prefixable' if what != 'edited-symbol' else ''} in the registry", self.case(n))
                    else:
                        good += 1
                    continue
                if not expect:
                    why = "removed" if not m["present"] else "not prefixable"
                    rec.violation(self.key("string", "accepted-stale" if not m["present"] else "accepted-on-non-prefixable", what, s["kind"]),
                                  f"after {self.word}: Unit({n!r}) = {ctx.reading(u)} although {x!r} is {why}", self.case(n))
                    continue
                ev = m["value"] * f
                v, d, _o = ctx.reading(u)
                if d != mdim:
                    rec.violation(self.key("string", "dimension", what, s["kind"]), f"after {self.word}: Unit({n!r}) dimension {dims.show(d)} != {dims.show(mdim)}", self.case(n))
                elif abs(v - ev) > ULP * abs(ev):
                    rec.violation(self.key("string", "scale", what, s["kind"]),
                                  f"after {self.word}: Unit({n!r}).base_value {v!r} != {f!r} x current value {m['value']!r} of {x!r}", self.case(n))
                else:
                    good += 1
            if good:
                rec.ok(("edits", "edited-symbol", x, self.word), good)
                rec.count("edits_edited_symbol", good)

    def judge_namespace(self, sweep):
        ctx, rec, reg, unyt = self.ctx, self.rec, self.reg, self.unyt
        ns = {}
        # names that involve an edited table symbol are attributes of unit_symbols: while that symbol is removed (or a
        # prefixable one is not prefixable) add_symbols cannot build them and raises as a whole
        removed_table = [s["x"] for s, m in zip(self.syms, self.model)
                         if m["table"] and (not m["present"] or (defs.T[s["x"]].prefixable and not m["prefixable"]))]
        try:
            unyt.unit_systems.add_symbols(ns, reg)
        except Exception as e:
            if removed_table:
                rec.note("namespace-unavailable-while-an-edited-table-symbol-is-removed-or-lost-its-prefixes")
            else:
                rec.violation(self.key("namespace", "add_symbols-raises", "whole-namespace", self.kinds()),
                              f"after {self.word} on {sorted(self.xs)}: add_symbols(ns, <edited registry>) raises {type(e).__name__}: {str(e)[:120]}", self.case(None))
            return
        rec.count("edits_namespaces_built")
        if sweep == "focus":
            todo = self.focus
        elif sweep == "symbols":
            todo = self.focus + [s for s in ctx.symbols if s not in self.collision_names]
        else:
            todo = None
        good = {"prefix-collision": 0, "unrelated": 0, "prefix-collision-equal-value": 0}
        items = ns.items() if todo is None else [(n, ns.get(n)) for n in todo]
        for n, val in items:
            if n not in ctx.ref or self.involved(n) or not n.isidentifier() or n.startswith("_"):
                continue                       # '' , '_' and non-identifier keys: as in the attribute batch
            relation = self.relation(n)
            if val is None:
                rec.violation(self.key("namespace", "missing", relation, self.kinds()), f"after {self.word}: add_symbols namespace has no {n!r}", self.case(n))
                continue
            if val.registry is not reg:
                rec.violation(self.key("namespace", "registry", relation, self.kinds()), f"after {self.word}: namespace[{n!r}] bound to another registry", self.case(n))
                continue
            bad = compare(ctx, val, ctx.ref[n])
            if bad:
                rec.violation(self.key("namespace", bad, relation, self.kinds()),
                              f"after {self.word} on {sorted(self.xs)}: namespace[{n!r}] reads {ctx.reading(val)} printed {str(val)!r}; documented {ctx.ref[n][:4]}", self.case(n))
                continue
            if relation != "unrelated":
                # same-symbol contract against the string route in the same registry
                try:
                    u = unyt.Unit(n, registry=reg)
                    # hashing a unit of an edited registry re-serialises the whole table (~0.15 s): only in full sweeps
                    if u.expr != val.expr or str(u) != str(val) or (todo is None and hash(u) != hash(val)) or (val / u).expr != 1:
                        rec.violation(self.key("namespace", "symbol-differs-from-string", relation, self.kinds()),
                                      f"after {self.word}: namespace[{n!r}] is {val!r} but Unit({n!r}, registry) is {u!r}", self.case(n))
                        continue
                    rec.count("edits_same_symbol")
                except Exception:
                    pass                       # the string route is judged by judge_strings
            good[relation] += 1
        for relation, k in good.items():
            if k:
                rec.ok(("edits", "namespace", relation, "+".join(sorted(self.xs)), self.word), k)
                rec.count("edits_namespace_" + relation.replace("-", "_"), k)

    def judge(self, final):
        sweep = self.h["sweep"] if final else "slice"
        self.judge_strings(sweep)
        self.judge_edited()
        if final and self.h.get("ns"):
            self.judge_namespace(sweep)

    def run(self):
        h, rec = self.h, self.rec
        mode = h["judge"]
        steps = h["steps"]
        for k, (op, i) in enumerate(steps):
            self.apply(op, i)
            last = k == len(steps) - 1
            if last:
                break
            if op in G.EDITS and (mode == "every" or (mode == "random" and self.rnd.random() < 0.5)):
                self.judge(False)
        self.judge(True)
        rec.count("edit_histories")
        rec.count("edit_histories:" + h["origin"])
        for s in self.syms:
            rec.reach("edited|" + s["level"] + "|" + s["kind"])


def run(histories, rec, unyt):
    ctx = Ctx(unyt)
    for h in histories:
        History(ctx, h, rec).run()
    if histories:
        rec.sample({"edit_history": histories[0]["steps"], "edited": [s["x"] for s in histories[0]["syms"]],
                    "colliding_names": histories[0]["syms"][0]["collide"]})
