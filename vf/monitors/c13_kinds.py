"""C13 sub-monitor: the UNIT KIND of each operand of an operation that mixes two registries.

Statement judged: "operations mixing two registries use the left operand's registry and never write to either".
Workload dimension added here: for an ordered pair of registries (L, R) of a history, operands of every unit kind
(bare dimensionless "", the bare unit obtained as x/y inside a registry, the symbol `dimensionless`, scaled
dimensionless, base, atomic, prefixed, compound, user symbol, compound of a user symbol, edited built-in, angle, offset,
logarithmic) are put in BOTH positions of every mixing operation form (operator, np.<ufunc>, reflected dunder, in-place,
out= being the left copy / the right copy / a fresh unyt buffer / a plain ndarray, matmul, Unit*Unit, Unit/Unit,
commensurable add/subtract/extremum forms, comparisons).

Oracles (none of them calls a unit rule, Unit.__mul__ or __array_ufunc__ to obtain an expectation):
  identity    the result's units.registry is the LEFT operand's registry object (or a shallow alias sharing its table);
  behaviour   a unit string T made of a symbol that L and R resolve differently (or that only L knows) times base symbols
              such that T has the dimensions of the result: converting the result to T must give
              result_value * result_unit.base_value / (scale L itself resolves T to), i.e. later conversions of the
              result resolve T as L does; judged only where L resolves T and R resolves it differently or not at all;
  no write    left to the history monitor (the step is addressed to nobody: every table and every resolution of every
              registry, the default tables, namespace, conversions and unit systems are compared after the step).
Products/quotients of a Unit and data (Unit*quantity, quantity/Unit, ...) have data as one operand and a label as the
other: their result registry is noted only.
"""
import numpy as np

KINDS = ["bare", "bare-quotient", "dimensionless-symbol", "scaled-dimensionless", "base", "atomic", "prefixed", "compound",
         "user", "user-compound", "edited-builtin", "angle", "offset", "logarithmic"]
#: kinds whose unit is the identity of multiplication (expr 1, scale 1): qualifies the mechanism key
BARE = ("bare", "bare-quotient")
SPELL = {
    "bare": ["", "", "1"],
    "dimensionless-symbol": ["dimensionless"],
    "scaled-dimensionless": ["percent", "km/m", "percent", "mm/m"],
    "base": ["m", "s", "kg", "K"],
    "atomic": ["g", "erg", "Msun", "mile", "yr", "J", "N", "eV", "pc"],
    "prefixed": ["km", "mg", "us", "keV", "Mpc", "cm"],
    "compound": ["km/s", "g/cm**3", "1/s", "m**2", "kg*m/s**2", "erg/s/cm**2", "Msun/yr"],
    "angle": ["rad", "degree"],
    "offset": ["degC", "degF"],
    "logarithmic": ["dB", "Np"],
}
QUOT_SRC = ["km", "g", "s", "m", "erg"]
USER_COMPOUND = ["%s/s", "%s**2", "1/%s", "%s*m", "g/%s**3"]

# ---- operation forms: name -> (family, group); group: mult | add | cmp | unit | label
MULT_FORMS = ["mul", "np.multiply", "rmul-dunder", "imul", "np.multiply-out-left", "np.multiply-out-right", "np.multiply-out-fresh",
              "np.multiply-out-ndarray", "matmul",
              "div", "np.divide", "rtruediv-dunder", "idiv", "np.divide-out-left", "np.divide-out-right", "np.divide-out-fresh",
              "floor_divide", "np.floor_divide"]
ADD_FORMS = ["add", "np.add", "radd-dunder", "iadd", "np.add-out-left", "np.add-out-right", "sub", "np.subtract", "rsub-dunder", "isub",
             "np.subtract-out-left", "np.maximum", "np.minimum", "np.hypot", "mod", "np.fmod"]
CMP_FORMS = ["lt", "le", "gt", "ge", "eq", "ne", "np.less", "np.not_equal"]
UNIT_FORMS = ["unit-mul", "unit-div"]
LABEL_FORMS = ["unit-times-data", "data-times-unit", "unit-over-data", "data-over-unit"]
FAMILY = {}
for _f in MULT_FORMS:
    FAMILY[_f] = "divide" if "div" in _f else "multiply"
for _f in ADD_FORMS:
    FAMILY[_f] = "subtract" if "sub" in _f else "add-like"
for _f in CMP_FORMS:
    FAMILY[_f] = "comparison"
FAMILY["unit-mul"] = "unit-mul"
FAMILY["unit-div"] = "unit-div"
FAMILIES = ["multiply", "divide", "add-like", "subtract", "comparison", "unit-mul", "unit-div"]


def apply_form(U, form, a, b):
    """run one operation form on left operand a and right operand b (copies are made for in-place/out= forms)"""
    if form == "mul":
        return a * b
    if form == "np.multiply":
        return np.multiply(a, b)
    if form == "rmul-dunder":
        return type(b).__rmul__(b, a)
    if form == "imul":
        c = a.copy()
        c *= b
        return c
    if form == "matmul":
        return a @ b
    if form == "div":
        return a / b
    if form == "np.divide":
        return np.true_divide(a, b)
    if form == "rtruediv-dunder":
        return type(b).__rtruediv__(b, a)
    if form == "idiv":
        c = a.copy()
        c /= b
        return c
    if form == "floor_divide":
        return a // b
    if form == "np.floor_divide":
        return np.floor_divide(a, b)
    if form == "add":
        return a + b
    if form == "np.add":
        return np.add(a, b)
    if form == "radd-dunder":
        return type(b).__radd__(b, a)
    if form == "iadd":
        c = a.copy()
        c += b
        return c
    if form == "sub":
        return a - b
    if form == "np.subtract":
        return np.subtract(a, b)
    if form == "rsub-dunder":
        return type(b).__rsub__(b, a)
    if form == "isub":
        c = a.copy()
        c -= b
        return c
    if form == "np.maximum":
        return np.maximum(a, b)
    if form == "np.minimum":
        return np.minimum(a, b)
    if form == "np.hypot":
        return np.hypot(a, b)
    if form == "mod":
        return a % b
    if form == "np.fmod":
        return np.fmod(a, b)
    if form == "lt":
        return a < b
    if form == "le":
        return a <= b
    if form == "gt":
        return a > b
    if form == "ge":
        return a >= b
    if form == "eq":
        return a == b
    if form == "ne":
        return a != b
    if form == "np.less":
        return np.less(a, b)
    if form == "np.not_equal":
        return np.not_equal(a, b)
    if form in ("unit-mul", "unit-times-data", "data-times-unit"):
        return a * b
    if form in ("unit-div", "unit-over-data", "data-over-unit"):
        return a / b
    if "-out-" in form:
        uf = {"np.multiply": np.multiply, "np.divide": np.true_divide, "np.add": np.add, "np.subtract": np.subtract}[form.split("-out-")[0]]
        how = form.split("-out-")[1]
        shape = np.broadcast(a, b).shape
        if how == "left":
            if a.shape != shape:
                raise ValueError("out=left needs the broadcast shape")
            c = a.copy()
            return uf(c, b, out=c)
        if how == "right":
            if b.shape != shape:
                raise ValueError("out=right needs the broadcast shape")
            c = b.copy()
            return uf(a, c, out=c)
        if how == "fresh":
            o = U.unyt_array(np.zeros(shape), "", registry=a.units.registry) if shape else U.unyt_quantity(0.0, "", registry=a.units.registry)
            return uf(a, b, out=o)
        o = np.zeros(shape)
        return uf(a, b, out=o)
    raise ValueError(form)


class Operand:
    __slots__ = ("kind", "spell", "q", "a", "u")

    def __init__(self, kind, spell, q, a, u):
        self.kind, self.spell, self.q, self.a, self.u = kind, spell, q, a, u


def build_operands(U, reg, custom, pristine, r, note, side):
    """one operand set per available unit kind for registry reg: {kind: Operand}; what a registry cannot resolve is skipped"""
    out = {}
    vq = 2.0 if side == "L" else 4.0
    va = [1.0, 2.0, 4.0] if side == "L" else [3.0, 5.0, 8.0]

    def make(kind, spell):
        try:
            u = U.Unit(spell, registry=reg)
            q = U.unyt_quantity(vq, spell, registry=reg)
            a = U.unyt_array(va, spell, registry=reg)
        except Exception as e:
            note("kind-unavailable:%s:%s" % (kind, type(e).__name__))
            return False
        out[kind] = Operand(kind, spell, q, a, u)
        return True

    for kind in KINDS:
        if kind in SPELL:
            cands = list(SPELL[kind])
            r.shuffle(cands)
            for sp in cands[:3]:
                if make(kind, sp):
                    break
        elif kind == "bare-quotient":
            srcs = list(QUOT_SRC) + sorted(custom)
            r.shuffle(srcs)
            for sp in srcs[:4]:
                try:
                    x, y = U.unyt_quantity(4.0 * vq, sp, registry=reg), U.unyt_quantity(4.0, sp, registry=reg)
                    xa, ya = U.unyt_array([2.0 * v for v in va], sp, registry=reg), U.unyt_array([2.0, 2.0, 2.0], sp, registry=reg)
                    q = x / y if r.random() < 0.7 else np.true_divide(x, y)
                    a = xa / ya
                    u = U.Unit(sp, registry=reg) / U.Unit(sp, registry=reg)
                except Exception as e:
                    note("kind-unavailable:bare-quotient:%s" % type(e).__name__)
                    continue
                out[kind] = Operand(kind, "(%s)/(%s)" % (sp, sp), q, a, u)
                break
        elif kind == "user":
            cands = sorted(custom)
            r.shuffle(cands)
            for sp in cands[:4]:
                if make(kind, sp):
                    break
        elif kind == "user-compound":
            cands = sorted(custom)
            r.shuffle(cands)
            for sp in cands[:3]:
                if make(kind, r.choice(USER_COMPOUND) % sp):
                    break
        elif kind == "edited-builtin":
            lut = reg.lut
            cands = [k for k in ("m", "cm", "g", "Msun", "erg", "s", "K", "km", "pc", "J", "eV", "kg") if k in lut and k in pristine
                     and (lut[k][0] != pristine[k][0] or lut[k][1] != pristine[k][1])]
            r.shuffle(cands)
            for sp in cands[:3]:
                if make(kind, sp):
                    break
    return out


_BASE_SYMBOL = None


def _base_symbols(U):
    global _BASE_SYMBOL
    if _BASE_SYMBOL is None:
        d = U.dimensions
        _BASE_SYMBOL = {d.mass: "g", d.length: "m", d.time: "s", d.temperature: "K", d.angle: "rad", d.current_mks: "A",
                        d.luminous_intensity: "cd"}
    return _BASE_SYMBOL


def distinguishing_symbols(left_lut, right_lut, prefer, limit=3):
    """symbols of the left table that the right table lacks or gives another scale/dimension (plain scale units only)"""
    out = []
    for k in list(prefer) + list(left_lut):
        e = left_lut.get(k)
        if e is None or k in out or len(e) < 3 or e[2] != 0.0 or not k.isidentifier():
            continue
        o = right_lut.get(k)
        if o is None or o[0] != e[0] or o[1] != e[1]:
            if "logarithmic" in str(e[1]) or e[1] == 1:
                continue
            out.append(k)
            if len(out) >= limit:
                break
    return out


def target_string(U, dims, own, own_dims):
    """unit string `own * base symbols` with the dimensions dims (None when not expressible with integer powers)"""
    base = _base_symbols(U)
    try:
        q = dims / own_dims
        pw = q.as_powers_dict() if q != 1 else {}
    except Exception:
        return None
    s = own
    for b, p in pw.items():
        if b == 1:
            continue
        sym = base.get(b)
        if sym is None or not getattr(p, "is_Integer", False):
            return None
        s += "*%s**(%d)" % (sym, int(p))
    return s
