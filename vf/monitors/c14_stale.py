"""C14 - resolution of every spelling derived from a table symbol AFTER the symbol has been edited.

Workload dimension: (table symbol S) x (edit script) x (every documented spelling that denotes S: the symbol, listed
aliases, symbol-/word-prefixed forms of both, title-case forms) x (plain / power / product with another unit) x
(spelling resolved and memoised before the edit: warm, or first used after it: cold).  Each script runs on a fresh
custom registry; after every edit of the script every spelling is resolved again by string and must denote the unit the
edited table now defines.

Oracle: the sequential registry model {S: (value, dimension, prefixable) | absent} written by the script itself (the
values written are chosen here; the starting entry is read from the registry's table, not from Unit()) combined with the
independent resolver vf/ref/names.py (spelling -> prefix factor x symbol).  Unit(<str>) is never used to produce an
expected value."""
from vf.ref import defs, dims, names
from vf.props.common import all_names

ULP = 4.5e-16

OPS = ("modify", "add-over", "add-new-dimension", "remove", "remove-add", "modify-resolve-modify", "add-not-prefixable")
COUNTERS = ("stale_cases", "stale_warm_evaluations", "stale_cold_evaluations", "stale_compound_evaluations",
            "stale_refusals_checked", "stale_no_symbol_text_evaluations")
CLASSES = ("symbol", "alias", "prefix+sym", "prefix+alias", "word+sym", "word+alias", "title", "title-prefixed")

_fam = {}


def families():
    """symbol -> [(spelling, factor, class, other_reading)] over every exposed name"""
    if _fam:
        return _fam
    tab = names.build()
    for n in sorted(set(all_names()) | set(defs.T)):
        r = names.resolve(n)
        if r is None or r[2] or not n:      # '' is the empty expression (dimensionless by construction), not a name read from the table
            continue
        f, s, _ = r
        best = min(x[0] for x in tab[n])
        how = [x[3] for x in tab[n] if x[0] == best and x[2] == s][0]
        cls = "title" if how.startswith("title:") else how
        other = any(x[2] != s for x in tab[n])
        if "prefix+" in how or "word+" in how:
            cls = cls if cls != "title" else "title-prefixed"
        _fam.setdefault(s, []).append((n, f, cls, other))
    return _fam


def cases(tier, seed):
    fam = families()
    out = []
    rot = [o for o in OPS if o not in ("modify", "remove")]
    for j, s in enumerate(sorted(fam)):
        ops = OPS
        if tier != "thorough":      # quick: modify and remove for every symbol, two of the other scripts in rotation (by seed)
            ops = ("modify", "remove") + tuple(rot[(j + int(seed) + t) % len(rot)] for t in (0, 2))
        for op in ops:
            if op == "add-not-prefixable" and not defs.T[s].prefixable:
                continue
            out.append((s, op))
    return out


def _resolve(unyt, text, reg):
    try:
        return unyt.Unit(text, registry=reg)
    except Exception:
        return None


def _judge(rec, unyt, reg, sym, op, stage, model, spell, warm, other_sym, other_val, other_dim):
    for (n, f, cls, other, forms) in spell:
        prefixed = cls not in ("symbol", "alias", "title")
        w = "warm" if n in warm else "cold"
        for form in forms:
            text = n if form == "plain" else (f"{n}**2" if form == "power" else f"{n}*{other_sym}")
            u = _resolve(unyt, text, reg)
            key = f"C14:stale:{op}:%s:{cls}:{form}:{w}"
            denotes = model is not None and (model[2] or not prefixed)
            if not denotes:
                if other:
                    rec.note("stale-other-reading-may-take-over")
                    continue
                rec.count("stale_refusals_checked")
                if u is not None:
                    rec.violation(key % ("resolves-without-entry" if model is None else "prefixed-resolves-on-non-prefixable"),
                                  f"fresh registry, {sorted(warm)[:3]}... resolved, then {op} of {sym!r} ({stage}): Unit({text!r}, registry) "
                                  f"still resolves (base_value {u.base_value!r}) though the table "
                                  f"{'has no ' + repr(sym) if model is None else 'says ' + repr(sym) + ' is not prefixable'}", text)
                else:
                    rec.ok(f"stale:{op}:{cls}:{form}:{w}:refused")
                continue
            v, d, _p = model
            ev, ed = f * v, d
            if form == "power":
                ev, ed = ev * ev, dims.power(d, 2)
            elif form == "product":
                ev, ed = ev * other_val, dims.mul(d, other_dim)
            rec.count("stale_%s_evaluations" % w)
            if form != "plain":
                rec.count("stale_compound_evaluations")
            if sym not in n:
                rec.count("stale_no_symbol_text_evaluations")
            rec.count("stale_spelling:" + cls)
            if u is None:
                rec.violation(key % "refused", f"after {op} of {sym!r} ({stage}) Unit({text!r}, registry) is refused; the table defines "
                              f"{sym!r} = {v!r}", text)
                continue
            if dims.of_expr(u.dimensions) != ed:
                rec.violation(key % "dimension", f"after {op} of {sym!r} ({stage}) Unit({text!r}, registry) has dimension "
                              f"{dims.show(dims.of_expr(u.dimensions))}, the edited table gives {dims.show(ed)}", text)
            elif abs(u.base_value - ev) > ULP * abs(ev) * (1 if form == "plain" else 2):
                rec.violation(key % "scale", f"after {op} of {sym!r} ({stage}; table now {v!r}) Unit({text!r}, registry).base_value = "
                              f"{u.base_value!r}, expected {f!r} x table = {ev!r} ({w}: "
                              f"{'resolved before the edit' if w == 'warm' else 'first use'})", text)
            else:
                rec.ok(f"stale:{op}:{cls}:{form}:{w}")


def run(payload, rec, unyt):
    fam = families()
    L, Tm = unyt.dimensions.length, unyt.dimensions.time
    plain, usable = unyt.UnitRegistry(), {}     # never edited: which spellings unyt accepts at all (refusals are the string batches' matter)
    for k, (sym, op) in enumerate(payload):
        reg = unyt.UnitRegistry()
        if sym not in reg.lut:
            rec.note("stale-symbol-not-in-table")
            continue
        v0, sdim, off, tex, pfx = reg.lut[sym]
        v0, off = float(v0), float(off)
        d0 = dims.of_expr(sdim)
        other_sym = "kg" if sym not in ("g", "kg") else "m"
        other_val, other_dim = (1.0, dims.D("M")) if other_sym == "kg" else (1.0, dims.D("L"))
        # before: resolve (and memoise) the spellings; every third spelling stays cold, every fourth also in compounds
        spell, warm = [], set()
        for i, (n, f, cls, other) in enumerate(fam[sym]):
            forms = ["plain"]
            if n not in usable:
                usable[n] = _resolve(unyt, n, plain) is not None
            if not usable[n]:
                rec.note("stale-spelling-unusable-before-edit")      # judged by the string batches
                continue
            if i % 3 != 2:
                _resolve(unyt, n, reg)
                warm.add(n)
            if i % 4 == 0 and off == 0.0:
                for form, text in (("power", f"{n}**2"), ("product", f"{n}*{other_sym}")):
                    if i % 3 == 2 or _resolve(unyt, text, reg) is not None:
                        forms.append(form)
            spell.append((n, f, cls, other, forms))
        rec.count("stale_cases"); rec.count("stale_op:" + op); rec.reach("stale|" + op)
        args = (rec, unyt, reg, sym, op)
        tail = (spell, warm, other_sym, other_val, other_dim)
        if op == "modify":
            reg.modify(sym, 2.0 * v0)
            _judge(*args, "modify(x2)", (2.0 * v0, d0, pfx), *tail)
        elif op == "add-over":
            reg.add(sym, 3.0 * v0, sdim, tex_repr=tex, offset=off, prefixable=pfx)
            _judge(*args, "add(x3)", (3.0 * v0, d0, pfx), *tail)
        elif op == "add-new-dimension":
            nd = Tm if sdim != Tm else L
            reg.add(sym, 7.0, nd, prefixable=pfx)
            _judge(*args, "add(7.0, other dimension)", (7.0, dims.of_expr(nd), pfx), *tail)
        elif op == "remove":
            reg.remove(sym)
            _judge(*args, "remove", None, *tail)
        elif op == "remove-add":
            reg.remove(sym)
            _judge(*args, "remove", None, *tail)
            reg.add(sym, 5.0 * v0, sdim, tex_repr=tex, offset=off, prefixable=pfx)
            _judge(*args, "remove, add(x5)", (5.0 * v0, d0, pfx), *tail)
        elif op == "modify-resolve-modify":
            reg.modify(sym, 2.0 * v0)
            _judge(*args, "modify(x2)", (2.0 * v0, d0, pfx), *tail)
            warm2 = {s[0] for s in spell}
            tail2 = (spell, warm2, other_sym, other_val, other_dim)
            reg.modify(sym, 0.5 * v0)
            _judge(*args, "modify(x2), all resolved, modify(x0.5)", (0.5 * v0, d0, pfx), *tail2)
        elif op == "add-not-prefixable":
            reg.add(sym, 3.0 * v0, sdim, tex_repr=tex, offset=off, prefixable=False)
            _judge(*args, "add(x3, prefixable=False)", (3.0 * v0, d0, False), *tail)
        if k == 0:
            rec.sample({"symbol": sym, "edit": op, "spellings": len(spell), "warm": len(warm)})
