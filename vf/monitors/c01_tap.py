"""C01 passive tap: class-level wrappers around unyt_array.__array_ufunc__ / __array_function__.

The wrappers call the original and return/raise exactly what it returned/raised.  They
 * count every dispatch that really reached unyt (ufunc name / method / out=, handled array function name), which is the
   evidence that a call form of the workload went through the code under judgement and not around it;
 * judge, passively, every two-operand dispatch of a commensurability-requiring ufunc whose operands are both unyt
   objects: when the dimension vectors read off the operands' unit labels (by base-symbol NAME, vf/ref/dims.py) differ
   and the dispatch nevertheless returned, that is a violation with the same mechanism key the driving oracle uses.
   This also sees dispatches the workload did not make itself (NumPy's default implementations calling back into unyt).
"""
import numpy as np
from vf.ref import dims

_STATE = {"installed": False}


_DC = {}


def _udim(u):
    c = _DC.get(id(u))
    if c is not None and c[0] is u:
        return c[1]
    try:
        d = dims.of_expr(u.dimensions)
    except Exception:
        d = None
    if len(_DC) > 5000:
        _DC.clear()
    _DC[id(u)] = (u, d)
    return d


def _seqdims(x, UA, depth=0):
    """set of dimension vectors carried by an operand: a unyt object, or a (nested) list / tuple holding unyt objects"""
    if isinstance(x, UA):
        return {_udim(x.units)}
    out = set()
    if isinstance(x, (list, tuple)) and depth < 3:
        for e in x[:16]:
            out |= _seqdims(e, UA, depth + 1)
    return out


def install(unyt, rec, family, formclass_of, opclass_of_dims, keybase_of, exempt):
    """family: ufunc name -> 'arith' | 'order' | 'eq' (others are only counted)."""
    if _STATE["installed"]:
        return
    _STATE["installed"] = True
    UA = unyt.unyt_array
    orig_ufunc = UA.__array_ufunc__
    orig_func = UA.__array_function__
    from unyt._array_functions import _HANDLED_FUNCTIONS

    def tapped_ufunc(self, ufunc, method, *inputs, **kwargs):
        name = getattr(ufunc, "__name__", str(ufunc))
        has_out = "out" in kwargs
        rec.count("tap:ufunc:%s/%s%s" % (name, method, "+out" if has_out else ""))
        pre = None
        fam = family.get(name)
        if fam is not None and method in ("__call__", "outer") and len(inputs) == 2 \
                and isinstance(inputs[0], UA) and isinstance(inputs[1], UA):
            d0, d1 = _udim(inputs[0].units), _udim(inputs[1].units)
            if d0 is not None and d1 is not None and d0 != d1 and not exempt(d0, d1):
                pre = (d0, d1, str(inputs[0].units), str(inputs[1].units), inputs[0].units, inputs[1].units)
        clip_pre = None
        if name == "clip" and method == "__call__" and len(inputs) == 3:
            # the clip ufunc (reached by ndarray.clip and by calling it directly): data and both bounds must be commensurable, however the
            # bounds are spelled (unyt objects or sequences holding unyt objects; bare operands carry no dimension and are not looked at)
            ds = [_seqdims(i, UA) for i in inputs]
            alld = set().union(*ds)
            if None not in alld and len(alld) > 1 and not (len(alld) == 2 and exempt(*alld)):
                clip_pre = ("quantity-list" if any(d and not isinstance(i, UA) for d, i in zip(ds, inputs)) else
                            opclass_of_dims(*(list(alld)[:2])))
        try:
            ret = orig_ufunc(self, ufunc, method, *inputs, **kwargs)
        except BaseException:
            if pre is not None:
                rec.count("tap:mixed-dispatch-raised")
            if clip_pre is not None:
                rec.count("tap:clip-mixed-dispatch")
            raise
        if clip_pre is not None and ret is not NotImplemented:
            rec.count("tap:clip-mixed-dispatch")
            rec.violation("C01:clip/ufunc-dispatch:returned:%s" % clip_pre,
                          "[tap] clip ufunc dispatch%s on data in %s with bounds %r, %r (dimensions differ) returned %r instead of raising"
                          % (" (out=)" if has_out else "", getattr(inputs[0], "units", None), inputs[1], inputs[2], ret),
                          {"ufunc": "clip", "method": method})
        if pre is None or ret is NotImplemented:
            return ret
        d0, d1, s0, s1, u0, u1 = pre
        dimless = (d0 == dims.ZERO or d1 == dims.ZERO)
        fc = formclass_of(method, has_out)
        cls = opclass_of_dims(d0, d1, u0, u1)
        kb = keybase_of(name, fc)
        if fam == "order" and dimless:
            rec.count("tap:order-dimensionless-returned")
        elif fam == "eq":
            if dimless:
                rec.count("tap:eq-dimensionless-returned")
            else:
                a = np.asarray(ret)
                want = (name == "not_equal")
                if a.dtype.kind not in "biufc" or bool(np.any(a.astype(bool) != want)):
                    rec.violation("C01:%s:%s:%s" % (kb, "not-all-true" if want else "not-all-false", cls),
                                  "[tap] np.%s dispatch (%s) on operands in %s and %s answered %r" % (name, method, s0, s1, ret),
                                  {"ufunc": name, "method": method, "units": [s0, s1]})
                else:
                    rec.count("tap:eq-mixed-answered-constant")
        else:
            rec.violation("C01:%s:returned:%s" % (kb, cls),
                          "[tap] np.%s dispatch (%s%s) on operands in %s and %s returned %r instead of raising"
                          % (name, method, ", out=" if has_out else "", s0, s1, ret),
                          {"ufunc": name, "method": method, "units": [s0, s1]})
        return ret

    def tapped_func(self, func, types, args, kwargs):
        nm = getattr(func, "__name__", str(func))
        mod = getattr(func, "__module__", "") or ""
        if mod.startswith("numpy.") and mod != "numpy":
            nm = mod[len("numpy."):] + "." + nm
        rec.count(("tap:fn:" if func in _HANDLED_FUNCTIONS else "tap:fn-default:") + nm)
        return orig_func(self, func, types, args, kwargs)

    tapped_ufunc.__wrapped__ = orig_ufunc
    tapped_func.__wrapped__ = orig_func
    UA.__array_ufunc__ = tapped_ufunc
    UA.__array_function__ = tapped_func
