"""C20 sandbox monitor: what a unit string is allowed to make the interpreter do while it is being parsed.

Two independent observers, both attached from outside (no hook in /repo):

* a sys.addaudithook hook recording every audit event raised while a guarded call runs.  The parser's own work is a
  `compile` and an `exec` of the synthetic source '<string>' per parse, never while another '<string>' evaluation is on
  the stack (the hook walks the frames: a compile/exec of '<string>' under a running '<string>' module frame is a nested eval); the import machinery (sympy imports some sub-modules
  lazily the first time a construct is met) may add import/open/marshal/exec events for files under the interpreter's own
  library roots.  Everything else (os.*, subprocess.*, socket.*, ctypes.*, a second compile/exec of '<string>' i.e. a nested
  eval, open of any other path, builtins.input ...) is reported.
* a sys.monitoring CALL tap on the code object compiled from the unit string ('<string>'): every callable invoked directly
  by the expression must be one of the five objects of the parser's vocabulary (Symbol, Integer, Float, Rational, sqrt),
  taken here from sympy itself and not from unyt's global_dict.  An object that is not callable (the call then fails with
  TypeError) is not an evaluation.

Also: a per-call interval timer (hangs are reported as hangs, never as violations) and a fork-isolated runner for
strings that may be arithmetic bombs.
"""
import json, os, select, signal, sys, time, sysconfig

_state = {"installed": False, "active": False, "events": [], "calls": [], "nonvocab": [], "tool": None, "in_hook": False}


BENIGN_IMPORTS = frozenset(("sympy", "mpmath", "_pylong", "decimal", "_decimal", "_pydecimal", "numbers", "fractions", "math", "cmath", "linecache",
                            "tokenize", "token", "traceback", "unicodedata", "encodings", "gmpy2", "flint", "re", "keyword", "ast", "_ast"))


NAMED_IMPORTS = frozenset(("os", "posix", "subprocess", "socket", "ctypes", "shutil", "pty", "sys", "importlib", "builtins", "pickle", "marshal", "urllib", "http",
                           "tempfile", "glob", "pathlib", "io", "code", "codeop", "runpy", "pdb", "multiprocessing", "threading", "signal", "resource", "numpy", "unyt"))


class Hang(BaseException):
    """raised by the interval timer inside a guarded call (BaseException: must not be swallowed by `except Exception`)"""


def _roots():
    r = set()
    for k in ("stdlib", "platstdlib", "purelib", "platlib"):
        p = sysconfig.get_paths().get(k)
        if p:
            r.add(os.path.realpath(p))
    r.add(os.path.realpath(sys.prefix))
    r.add(os.path.realpath(sys.base_prefix))
    try:
        import sympy, mpmath
        r.add(os.path.dirname(os.path.realpath(sympy.__file__)))
        r.add(os.path.dirname(os.path.realpath(mpmath.__file__)))
    except Exception:
        pass
    return tuple(sorted(r))


def _under_roots(path):
    try:
        p = os.path.realpath(os.fsdecode(path))
    except Exception:
        return False
    return any(p == r or p.startswith(r + os.sep) for r in _state["roots"])


def _audit(event, args):
    if not _state["active"] or _state["in_hook"]:
        return
    _state["in_hook"] = True
    try:
        _state["events"].append(_classify(event, args))
    except Exception as e:   # never let the observer disturb the observed
        _state["events"].append(("bad", "hook-error:" + type(e).__name__))
    finally:
        _state["in_hook"] = False


def _classify(event, args):
    """-> (verdict, label) ; verdict in {'own','import','bad'}"""
    if event == "compile":
        fn = args[1] if len(args) > 1 else None
        if fn in ("<string>", b"<string>"):
            if _evaluating():
                return ("bad", "nested-compile")      # text compiled while a unit expression is being evaluated
            return ("own", "compile")
        if fn is not None and _under_roots(fn):
            return ("import", "compile-lib")
        return ("bad", "compile:" + _short(fn))
    if event == "exec":
        code = args[0] if args else None
        fn = getattr(code, "co_filename", None)
        if fn == "<string>":
            if _evaluating():
                return ("bad", "nested-exec")
            return ("own", "exec")
        if fn is not None and (_under_roots(fn) or fn.startswith("<frozen")):
            return ("import", "exec-lib")
        return ("bad", "exec:" + _short(fn))
    if event == "import":
        top = str(args[0]).split(".")[0] if args else "?"
        if top in BENIGN_IMPORTS:
            return ("import", "import:" + top)
        return ("bad", "import:" + (top if top in NAMED_IMPORTS else "other-module"))     # label stays structural: never text taken from the input
    if event == "open":
        path, mode = (args + (None, None))[:2]
        if path in ("<string>", b"<string>"):
            return ("import", "open-linecache")      # traceback/linecache probing the synthetic file name
        if isinstance(path, (str, bytes)) and _under_roots(path) and (mode is None or "w" not in str(mode) and "a" not in str(mode) and "+" not in str(mode)):
            return ("import", "open-lib")
        return ("bad", "open:" + ("lib-write" if isinstance(path, (str, bytes)) and _under_roots(path) else "other-path"))
    if event in ("marshal.loads", "marshal.load", "code.__new__", "sys._getframe", "sys._getframemodulename",
                 "object.__getattr__", "object.__setattr__", "object.__delattr__", "function.__new__", "builtins.id",
                 "array.__new__"):        # array.__new__: the stdlib array module allocating a buffer inside mpmath/_pylong big-number code
        return ("import", event)
    if event in ("os.listdir", "os.scandir"):
        path = args[0] if args else None
        if isinstance(path, (str, bytes)) and _under_roots(path):
            return ("import", event + "-lib")
        return ("bad", event)
    return ("bad", event)


def _short(x):
    s = repr(x)
    return "other" if len(s) > 40 else s


def _all_code(code):
    yield code
    for k in code.co_consts:
        if hasattr(k, "co_code"):
            yield from _all_code(k)


def _py_start(code, offset):
    """the code object compiled from a unit string is ('<string>', '<module>'); namedtuple's generated lambdas are also
    '<string>' but are named '<lambda>' and never top-level"""
    mon = sys.monitoring
    if code.co_filename == "<string>" and code.co_name == "<module>":
        for k in _all_code(code):
            try:
                mon.set_local_events(_state["tool"], k, mon.events.CALL)
            except Exception:
                pass
        return None
    if code.co_filename == "<string>":
        return None
    return mon.DISABLE


def _evaluating():
    """is a code object compiled from a unit string on the stack right now? (asked from inside the audit hook)"""
    f = sys._getframe(1)
    while f is not None:
        co = f.f_code
        if co.co_filename == "<string>" and co.co_name == "<module>":
            return True
        f = f.f_back
    return False


def _call(code, offset, fn, arg0):
    if not _state["active"]:
        return
    _state["calls"].append(fn)


def install():
    """idempotent; returns the vocabulary used by the CALL tap (names) for the evidence"""
    if _state["installed"]:
        return
    _state["roots"] = _roots()
    import sympy
    from sympy.functions.elementary.miscellaneous import sqrt as _sqrt
    _state["vocab"] = {id(sympy.Symbol): "Symbol", id(sympy.Integer): "Integer", id(sympy.Float): "Float",
                       id(sympy.Rational): "Rational", id(_sqrt): "sqrt"}
    _state["vocab_objs"] = (sympy.Symbol, sympy.Integer, sympy.Float, sympy.Rational, _sqrt)
    sys.addaudithook(_audit)
    mon = sys.monitoring
    tool = None
    for tid in (3, 4, 2, 1):
        try:
            mon.use_tool_id(tid, "c20-sandbox")
            tool = tid
            break
        except ValueError:
            continue
    _state["tool"] = tool
    if tool is not None:
        mon.register_callback(tool, mon.events.PY_START, _py_start)
        mon.register_callback(tool, mon.events.CALL, _call)
        mon.set_events(tool, mon.events.PY_START)
    signal.signal(signal.SIGALRM, _on_alarm)
    _state["installed"] = True


def call_tap_available():
    return _state["tool"] is not None


def _on_alarm(signum, frame):
    if _state["active"]:
        raise Hang()


class Observation:
    __slots__ = ("outcome", "exc", "value", "audit_bad", "audit_own", "audit_import", "calls_vocab", "calls_noncallable",
                 "calls_outside", "hang", "wall")


def guarded(fn, limit=5.0):
    """run fn() under both observers and the timer -> Observation (never raises except KeyboardInterrupt/SystemExit)"""
    o = Observation()
    o.hang = False
    o.exc = None
    o.value = None
    _state["events"] = []
    _state["calls"] = []
    t0 = time.perf_counter()
    _state["active"] = True
    signal.setitimer(signal.ITIMER_REAL, limit)
    try:
        try:
            o.value = fn()
            o.outcome = "ok"
        finally:
            signal.setitimer(signal.ITIMER_REAL, 0)
            _state["active"] = False
    except Hang:
        o.outcome = "hang"
        o.hang = True
    except (KeyboardInterrupt, SystemExit) as e:
        o.outcome = "exc"
        o.exc = e
    except BaseException as e:
        o.outcome = "exc"
        o.exc = e
    o.wall = time.perf_counter() - t0
    ev = _state["events"]
    o.audit_own = {}
    o.audit_import = 0
    o.audit_bad = []
    for verdict, label in ev:
        if verdict == "own":
            o.audit_own[label] = o.audit_own.get(label, 0) + 1
        elif verdict == "import":
            o.audit_import += 1
        else:
            o.audit_bad.append(label)
    vocab = _state["vocab"]
    o.calls_vocab = 0
    o.calls_noncallable = 0
    o.calls_outside = []
    for f in _state["calls"]:
        if id(f) in vocab:
            o.calls_vocab += 1
        elif not callable(f):
            o.calls_noncallable += 1
        else:
            o.calls_outside.append(getattr(f, "__qualname__", None) or getattr(f, "__name__", None) or type(f).__name__)
    _state["events"] = []
    _state["calls"] = []
    return o


def isolated(fn, limit=10.0, mem_bytes=3 << 30):
    """run fn() -> JSON-able in a forked grandchild with an address-space limit and a hard deadline.
    returns ('ok', value) | ('hang', None) | ('died', None)"""
    r, w = os.pipe()
    sys.stdout.flush()
    pid = os.fork()
    if pid == 0:
        os.close(r)
        try:
            try:
                import resource
                resource.setrlimit(resource.RLIMIT_AS, (mem_bytes, mem_bytes))
            except Exception:
                pass
            try:
                val = fn()
                data = json.dumps(["ok", val]).encode()
            except BaseException as e:
                data = json.dumps(["harness-error", type(e).__name__ + ":" + str(e)[:200]]).encode()
            with os.fdopen(w, "wb") as f:
                f.write(data)
        finally:
            os._exit(0)
    os.close(w)
    chunks = []
    deadline = time.time() + limit
    status = None
    while True:
        left = deadline - time.time()
        if left <= 0:
            status = "hang"
            break
        rl, _, _ = select.select([r], [], [], min(left, 0.5))
        if rl:
            c = os.read(r, 1 << 20)
            if not c:
                break
            chunks.append(c)
    if status == "hang":
        try:
            os.kill(pid, signal.SIGKILL)
        except OSError:
            pass
    os.close(r)
    os.waitpid(pid, 0)
    if status == "hang":
        return ("hang", None)
    try:
        tag, val = json.loads(b"".join(chunks).decode())
    except Exception:
        return ("died", None)
    return (tag, val)
