"""Class-level taps on unyt's real entry points, attached from the harness (no edit of /repo).

    from vf.monitors import taps
    h = taps.install(observers=[obs1, obs2])       # after `import unyt`
    ... run workload ...
    h.uninstall()

Every tapped call produces one event delivered to each observer:

    token = obs.pre(ev)                 # ev: taps.Event (name, kind, self_, args, kwargs, depth)
    obs.post(ev, token, result, exc)    # exc is None when the call returned; result is None when it raised

`ev.name` is one of TAP_NAMES below, `ev.kind` one of
    "ufunc"      unyt_array.__array_ufunc__      args = (ufunc, method, *inputs), kwargs incl. out=
    "function"   unyt_array.__array_function__   args = (func, types, args, kwargs)
    "getitem"    unyt_array.__getitem__          args = (item,)
    "setitem"    unyt_array.__setitem__          args = (item, value)
    "copying"    methods documented to return a new object (to, in_units, in_base, in_cgs, in_mks, to_value,
                 to_equivalent, copy, __deepcopy__, to_ndarray, value/v accessors are properties and not tapped)
    "inplace"    convert_to_units, convert_to_base, convert_to_cgs, convert_to_mks, convert_to_equivalent
    "unitop"     Unit.__mul__/__rmul__/__truediv__/__rtruediv__/__pow__, get_base_equivalent, as_coeff_unit, simplify
`ev.depth` is the nesting depth of tapped calls (0 = called by the workload, >0 = called from inside another tapped call,
e.g. `to` -> `in_units` -> `__array_ufunc__`); observers that judge *user-visible* effects usually look at depth 0 only
but may count everything.

The wrappers keep `__name__`, `__doc__`, `__wrapped__`; NumPy looks the protocol methods up on the type at every call, so
class-level replacement is honoured (checked in DESIGN 1.9).  Observers run in the same frame as the call they shadow and
are single-threaded like unyt itself.  An exception escaping an observer is *not* swallowed: it is a harness error and the
batch becomes inconclusive (core._child) rather than a verdict.
"""
import functools

COPYING = ("to", "in_units", "in_base", "in_cgs", "in_mks", "to_value", "to_equivalent", "copy", "to_ndarray",
           "__deepcopy__")
INPLACE = ("convert_to_units", "convert_to_base", "convert_to_cgs", "convert_to_mks", "convert_to_equivalent")
UNITOPS = ("__mul__", "__rmul__", "__truediv__", "__rtruediv__", "__pow__", "get_base_equivalent", "as_coeff_unit",
           "simplify", "get_conversion_factor", "copy")
PROTOCOL = (("__array_ufunc__", "ufunc"), ("__array_function__", "function"), ("__getitem__", "getitem"),
            ("__setitem__", "setitem"))
TAP_NAMES = tuple(n for n, _ in PROTOCOL) + COPYING + INPLACE + tuple("Unit." + n for n in UNITOPS)


class Event:
    __slots__ = ("name", "kind", "self_", "args", "kwargs", "depth", "seq")

    def __init__(self, name, kind, self_, args, kwargs, depth, seq):
        self.name = name; self.kind = kind; self.self_ = self_; self.args = args; self.kwargs = kwargs
        self.depth = depth; self.seq = seq


class Handle:
    def __init__(self):
        self.saved = []          # (owner, attr, original or _MISSING)
        self.observers = []
        self.depth = 0
        self.seq = 0
        self.calls = {}          # tap name -> number of calls seen
        self.enabled = True

    def uninstall(self):
        for owner, attr, orig in reversed(self.saved):
            if orig is _MISSING:
                try:
                    delattr(owner, attr)
                except AttributeError:
                    pass
            else:
                setattr(owner, attr, orig)
        self.saved = []


_MISSING = object()


def _wrap(h, owner, attr, name, kind):
    orig_in_dict = owner.__dict__.get(attr, _MISSING)
    orig = getattr(owner, attr)

    @functools.wraps(orig)
    def tapped(self, *args, **kwargs):
        if not h.enabled:
            return orig(self, *args, **kwargs)
        h.calls[name] = h.calls.get(name, 0) + 1
        h.seq += 1
        ev = Event(name, kind, self, args, kwargs, h.depth, h.seq)
        tokens = [o.pre(ev) for o in h.observers]
        h.depth += 1
        try:
            try:
                result = orig(self, *args, **kwargs)
            finally:
                h.depth -= 1
        except BaseException as e:
            for o, t in zip(h.observers, tokens):
                o.post(ev, t, None, e)
            raise
        for o, t in zip(h.observers, tokens):
            o.post(ev, t, result, None)
        return result

    tapped.__vf_tap__ = True
    h.saved.append((owner, attr, orig_in_dict))
    setattr(owner, attr, tapped)


def install(observers=(), protocol=True, copying=True, inplace=True, unitops=True):
    """attach the taps to the classes of the already imported unyt; returns a Handle"""
    import unyt
    from unyt.array import unyt_array
    from unyt.unit_object import Unit
    h = Handle()
    h.observers = list(observers)
    if protocol:
        for attr, kind in PROTOCOL:
            _wrap(h, unyt_array, attr, attr, kind)
    if copying:
        for attr in COPYING:
            if hasattr(unyt_array, attr):
                _wrap(h, unyt_array, attr, attr, "copying")
    if inplace:
        for attr in INPLACE:
            if hasattr(unyt_array, attr):
                _wrap(h, unyt_array, attr, attr, "inplace")
    if unitops:
        for attr in UNITOPS:
            if hasattr(Unit, attr):
                _wrap(h, Unit, attr, "Unit." + attr, "unitop")
    return h


class Observer:
    """base class: override pre/post"""

    def pre(self, ev):
        return None

    def post(self, ev, token, result, exc):
        pass
