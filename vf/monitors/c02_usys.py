"""C02 sub-monitor 'usys': units put into a registry that REPORTS in a non-MKS unit system.

`UnitRegistry(unit_system=S)` (S = 'cgs' | 'imperial' | 'galactic' | 'solar' | 'planck' | 'geometrized' | a custom UnitSystem,
given by name or as the UnitSystem object; 'mks' is the control) only changes the units results are *reported* in
(in_base() without argument, constants): the table still records "scale to SI".  One history = one such registry R and a
sequence of steps, each putting one new symbol into R by one WAY:

    def-tuple          define_unit(sym, (number, 'expr'), registry=R)
    def-qty-own        define_unit(sym, unyt_quantity(number, 'expr', registry=R), registry=R)
    def-qty-ops        define_unit(sym, number * Unit('expr', registry=R), registry=R)
    def-qty-default    define_unit(sym, unyt_quantity(number, 'expr'), registry=R)        (quantity of the default registry)
    add                R.add(sym, number x reference scale of expr, dimension of expr)
    add-modf           R.add(sym, other number, ...); R.modify(sym, number x reference scale)
    add-modq-own       R.add(sym, 1.0, some dimension); R.modify(sym, quantity number*expr bound to R)
    add-modq-default   ... quantity of the default registry
    def-modq-own       define_unit(sym, (n0, 'expr0'), registry=R); R.modify(sym, quantity number*expr bound to R)

'expr' is a random compound over exactly-defined built-in names (prefixed forms too), the base units of the registry's system
and the symbols defined EARLIER in the same history (chained definitions).  "The definition given" is  number x reference
scale of the expression, with the expression's dimension, evaluated by ref/regmodel.py + ref/uexpr.py on the model's contents
at the time of the call; the library is never asked what a string means.

After every step the new symbol is judged (and at the end every symbol again: later definitions must not disturb earlier ones):
atomic scale + dimension; SI-prefixed forms (prefixable: prefix x scale, otherwise refused); compounds parsed from strings and
compounds built with Unit operators; conversions x.to(defining expression), x.to(SI base string), back, to another user symbol
of the same dimension, x.in_mks(), x.in_cgs(), x.in_base() (the registry's OWN system) - the last three judged when the model can
evaluate the unit string that came back with the same dimension: values must be x*scale(s1)/scale(s2).
"""
import numpy as np
from fractions import Fraction as Fr
from vf.ref import dims, regmodel, uexpr, c10_systems

BUILTIN_SYSTEMS = ("mks", "cgs", "imperial", "galactic", "solar", "planck", "geometrized")
CUSTOM = {"c02_odd": ("mile", "lb", "hr", {"temperature_unit": "R"}),
          "c02_lab": ("mm", "mg", "us", {"angle_unit": "degree", "current_mks_unit": "mA"})}
SYSTEMS = BUILTIN_SYSTEMS + tuple(CUSTOM)
SYSARGS = ("name", "object")
WAYS = ("def-tuple", "def-qty-own", "def-qty-ops", "def-qty-default", "add", "add-modf", "add-modq-own", "add-modq-default",
        "def-modq-own")
TAINTED = ("Tsun", "Mearth", "ly", "mp")            # table values that are listed C02 findings: never part of a judged string
# exactly defined built-in names the defining expressions draw from (several per dimension, prefixed forms included)
POOL = ("m", "cm", "km", "mm", "inch", "ft", "mile", "yd", "g", "kg", "mg", "lb", "oz", "s", "ms", "min", "hr", "day", "K", "R",
        "J", "erg", "kJ", "N", "dyn", "Pa", "bar", "W", "Hz", "kHz", "A", "mA", "C", "V", "rad", "degree", "cd", "kpc", "AU", "Myr",
        "yr", "Msun", "eV", "keV", "psi", "lbf", "cal", "L", "acre")
EXPS = ("2", "3", "-1", "-2", "(1/2)", "(-1/2)", "(3/2)", "0.5", "-3", "(1/3)", "(2/3)", "1.5")
OPEXPS = (2, 3, -1, -2, 0.5, -0.5, 1.5, Fr(1, 2), Fr(3, 2), Fr(1, 3))
NUMBERS = (1.0, 2.5, 1000.0, 660.0, 0.75, 32.17, 4184.0, 1.0e-3, 14.0, 3.0, 0.125, 1.5e6, 7, 12)
PREFIXES = ("k", "m", "M", "c", "u", "da", "G", "n", "d", "h")
VALUES = (1.0, 2.5, -40.0)
BASE_NAMES = ("kg", "m", "s", "K", "rad", "A", "cd")
DIMSPECS = ("L", "M", "T", "M L2 T-2", "L T-1", "K", "I T", "L3")


def sysclass(name):
    return name if name in BUILTIN_SYSTEMS else "custom"


def base_units(name):
    if name in CUSTOM:
        l, m, t, kw = CUSTOM[name]
        return [l, m, t] + list(kw.values())
    return [u for u in c10_systems.BUILTIN[name][0] if u]


def base_string(dv):
    parts = []
    for n, x in zip(BASE_NAMES, dv[:7]):
        if x == 0:
            continue
        if x == 1:
            parts.append(n)
        elif x.denominator == 1:
            parts.append(f"{n}**{x.numerator}")
        else:
            parts.append(f"{n}**({x.numerator}/{x.denominator})")
    return "*".join(parts)


def differs_from_mks(name, dv):
    """does the system's base unit differ from the MKS one for some base dimension the vector involves?"""
    if name == "mks":
        return False
    if name in CUSTOM:
        return any(dv[i] != 0 for i in (0, 1, 2)) or any(x != 0 for x in dv)
    base = dict(zip(c10_systems.SLOTS, c10_systems.BUILTIN[name][0]))
    mks = dict(zip(c10_systems.SLOTS, c10_systems.BUILTIN["mks"][0]))
    return any(dv[i] != 0 and base[s] != mks[s] for s, i in c10_systems.SLOT_IDX.items())


def base_slots(name):
    """slot name -> base unit string (or None) of a system, from the arguments it was (or is documented to be) made with"""
    if name in CUSTOM:
        l, m, t, kw = CUSTOM[name]
        d = {"length": l, "mass": m, "time": t, "temperature": "K", "angle": "rad", "current_mks": "A", "luminous_intensity": "cd",
             "logarithmic": "Np"}
        d.update({k[:-5]: v for k, v in kw.items()})
        return d
    return dict(zip(c10_systems.SLOTS, c10_systems.BUILTIN[name][0]))


def base_product_log10(model, name, dv):
    """log10 of the reference scale of the product of the system's base units that has dimension dv"""
    import math
    b = base_slots(name)
    tot = 0.0
    for slot, i in c10_systems.SLOT_IDX.items():
        if dv[i] != 0 and b[slot] is not None:
            tot += float(dv[i]) * math.log10(model.lookup(b[slot]).scale)
    return tot


def has_current_base(name):
    if name in CUSTOM:
        return True
    return c10_systems.BUILTIN[name][0][5] is not None


def make_registry(unyt, sysname, sysarg):
    """the registry under test (input construction)"""
    from unyt.unit_systems import unit_system_registry
    if sysname in CUSTOM and sysname not in unit_system_registry:
        l, m, t, kw = CUSTOM[sysname]
        unyt.UnitSystem(sysname, l, m, t, **kw)
    arg = sysname if sysarg == "name" else unit_system_registry[sysname]
    return unyt.UnitRegistry(unit_system=arg)


class History:
    def __init__(self, unyt, rec, r, sysname, sysarg, tag):
        self.unyt, self.rec, self.r, self.sysname, self.sysarg, self.tag = unyt, rec, r, sysname, sysarg, tag
        self.cls = sysclass(sysname)
        self.reg = make_registry(unyt, sysname, sysarg)
        self.model = regmodel.RegModel(defaults=True)
        self.syms = {}          # sym -> dict(way, number, expr (current defining expression or None), prefixable)
        self.log = []
        self.dead = False
        self.bad = set()        # symbols whose own scale/dimension was found wrong, and symbols defined from them: named in no later string
        # logarithmic units cannot be multiplied with anything (by design): never part of a compound
        self.pool = [p for p in POOL] + [b for b in base_units(sysname) if b not in TAINTED and self.model.lookup(b).dim[7] == 0]
        rec.count("usys_histories")
        rec.count("usys_system:" + sysname)
        rec.count("usys_sysarg:" + sysarg)

    # ---- inputs ------------------------------------------------------------------------------------------------
    def gen_expr(self, allow_user=True, must=None, nmax=3, maxdim=4):
        """a random compound the model can evaluate: (string, Value); every user symbol at most once"""
        r = self.r
        user = []
        if allow_user:
            for s, d in self.syms.items():
                if s in self.bad:
                    continue
                user += [s, s] + ([r.choice(PREFIXES) + s] if d["prefixable"] else [])
        for _ in range(200):
            n = r.randint(1, nmax)
            toks = []
            for i in range(n):
                if must and i == 0:
                    toks.append(must)
                elif user and r.random() < 0.35:
                    toks.append(r.choice(user))
                else:
                    toks.append(r.choice(self.pool))
            usersyms = [s for t in toks for s in self.syms if t.endswith(s)]
            if len(usersyms) != len(set(usersyms)):
                continue
            s = ""
            for t in toks:
                k = r.random()
                if k < 0.4:
                    t = f"{t}**{r.choice(EXPS)}"
                elif k < 0.47:
                    t = f"sqrt({t})"
                s = t if not s else s + r.choice(["*", "/"]) + t
            try:
                v = self.model.evaluate(s)
            except Exception:
                continue
            if not (1e-40 < abs(v.scale) < 1e40) or all(x == 0 for x in v.dim) or v.dim[7] != 0 or any(abs(x) > maxdim for x in v.dim):
                continue
            return s, v
        return "km/hr", self.model.evaluate("km/hr")

    def _case(self, **kw):
        d = {"history": self.tag, "registry": f"UnitRegistry(unit_system={self.sysname!r} [{self.sysarg}])", "steps": list(self.log),
             "table(user symbols)": {k: [e.scale, dims.show(e.dim), e.prefixable] for k, e in self.model.contents.items() if k in self.syms}}
        d.update(kw)
        return d

    # ---- one step: put a symbol in ------------------------------------------------------------------------------
    def step(self, way):
        u_, r, reg, m = self.unyt, self.r, self.reg, self.model
        sym = f"uq{len(self.syms)}{r.choice('abxyz')}"
        num = r.choice(NUMBERS)
        pre = r.random() < 0.5
        expr, v = self.gen_expr(allow_user=(way not in ("def-qty-default", "add-modq-default")))
        fnum = float(num)
        ops = []
        self.log.append([way, sym, num, expr, pre])
        try:
            if way == "def-tuple":
                u_.define_unit(sym, (num, expr), prefixable=pre, registry=reg)
                ops = [("def", sym, fnum, expr, pre)]
            elif way == "def-qty-own":
                u_.define_unit(sym, u_.unyt_quantity(fnum, expr, registry=reg), prefixable=pre, registry=reg)
                ops = [("def", sym, fnum, expr, pre)]
            elif way == "def-qty-ops":
                u_.define_unit(sym, fnum * u_.Unit(expr, registry=reg), prefixable=pre, registry=reg)
                ops = [("def", sym, fnum, expr, pre)]
            elif way == "def-qty-default":
                u_.define_unit(sym, u_.unyt_quantity(fnum, expr), prefixable=pre, registry=reg)
                ops = [("def", sym, fnum, expr, pre, "default")]
            elif way == "add":
                reg.add(sym, fnum * v.scale, regmodel.dim_expr(u_, v.dim), prefixable=pre)
                ops = [("add", sym, fnum * v.scale, v.dim, pre, 0.0)]
            elif way == "add-modf":
                reg.add(sym, 17.0, regmodel.dim_expr(u_, v.dim), prefixable=pre)
                reg.modify(sym, fnum * v.scale)
                ops = [("add", sym, 17.0, v.dim, pre, 0.0), ("modf", sym, fnum * v.scale)]
            elif way in ("add-modq-own", "add-modq-default"):
                d0 = dims.D(r.choice(DIMSPECS))
                reg.add(sym, 1.0, regmodel.dim_expr(u_, d0), prefixable=pre)
                own = way.endswith("own")
                reg.modify(sym, u_.unyt_quantity(fnum, expr, registry=(reg if own else None)))
                ops = [("add", sym, 1.0, d0, pre, 0.0), ("modq", sym, fnum, expr, "own" if own else "default")]
            elif way == "def-modq-own":
                expr0, v0 = self.gen_expr()
                self.log[-1].append(expr0)
                u_.define_unit(sym, (3.0, expr0), prefixable=pre, registry=reg)
                ops = [("def", sym, 3.0, expr0, pre)]
                for o in ops:
                    assert m.apply(o) == "ok", o
                # (expr was generated before sym existed, so the modifying quantity never names the symbol being modified)
                reg.modify(sym, u_.unyt_quantity(fnum, expr, registry=reg))
                ops = [("modq", sym, fnum, expr, "own")]
            else:
                raise ValueError(way)
        except AssertionError:
            raise
        except Exception as e:
            self.rec.count("usys_step_evals")
            self.rec.violation(f"C02:usys:define-raises:{way}:{self.cls}",
                               f"putting {sym} := {num} x {expr!r} into UnitRegistry(unit_system={self.sysname!r}) by {way} raised "
                               f"{type(e).__name__}: {e}", self._case(symbol=sym))
            self.dead = True
            return None
        for o in ops:
            if m.apply(o) != "ok":
                raise AssertionError(("model refused", o))
        self.syms[sym] = {"way": way, "number": fnum, "expr": (None if way in ("add", "add-modf") else expr), "prefixable": pre,
                          "defdim": v.dim}
        if any(b in tk for tk in uexpr.TOK.findall(expr + " " + (self.log[-1][5] if len(self.log[-1]) > 5 else "")) for b in self.bad):
            self.bad.add(sym)           # defined from a symbol already reported: its wrong scale is a consequence, not judged again
            self.rec.count("usys_defined_from_reported_symbol")
        self.rec.count("usys_way:" + way)
        self.rec.count("usys_step_evals")
        self.rec.reach(f"usys|{self.sysname}|{way}")
        if differs_from_mks(self.sysname, v.dim):
            self.rec.count("usys_nonmks_base_involved")
        return sym

    # ---- judging -----------------------------------------------------------------------------------------------
    def _unit(self, s):
        try:
            u = self.unyt.Unit(s, registry=self.reg)
            return (float(u.base_value), dims.of_expr(u.dimensions)), None
        except Exception as e:
            return None, e

    def _judge_unit(self, s, got, err, kind, sym, phase, counter, what=None):
        """one string / one operator-built unit against the model; returns True if it held"""
        rec = self.rec
        way = self.syms[sym]["way"]
        tail = f"{way}:{self.cls}"
        rec.count(counter)
        exp = self.model.outcome(s)
        what = what or f"Unit({s!r}, registry=R)"
        where = f"R = UnitRegistry(unit_system={self.sysname!r}); {sym} was put in by {way}; {phase}"
        if exp[0] != "ok":
            if got is not None:
                rec.violation(f"C02:usys:{kind}-resolves-undefined:{tail}", f"{what}.base_value={got[0]!r} but R's table defines no such unit ({where})",
                              self._case(string=s))
                return False
            rec.count("usys_refused_agree")
            rec.ok(("usys", self.cls, way, kind, "refused", phase))
            return True
        _, sc, dv, tol = exp
        if got is None:
            rec.violation(f"C02:usys:{kind}-raises:{tail}", f"{what} raised {type(err).__name__}: {err}; the definitions imply scale {sc!r} ({where})",
                          self._case(string=s))
            return False
        if got[1] != dv:
            rec.violation(f"C02:usys:{kind}-dim:{tail}", f"{what} has dimension {dims.show(got[1]) if got[1] else got[1]}, the definitions imply "
                          f"{dims.show(dv)} ({where})", self._case(string=s))
            return False
        tol = max(tol, 1e-12) if kind != "atomic" else tol + 4e-15
        relerr = abs(got[0] - sc) / abs(sc)
        if not relerr <= tol:
            rec.violation(f"C02:usys:{kind}-scale:{tail}", f"{what}.base_value={got[0]!r}; number x reference scale of the definition gives {sc!r} "
                          f"(rel {relerr:.3g}) ({where})", self._case(string=s))
            return False
        rec.ok(("usys", self.cls, way, kind, self.sysarg, phase))
        return True

    def _conv(self, s1, s2, sym, phase, route="to"):
        rec, t = self.rec, self.model
        way = self.syms[sym]["way"]
        tail = f"{way}:{self.cls}"
        o1 = t.outcome(s1)
        where = f"R = UnitRegistry(unit_system={self.sysname!r}); {sym} was put in by {way}; {phase}"
        call = f"unyt_array({list(VALUES)}, {s1!r}, registry=R).{route}({repr(s2) if route == 'to' else ''})"
        try:
            x = self.unyt.unyt_array(np.array(VALUES), s1, registry=self.reg)
            if route == "to":
                y = x.to(s2)
            elif route == "in_base":
                y = x.in_base()
            else:
                y = getattr(x, route)()
            if route != "to":
                s2 = str(y.units)
            yd = np.asarray(y.d, dtype=float)
        except Exception as e:
            target = {"in_cgs": "cgs", "in_mks": "mks", "in_base": self.sysname}.get(route)
            if route != "to" and type(e).__name__ == "UnitsNotReducible" and o1[2][5] != 0 and not has_current_base(target):
                rec.count("usys_inbase_refused_no_current_base")     # whether a unit can be reduced in a system is C10's subject
                return True
            if route != "to" and isinstance(e, (ZeroDivisionError, OverflowError)) and abs(base_product_log10(t, target, o1[2])) > 290:
                rec.count("usys_conv_range_skipped")        # the scale of the system's base-unit product leaves the float range
                return True
            rec.count("usys_conv_evals")
            rec.violation(f"C02:usys:convert-raises:{route}:{tail}", f"{call} raised {type(e).__name__}: {e} ({where})", self._case(pair=[s1, s2]))
            return False
        if route != "to":
            if any(tk in TAINTED for tk in uexpr.TOK.findall(s2)):
                rec.count("usys_inbase_result_names_tainted_symbol")
                return True
            try:
                o2 = t.outcome(s2)
            except (ZeroDivisionError, OverflowError):      # a reference scale outside the float range
                rec.count("usys_conv_range_skipped")
                return True
            if o2[0] != "ok" or o2[2] != o1[2]:
                rec.count("usys_inbase_unit_not_evaluable")       # e.g. SI electromagnetic units reported in Gaussian ones: C10's subject
                return True
            rec.count("usys_inbase_evals")
            rec.count("usys_route:" + route)
        else:
            o2 = t.outcome(s2)
            rec.count("usys_conv_evals")
        if not (1e-150 < abs(o1[1]) < 1e150 and 1e-150 < abs(o2[1]) < 1e150):
            rec.count("usys_conv_range_skipped")            # the ratio of the reference scales would leave the float range
            return True
        exp = np.array(VALUES) * (o1[1] / o2[1])
        tol = o1[3] + o2[3] + 1e-12
        if not np.all(np.abs(yd - exp) <= tol * np.abs(exp)):
            rec.violation(f"C02:usys:convert:{route}:{tail}", f"{call} = {yd.tolist()} {s2}; scale({s1})/scale({s2}) from the definitions gives "
                          f"{exp.tolist()} ({where})", self._case(pair=[s1, s2]))
            return False
        rec.ok(("usys-conv", route, self.cls, way, self.sysarg, phase))
        return True

    def judge(self, sym, phase, full=True):
        r, u_ = self.r, self.unyt
        info = self.syms[sym]
        e = self.model.contents[sym]
        if sym in self.bad:
            return False
        # 1. the symbol itself
        got, err = self._unit(sym)
        if not self._judge_unit(sym, got, err, "atomic", sym, phase, "usys_unit_evals"):
            self.bad.add(sym)
            return False            # everything below is a consequence
        if differs_from_mks(self.sysname, e.dim):
            self.rec.count("usys_nonmks_atomic_evals")
        # 2. SI-prefixed forms
        for p in r.sample(PREFIXES, 3 if full else 1):
            got, err = self._unit(p + sym)
            if not self._judge_unit(p + sym, got, err, "prefixed", sym, phase, "usys_prefixed_evals"):
                return False
        # 3. compounds: parsed ...
        for _ in range(2 if full else 1):
            s, v = self.gen_expr(must=r.choice([sym, sym, (r.choice(PREFIXES) + sym) if e.prefixable else sym]), nmax=4, maxdim=8)
            if r.random() < 0.25:
                s = r.choice(["2*", "0.5*", "1000*", "1e-3*"]) + s
            got, err = self._unit(s)
            if not self._judge_unit(s, got, err, "compound", sym, phase, "usys_compound_evals"):
                return False
        # ... and built with Unit operators
        for _ in range(2 if full else 1):
            a, b = r.choice(self.pool), r.choice(self.pool + [x for x in self.syms if x != sym and x not in self.bad])
            p = r.choice(OPEXPS)
            ps = f"({p.numerator}/{p.denominator})" if isinstance(p, Fr) else repr(p)
            s = f"{sym}**{ps}*{a}/{b}"
            try:
                un = (u_.Unit(sym, registry=self.reg) ** p) * u_.Unit(a, registry=self.reg) / u_.Unit(b, registry=self.reg)
                got, err = (float(un.base_value), dims.of_expr(un.dimensions)), None
            except Exception as ex:
                got, err = None, ex
            if not self._judge_unit(s, got, err, "opcompound", sym, phase, "usys_opcompound_evals",
                                    what=f"Unit({sym!r}, registry=R)**{p!r} * Unit({a!r}, registry=R) / Unit({b!r}, registry=R)"):
                return False
        # 4. conversions
        ok = True
        if all(x == 0 for x in e.dim[7:]) and any(x != 0 for x in e.dim):
            b = base_string(e.dim)
            ok &= self._conv(sym, b, sym, phase)
            ok &= self._conv(b, sym, sym, phase)
            if info["expr"] is not None and self.model.outcome(info["expr"])[0] == "ok":
                ok &= self._conv(sym, info["expr"], sym, phase)
                if full:
                    ok &= self._conv(info["expr"], sym, sym, phase)
            same = [x for x in self.syms if x != sym and x not in self.bad and self.model.contents[x].dim == e.dim]
            if same:
                ok &= self._conv(sym, r.choice(same), sym, phase)
            if e.prefixable:
                ok &= self._conv(r.choice(PREFIXES) + sym, b, sym, phase)
            for route in (("in_base", "in_mks", "in_cgs") if full else ("in_base",)):
                ok &= self._conv(sym, None, sym, phase, route=route)
        return bool(ok)


def run_history(unyt, r, sysname, sysarg, ways, rec, tag, sample=False):
    h = History(unyt, rec, r, sysname, sysarg, tag)
    for way in ways:
        sym = h.step(way)
        if h.dead or sym is None:
            break
        h.judge(sym, "right after the definition")
    if not h.dead:
        for sym in list(h.syms):
            h.judge(sym, "after all later definitions", full=False)
    if sample:
        rec.sample({"usys-history": [sysname, sysarg], "steps": h.log[:4]})
    return h


def enum_histories(nrep):
    """(system, sysarg, rotation): every system x every way is reached whatever the seed"""
    out = []
    for rep in range(nrep):
        for i, s in enumerate(SYSTEMS):
            for j, a in enumerate(SYSARGS):
                out.append((s, a, (rep * 4 + i + 5 * j) % len(WAYS)))
    return out


def run_enum(unyt, r, spec, rec, extra_steps=0):
    s, a, rot = spec
    ways = list(WAYS[rot:] + WAYS[:rot]) + [r.choice(WAYS) for _ in range(extra_steps)]
    return run_history(unyt, r, s, a, ways, rec, "usys", sample=(rot == 0))


DECIDING = (["usys_histories", "usys_step_evals", "usys_unit_evals", "usys_prefixed_evals", "usys_compound_evals", "usys_opcompound_evals",
             "usys_conv_evals", "usys_inbase_evals", "usys_refused_agree", "usys_nonmks_base_involved", "usys_nonmks_atomic_evals"]
            + ["usys_route:" + x for x in ("in_base", "in_mks", "in_cgs")]
            + ["usys_way:" + w for w in WAYS] + ["usys_system:" + s for s in SYSTEMS] + ["usys_sysarg:" + a for a in SYSARGS])


def catalogue():
    return {f"usys|{s}|{w}" for s in SYSTEMS for w in WAYS}
