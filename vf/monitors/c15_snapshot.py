"""Snapshot contract for shared quantity objects (C15: 'constants survive being used').

``state(obj)`` reads, with NumPy only (never through a unyt conversion routine), everything that makes a unit-carrying object the
quantity it is: class, dtype, shape, the raw bytes of its buffer, the buffer's writeable flag, the ``name`` label and
its unit (the Unit object itself, its expression tree, base value, offset, dimensions and the identity of its registry).
``Tracker`` holds a rolling state per tracked object (keyed by ``id``; the tracker keeps the objects alive so ids stay unique),
the state of the first look (``first``) and the bindings ``namespace[name] is object`` it was told about.

``Tracker.changed(obj)`` -> list of structural change kinds relative to the rolling state (and rolls the state forward, so that
one damaging call is attributed once); ``Tracker.drift(obj)`` -> change kinds relative to the first look (never rolled).
"""
import numpy as np

KINDS = ("class", "dtype", "shape", "value-bytes", "writeable-flag", "name", "unit-object", "unit-expr", "unit-base-value",
         "unit-offset", "unit-dimensions", "unit-registry")


def state(obj):
    arr = obj.view(np.ndarray)
    u = getattr(obj, "units", None)
    return (type(obj), arr.dtype.str, arr.shape, arr.tobytes(), bool(arr.flags.writeable),
            getattr(obj, "name", None), u, getattr(u, "expr", None), _f(getattr(u, "base_value", None)),
            _f(getattr(u, "base_offset", None)), getattr(u, "dimensions", None), id(getattr(u, "registry", None)))


def _f(x):
    try:
        return float(x)
    except Exception:
        return repr(x)


def compare(s0, s1):
    """structural change kinds between two states (empty list = byte-for-byte the same quantity)"""
    out = []
    if s0[0] is not s1[0]:
        out.append("class")
    if s0[1] != s1[1]:
        out.append("dtype")
    if s0[2] != s1[2]:
        out.append("shape")
    if s0[3] != s1[3]:
        out.append("value-bytes")
    if s0[4] != s1[4]:
        out.append("writeable-flag")
    if s0[5] != s1[5]:
        out.append("name")
    same_unit_object = s0[6] is s1[6]
    if not (s0[7] is s1[7] or s0[7] == s1[7]):
        out.append("unit-expr")
    if not (s0[8] == s1[8] or (s0[8] != s0[8] and s1[8] != s1[8])):
        out.append("unit-base-value")
    if s0[9] != s1[9]:
        out.append("unit-offset")
    if not (s0[10] is s1[10] or s0[10] == s1[10]):
        out.append("unit-dimensions")
    if s0[11] != s1[11]:
        out.append("unit-registry")
    if not same_unit_object and not [k for k in out if k.startswith("unit-")]:
        # another, equal Unit object was attached: the quantity is the same, recorded by the caller as a note only
        out.append("unit-object")
    return out


def show(s):
    """short human form of a state (for descriptions)"""
    try:
        val = np.frombuffer(s[3], dtype=np.dtype(s[1])).reshape(s[2])
        val = val.tolist()
    except Exception:
        val = s[3][:16].hex()
    return f"{s[0].__name__}({val!r}, {str(s[7])!r}, dtype {s[1]}, unit base value {s[8]!r})"


class Tracker:
    def __init__(self):
        self.objs = {}      # id -> object (kept alive)
        self.kind = {}      # id -> structural label of the object (namespace kind, suffix)
        self.label = {}     # id -> readable label
        self.first = {}     # id -> state at the first look
        self.roll = {}      # id -> rolling state
        self.bind = []      # (namespace label, getter, name, id)

    def track(self, obj, kind, label):
        i = id(obj)
        if i in self.objs:
            return
        self.objs[i] = obj
        self.kind[i] = kind
        self.label[i] = label
        self.first[i] = self.roll[i] = state(obj)

    def bound(self, nslabel, getter, name, obj):
        self.bind.append((nslabel, getter, name, id(obj)))

    def tracked(self, obj):
        return id(obj) in self.objs and self.objs[id(obj)] is obj

    def changed(self, obj):
        i = id(obj)
        s = state(obj)
        d = compare(self.roll[i], s)
        before = self.roll[i]
        if d:
            self.roll[i] = s
        return d, before, s

    def drift(self, obj):
        i = id(obj)
        s = state(obj)
        return compare(self.first[i], s), self.first[i], s

    def rebound(self):
        """bindings that no longer point at the object seen at the first look"""
        out = []
        for nslabel, getter, name, i in self.bind:
            try:
                now = getter(name)
            except Exception:
                now = None
            if now is not self.objs[i]:
                out.append((nslabel, name, self.objs[i], now))
        return out
