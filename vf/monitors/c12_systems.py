"""C12 - objects OTHER than Unit / array that are bound to an editable registry and could memoise what they hand out.

The object driven here is a `UnitSystem(..., registry=<custom registry>)` whose base units are spelled with the registry's own
symbols (the "code unit system" option), addressed through every door a caller has to it:  system[dimension object],
system['dimension name'], x.in_base(system | system name | 'code' | dataset-like holder of the registry | nothing, the system being
the registry's default), x.convert_to_base(system), q.in_base(system) on a scalar, unit.get_base_equivalent(system | name),
x.in_units(system[dim]) and the conversion of data already written in the system's own unit.

A HISTORY is   base edits - create system(s) - [use of some doors for some dimensions] - edit step - [use] - ... - final uses.
Every use, wherever it stands in the history, is ONE evaluation judged by the sequential registry model (ref/regmodel.py): the
unit a system has for a dimension is the product of the spellings it was CREATED with (or the expression last assigned through
system[dim] = ...), read against the registry's CURRENT contents - scale, dimension, unknown.  Source data are written in default
symbols the alphabet never edits (km, g, s, cm, K), so the expected numbers are plain float arithmetic:
        data_out = data_in * scale(source unit) / scale(system unit now),   unit of the result has scale(system unit now).
At the end of a history the whole door x dimension grid is also observed on (a) a brand-new system on the same, used registry,
(b) a brand-new system on a brand-new registry holding the model's contents (same process) and (c) the same in a cold process;
the used system must agree with each of them.

Catalogue (all plain data): SPECS (how the system is spelled), DIMS (which dimensions are asked for), DOORS, SCRIPTS (edit steps),
WARM (which part of the grid is used before / between the edit steps).
"""
import itertools
import numpy as np
from vf.ref import dims, regmodel

# ----------------------------------------------------------------------------------------------------------- catalogue
# base state of every registry of this monitor (the names are checked by c12._check_alphabet: no built-in spelling in any form)
BASE = (("add", "foo", 2.0, "L", True, 0.0), ("add", "zed", 0.5, "M", False, 0.0), ("add", "qux", 4.0, "T", True, 0.0))

# how a system is spelled: base[L|M|T] = unit string or (coefficient, unit string); argform = how the three arguments are passed;
# set = derived dimensions assigned explicitly through system[name] = string right after construction
SPECS = {
    "atomic": {"base": {"L": "foo", "M": "zed", "T": "qux"}, "argform": "str", "set": {}},
    "prefixed": {"base": {"L": "kfoo", "M": "zed", "T": "mqux"}, "argform": "str", "set": {"velocity": "foo/qux"}},
    "unit-args": {"base": {"L": "foo", "M": "zed", "T": "qux"}, "argform": "unit", "set": {"energy": "zed*kfoo**2/qux**2"}},
    "quantity-arg": {"base": {"L": (3.0, "foo"), "M": "zed", "T": "qux"}, "argform": "quantity", "set": {}},
    "half-default": {"base": {"L": "foo", "M": "kg", "T": "s"}, "argform": "str", "set": {"density": "g/mfoo**3"}},
}
SPEC_NAMES = tuple(SPECS)

# dimension name (attribute of unyt.dimensions) -> (exponents over L, M, T or None for the control, source unit in never-edited
# default symbols)
DIMS = {
    "length": ({"L": 1}, "km"),
    "mass": ({"M": 1}, "g"),
    "time": ({"T": 1}, "s"),
    "velocity": ({"L": 1, "T": -1}, "km/s"),
    "density": ({"M": 1, "L": -3}, "g/cm**3"),
    "energy": ({"M": 1, "L": 2, "T": -2}, "g*cm**2/s**2"),
    "temperature": (None, "K"),        # control: the system's unit is the default symbol K, which no script edits
}
DIM_NAMES = tuple(DIMS)
DIM_VEC = {"length": "L", "mass": "M", "time": "T", "velocity": "L T-1", "density": "M L-3", "energy": "M L2 T-2", "temperature": "K"}
VALUES = (1.0, 2.5, 4.0)


class _Holder:
    """dataset-like object: anything with a .unit_registry attribute is accepted where a unit system is expected"""

    def __init__(self, reg):
        self.unit_registry = reg


def _alias(unyt, reg, S):
    # the 'code' / dataset-style lookup finds a system under the registry's CURRENT content id; the harness (like the code that
    # loads a dataset) registers the SAME system object under that id right before the call
    unyt.unit_systems.unit_system_registry[str(reg.unit_system_id)] = S


def _inplace(x, S):
    c = x.copy()
    c.convert_to_base(S)
    return c


def _as_default(unyt, reg, S, x):
    old = reg.unit_system
    reg.unit_system = S
    try:
        return x.in_base()
    finally:
        reg.unit_system = old


def _code(unyt, reg, S, x):
    _alias(unyt, reg, S)
    return x.in_base("code")


def _dataset(unyt, reg, S, x):
    _alias(unyt, reg, S)
    return x.in_base(_Holder(reg))


# door -> (kind of result, needs: 'x' array source | 'q' scalar source | 'own' data written in the system's own unit | None,
#          fn(unyt, reg, S, dimobj, dimname, x))
DOORS = {
    "system[dim]": ("unit", None, lambda U, r, S, d, n, x: S[d]),
    "system['name']": ("unit", None, lambda U, r, S, d, n, x: S[n]),
    "unit.get_base_equivalent(system)": ("unit", "x", lambda U, r, S, d, n, x: x.units.get_base_equivalent(S)),
    "unit.get_base_equivalent(name)": ("unit", "x", lambda U, r, S, d, n, x: x.units.get_base_equivalent(S.name)),
    "x.in_base(system)": ("arr", "x", lambda U, r, S, d, n, x: x.in_base(S)),
    "x.in_base(name)": ("arr", "x", lambda U, r, S, d, n, x: x.in_base(S.name)),
    "x.convert_to_base(system)": ("arr", "x", lambda U, r, S, d, n, x: _inplace(x, S)),
    "q.in_base(system)": ("arr", "q", lambda U, r, S, d, n, x: x.in_base(S)),
    "x.in_units(system[dim])": ("arr", "x", lambda U, r, S, d, n, x: x.in_units(S[d])),
    "x.in_base('code')": ("arr", "x", lambda U, r, S, d, n, x: _code(U, r, S, x)),
    "x.in_base(dataset)": ("arr", "x", lambda U, r, S, d, n, x: _dataset(U, r, S, x)),
    "x.in_base()": ("arr", "x", lambda U, r, S, d, n, x: _as_default(U, r, S, x)),
    "own.in_base(system)": ("arr", "own", lambda U, r, S, d, n, x: x.in_base(S)),
}
DOOR_NAMES = tuple(DOORS)

FOO5 = ("add", "foo", 5.0, "L", True, 0.0)
# label -> list of edit STEPS (a use round stands between two steps); an op is (handle, op tuple of c12's edit catalogue);
# handle 'o' = the registry the system is bound to, 'c' = copy.copy(registry) (another handle on the same table), 's' see below; the symbol
# '@mark' stands for the history's unique marker symbol (an edit that changes nothing the system is spelled with: control)
SCRIPTS = {
    "modify-float": [[("o", ("modf", "foo", 5.0))]],
    "modify-quantity": [[("o", ("modq", "foo", 3.0, "km", "default"))]],
    "modify-quantity-own": [[("o", ("modq", "foo", 5.0, "foo", "own"))]],
    "readd": [[("o", FOO5)]],
    "readd-unprefixable": [[("o", ("add", "foo", 5.0, "L", False, 0.0))]],
    "remove+add": [[("o", ("rm", "foo")), ("o", ("add", "foo", 7.0, "L", True, 0.0))]],
    "remove+define_unit": [[("o", ("rm", "foo")), ("o", ("def", "foo", 0.25, "km", True, "default"))]],
    "remove": [[("o", ("rm", "foo"))]],
    "readd-other-dimension": [[("o", ("add", "foo", 0.5, "M", True, 0.0))]],
    "modify-mass": [[("o", ("modf", "zed", 3.0))]],
    "modify-time-quantity": [[("o", ("modq", "qux", 90.0, "s", "default"))]],
    "modify-companion": [[("o", ("modf", "@mark", 3.0))]],
    "modify-float:via-copy": [[("c", ("modf", "foo", 5.0))]],
    "modify,modify-back": [[("o", ("modf", "foo", 5.0))], [("o", ("modf", "foo", 2.0))]],
    "modify,readd": [[("o", ("modf", "foo", 3.0))], [("o", FOO5)]],
    "modify-length,modify-mass": [[("o", ("modf", "foo", 5.0))], [("o", ("modf", "zed", 3.0))]],
    # handle 's': system[dimension name] = string (the documented way to give a derived dimension a unit of its own)
    "assign,modify": [[("s", ("velocity", "kfoo/qux"))], [("o", ("modf", "foo", 5.0))]],
    "modify,assign,modify": [[("o", ("modf", "foo", 5.0))], [("s", ("energy", "zed*foo**2/mqux**2"))], [("o", ("modf", "qux", 8.0))]],
}
SCRIPTS_THOROUGH = dict(SCRIPTS, **{
    "modify-float-small": [[("o", ("modf", "foo", 1e-3))]],
    "modify-quantity-prefixed-own": [[("o", ("modq", "foo", 2.0, "kfoo", "own"))]],
    "remove,add": [[("o", ("rm", "foo"))], [("o", FOO5)]],
    "readd-other-dimension,readd": [[("o", ("add", "foo", 0.5, "M", True, 0.0))], [("o", FOO5)]],
    "remove+add:via-copy": [[("c", ("rm", "foo")), ("c", FOO5)]],
    "modify-time,modify-length,modify-mass": [[("o", ("modf", "qux", 8.0))], [("o", ("modq", "foo", 3.0, "km", "default"))],
                                              [("o", ("modf", "zed", 3.0))]],
})
# which part of the door x dimension grid is used before the first edit step and between the steps
WARM = ("none", "one-door-all-dims", "all-doors-one-dim", "all-doors-half-dims", "full")
RANDOM_EDITS = (("modf", "foo", 5.0), ("modf", "foo", 2.0), ("modf", "foo", 0.125), ("modq", "foo", 3.0, "km", "default"),
                ("modq", "foo", 5.0, "foo", "own"), FOO5, ("add", "foo", 2.0, "L", True, 0.0), ("modf", "zed", 3.0), ("modf", "zed", 0.5),
                ("add", "zed", 6.0, "M", False, 0.0), ("modf", "qux", 8.0), ("modq", "qux", 90.0, "s", "default"),
                ("add", "qux", 4.0, "T", True, 0.0), ("rm", "foo"), ("def", "foo", 0.25, "km", True, "default"),
                ("add", "foo", 0.5, "M", True, 0.0), ("add", "foo", 5.0, "L", False, 0.0), ("modf", "@mark", 3.0))
RANDOM_SETS = {"velocity": ("foo/qux", "kfoo/qux", "foo/mqux"), "energy": ("zed*foo**2/qux**2", "zed*kfoo**2/qux**2"),
               "density": ("zed/foo**3", "g/mfoo**3")}


# ----------------------------------------------------------------------------------------------------------- small helpers
def _exc(e):
    return ["exc", type(e).__name__]


def _dimstr(e):
    v = dims.of_expr(e)
    return None if v is None else [str(x) for x in v]


def _dimlist(v):
    return [str(x) for x in v]


def _feq(a, b, rel):
    return a == b or abs(a - b) <= rel * max(abs(a), abs(b))


def _same_table(r1, r2):
    return r1 is r2 or getattr(r1, "lut", 1) is getattr(r2, "lut", 2)


def dim_class(spec, sets, dname):
    if DIMS[dname][0] is None:
        return "control"
    if dname in sets:
        return "derived-explicit"
    return "base" if len(DIMS[dname][0]) == 1 and sum(DIMS[dname][0].values()) == 1 else "derived-implicit"


def own_string(spec, sets, dname):
    """the unit string data 'already in the system's unit' for this dimension are written in (None: not expressible as one of
    the spellings the system was given)"""
    if dname in sets:
        return sets[dname]
    ex = DIMS[dname][0]
    if ex is None:
        return "K"
    if len(ex) == 1 and list(ex.values())[0] == 1:
        b = SPECS[spec]["base"][list(ex)[0]]
        return b if isinstance(b, str) else None
    return None


def expect_unit(model, spec, sets, dname):
    """('unknown',) | ('ok', scale, dimvec, tol, symbols): what the registry's CURRENT contents give the unit this system has for the
    dimension - the spellings the system was created with / last assigned, evaluated by the model"""
    if dname in sets:
        try:
            v = model.evaluate(sets[dname])
        except Exception:
            return ("unknown",)
        return ("ok", v.scale, v.dim, v.tol, v.symbols)
    ex = DIMS[dname][0]
    if ex is None:
        o = model.outcome("K")
        return ("ok", o[1], o[2], o[3], ()) if o[0] == "ok" else ("unknown",)
    scale, d, tol, syms = 1.0, dims.ZERO, 4e-15, set()
    for b, p in ex.items():
        sp = SPECS[spec]["base"][b]
        coeff, s = sp if isinstance(sp, tuple) else (1.0, sp)
        try:
            v = model.evaluate(s)
        except Exception:
            return ("unknown",)
        scale *= (coeff * v.scale) ** p
        d = dims.mul(d, dims.power(v.dim, p))
        tol += abs(p) * (v.tol + 4e-16)
        syms.update(v.symbols)
    return ("ok", scale, d, tol, tuple(sorted(syms)))


def constructible(model, spec):
    """a system of this spelling can be created on the current contents: every base spelling is known and has exactly the base
    dimension of its slot (that is what the constructor checks)"""
    for b, sp in SPECS[spec]["base"].items():
        s = sp[1] if isinstance(sp, tuple) else sp
        o = model.outcome(s)
        if o[0] != "ok" or o[2] != dims.D(b):
            return False
    return True


def build_system(unyt, reg, spec, name, sets=None):
    sp = SPECS[spec]
    args = []
    for b in ("L", "M", "T"):
        v = sp["base"][b]
        if isinstance(v, tuple):
            args.append(unyt.unyt_quantity(v[0], v[1], registry=reg))
        elif sp["argform"] == "unit":
            args.append(unyt.Unit(v, registry=reg))
        else:
            args.append(v)
    S = unyt.UnitSystem(name, args[0], args[1], args[2], registry=reg)
    for k, v in (sp["set"] if sets is None else sets).items():
        S[k] = v
    return S


def use(unyt, reg, S, spec, sets, door, dname):
    """execute one door for one dimension; pure observation -> outcome list"""
    kind, needs, fn = DOORS[door]
    try:
        x = None
        if needs == "x":
            x = unyt.unyt_array(np.array(VALUES), DIMS[dname][1], registry=reg)
        elif needs == "q":
            x = unyt.unyt_quantity(VALUES[1], DIMS[dname][1], registry=reg)
        elif needs == "own":
            s = own_string(spec, sets, dname)
            if s is None:
                return None
            x = unyt.unyt_array(np.array(VALUES), s, registry=reg)
        r = fn(unyt, reg, S, getattr(unyt.dimensions, dname), dname, x)
        if kind == "unit":
            return ["unit", None, float(r.base_value), _dimstr(r.dimensions), _same_table(r.registry, reg)]
        u = r.units
        return ["arr", np.atleast_1d(np.asarray(r.d, dtype="f8")).tolist(), float(u.base_value), _dimstr(u.dimensions),
                _same_table(u.registry, reg)]
    except Exception as e:
        return _exc(e)


def observe(unyt, reg, S, spec, sets, doors, dnames):
    out = {}
    for dn in dnames:
        for door in doors:
            o = use(unyt, reg, S, spec, sets, door, dn)
            if o is not None:
                out[door + "|" + dn] = o
    return out


def same_obs(a, b, rel=1e-13):
    if a[0] != b[0]:
        return False
    if a[0] == "exc":
        return a[1] == b[1]
    if a[3] != b[3] or not _feq(a[2], b[2], rel):
        return False
    if a[1] is None or b[1] is None:
        return a[1] is b[1]
    return len(a[1]) == len(b[1]) and all(_feq(p, q, rel) for p, q in zip(a[1], b[1]))


def cold(req):
    """runs in a process that never executed workload: fresh registry from the model's contents, fresh system, same grid"""
    import unyt
    m = regmodel.RegModel.from_plain(req["model"])
    reg = regmodel.build_registry(unyt, m)
    try:
        S = build_system(unyt, reg, req["spec"], req["name"], req["sets"])
    except Exception as e:
        return {"construct": _exc(e)}
    return observe(unyt, reg, S, req["spec"], req["sets"], req["doors"], req["dims"])


# ----------------------------------------------------------------------------------------------------------- the driver
class Sys:
    def __init__(self, obj, spec, name):
        self.obj, self.spec, self.name = obj, spec, name
        self.sets = dict(SPECS[spec]["set"])
        self.seen = {}           # dimension name -> list of (prediction, door) at earlier uses THROUGH THIS OBJECT
        self.changed = {}        # dimension name -> model version of the last system[dim] = ... assignment


class History:
    """one registry, its model, the systems bound to it"""
    _n = itertools.count()

    def __init__(self, H, unyt, rec, tier, label):
        self.H, self.unyt, self.rec, self.tier, self.label = H, unyt, rec, tier, label
        self.reg, self.model = unyt.UnitRegistry(), regmodel.RegModel(defaults=True)
        self.mark = H.next_mark()
        H.add_mark(unyt, self.reg, self.model, self.mark)
        for b in BASE:
            assert H.apply_real(unyt, self.reg, b) == "ok" and self.model.apply(b) == "ok"
        import copy
        self.handles = {"o": self.reg, "c": copy.copy(self.reg)}
        self.systems = []
        self.last_edit = {}       # symbol -> (edit kind, version)
        self.dead = False

    # ---- steps
    def new_system(self, spec):
        unyt, rec = self.unyt, self.rec
        name = f"c12sys_{self.mark}_{next(History._n)}"
        can = constructible(self.model, spec)
        rec.count("evals_system_construct")
        kind = self.edit_of(("foo", "zed", "qux"))
        try:
            S = build_system(unyt, self.reg, spec, name)
        except Exception as e:
            if can:
                rec.violation(f"C12:{kind}:unit-system:construct:raised",
                              f"UnitSystem({SPECS[spec]['base']}, registry=reg) raised {type(e).__name__}: {e}; the registry's current contents "
                              f"give every base spelling its base dimension (history {self.model.log[-6:]})", {"spec": spec, "log": self.model.log[-12:]})
            else:
                rec.ok(("system", "construct", kind, spec, "refused"))
            return None
        if not can:
            rec.violation(f"C12:{kind}:unit-system:construct:not-refused",
                          f"UnitSystem({SPECS[spec]['base']}, registry=reg) was accepted although the current contents make a base spelling unknown "
                          f"or of another dimension (history {self.model.log[-6:]})", {"spec": spec, "log": self.model.log[-12:]})
            return None
        rec.ok(("system", "construct", kind, spec, "ok"))
        s = Sys(S, spec, name)
        self.systems.append(s)
        rec.count("systems_created")
        rec.count("systems_created:" + spec)
        return s

    def edit(self, handle, op):
        unyt, rec = self.unyt, self.rec
        if op[1] == "@mark":
            op = (op[0], self.mark) + tuple(op[2:])
        pre = self.model
        kind = self.H.edit_kind(op, pre)
        w = self.H.apply_real(unyt, self.handles[handle], op)
        m = self.model.apply(op)
        if (w == "ok") != (m == "ok"):
            rec.note(f"systems-edit-outcome-differs:{kind}:model={m}:real={w}")      # judged by the edit-outcome monitor of the histories
            self.dead = True
            return
        if w != "ok":
            return
        self.last_edit[op[1]] = (kind, self.model.version)
        rec.count("system_edits")
        rec.count("system_edits:" + kind)
        if handle != "o":
            rec.count("system_edits_via_other_handle")

    def set_item(self, s, dname, string):
        try:
            s.obj[dname] = string
        except Exception as e:
            self.rec.note("systems-setitem-raised:" + type(e).__name__)
            return
        s.sets[dname] = string
        s.changed[dname] = self.model.version
        self.rec.count("system_setitems")

    def edit_of(self, symbols):
        best = ("none", -1)
        for sym in symbols:
            k = self.last_edit.get(sym)
            if k and k[1] > best[1]:
                best = k
        return best[0]

    # ---- one judged use
    def judged_use(self, s, door, dname, phase):
        if self.dead:
            return None
        o = use(self.unyt, self.reg, s.obj, s.spec, s.sets, door, dname)
        if o is None:
            return None
        self.judge(s, door, dname, o, phase)
        return o

    def judge(self, s, door, dname, o, phase):
        rec, model = self.rec, self.model
        e = expect_unit(model, s.spec, s.sets, dname)
        pred = e[:3]
        symbols = e[4] if e[0] == "ok" else ("foo", "zed", "qux")
        kind = self.edit_of(symbols) if symbols else "none"
        dcl = dim_class(s.spec, s.sets, dname)
        if DOORS[door][1] == "own" and e[0] == "ok" and e[2] != dims.D(DIM_VEC[dname]):
            # data "already in the system's unit for D" do not exist once that unit has another dimension: nothing to judge
            rec.count("system_own_door_not_judged")
            return
        before = s.seen.setdefault(dname, [])
        # decisive: this object was asked for this dimension earlier, when the contents gave another answer
        stale_preds = [p for p, _ in before if p != pred]
        decisive = bool(stale_preds)
        warm = "first" if not before else ("re" if decisive else "same")
        rec.count("evals_system")
        rec.count("evals_system_door:" + door)
        rec.count("evals_system_spec:" + s.spec)
        rec.count("evals_system_dimclass:" + dcl)
        rec.reach(f"system|{door}|{dcl}")
        if decisive:
            rec.count("evals_system_decisive")
            rec.count("evals_system_decisive_probe:" + door)
            for _, d0 in before:
                rec.count("evals_system_decisive_warm:" + d0)
            rec.count("evals_system_decisive_dimclass:" + dcl)
            rec.reach(f"system-decisive|{door}|{dcl}")
        elif before and kind != "none":
            rec.count("evals_system_control")
        src = DIMS[dname][1]
        kindres, needs, _ = DOORS[door]
        case = {"spec": s.spec, "sets": s.sets, "door": door, "dimension": dname, "observed": o, "expected_unit": list(e[:2]) + ([_dimlist(e[2])] if e[0] == "ok" else []),
                "used_before_with": [[list(p[:2]), d0] for p, d0 in before[-4:]], "phase": phase, "label": self.label, "log": model.log[-12:]}
        bad = None

        def stale_scale(x):
            return any(p[0] == "ok" and _feq(p[1], x, 1e-9) for p in stale_preds)
        if e[0] == "unknown":
            if o[0] != "exc":
                bad = ("still-known" if stale_scale(o[2]) else "not-refused",
                       f"returned a unit of scale {o[2]!r} although the current contents give the system's spelling no meaning")
        else:
            _, scale, d, tol, _ = e
            tol = tol + 1e-12
            want_dim = dims.D(DIM_VEC[dname])
            if kindres == "unit" or needs == "own":
                must_return = True
            else:
                must_return = d == want_dim          # data of dimension D cannot be expressed in a unit that now has another one
            if needs == "own":
                so = model.outcome(own_string(s.spec, s.sets, dname))
                src_scale, src_dim = (so[1], so[2]) if so[0] == "ok" else (None, None)
            else:
                so = model.outcome(src)
                src_scale, src_dim = so[1], so[2]
            if o[0] == "exc":
                if must_return:
                    bad = ("raised", f"raised {o[1]}; current contents give the system's unit scale {scale!r} dims {dims.show(d)}")
            elif o[3] != _dimlist(d):
                bad = ("stale-dimension" if any(p[0] == "ok" and _dimlist(p[2]) == o[3] for p in stale_preds) else "dimension",
                       f"result unit has dims {o[3]}; current contents give {dims.show(d)}")
            elif not _feq(o[2], scale, tol):
                bad = ("stale" if stale_scale(o[2]) else "wrong-scale",
                       f"result unit has base_value {o[2]!r}; the registry's current contents give the system's spelling {scale!r}")
            elif kindres == "arr":
                vals = np.array(VALUES) if needs != "q" else np.array([VALUES[1]])
                want = vals * src_scale / scale
                got = np.array(o[1])
                if got.shape != want.shape or not np.all(np.abs(got - want) <= (tol + 1e-12) * np.abs(want)):
                    bad = ("value", f"data {o[1]} in a unit of scale {o[2]!r}; {vals.tolist()} {src if needs != 'own' else own_string(s.spec, s.sets, dname)} are "
                                    f"{want.tolist()} of a unit of scale {scale!r}")
            if bad is None and o[0] != "exc" and o[4] is False:
                bad = ("result-bound-to-other-registry", f"result unit is bound to a registry that does not share the table of the "
                                                         f"registry the system and the data live on")
        if bad:
            rec.violation(f"C12:{kind}:unit-system:{door}:{bad[0]}:{dcl}",
                          f"{door} for {dname} on a UnitSystem({SPECS[s.spec]['base']}, registry=reg) [{phase}; {warm}]: {bad[1]} "
                          f"(history {model.log[-6:]})", case)
        else:
            rec.ok(("system", "model", kind, door, dcl, warm, "ok" if (e[0] == "ok" and o[0] != "exc") else "refused", s.spec))
        before.append((pred, door))
        if len(before) > 12:
            del before[2:-8]

    # ---- rounds
    def warm_round(self, variant, k):
        """use part of the grid; k rotates which door / dimension is the chosen one"""
        for s in self.systems:
            dn_all = DIM_NAMES
            if variant == "none":
                continue
            if variant == "one-door-all-dims":
                pairs = [(DOOR_NAMES[k % len(DOOR_NAMES)], dn) for dn in dn_all]
            elif variant == "all-doors-one-dim":
                pairs = [(door, dn_all[k % len(dn_all)]) for door in DOOR_NAMES]
            elif variant == "all-doors-half-dims":
                pairs = [(door, dn) for j, dn in enumerate(dn_all) if (j + k) % 2 == 0 for door in DOOR_NAMES]
            else:
                pairs = [(door, dn) for dn in dn_all for door in DOOR_NAMES]
            for door, dn in pairs:
                self.judged_use(s, door, dn, "between-edits")
            self.rec.count("system_warm_rounds:" + variant)

    def final(self, srv, cold_too, twins_too=True):
        unyt, rec, model = self.unyt, self.rec, self.model
        if self.dead:
            return
        for s in self.systems:
            obs = {}
            for dn in DIM_NAMES:
                for door in DOOR_NAMES:
                    o = self.judged_use(s, door, dn, "final")
                    if o is not None:
                        obs[door + "|" + dn] = o
            rec.count("system_final_rounds")
            twins = []
            if not twins_too:
                continue
            if constructible(model, s.spec):
                try:
                    S2 = build_system(unyt, self.reg, s.spec, f"{s.name}_again", s.sets)
                    twins.append(("fresh-system", observe(unyt, self.reg, S2, s.spec, s.sets, DOOR_NAMES, DIM_NAMES)))
                    fr = self.H.fresh_registry(unyt, model)
                    S3 = build_system(unyt, fr, s.spec, f"{s.name}_fresh", s.sets)
                    twins.append(("fresh-registry", observe(unyt, fr, S3, s.spec, s.sets, DOOR_NAMES, DIM_NAMES)))
                except Exception as e:
                    rec.note("systems-twin-raised:" + type(e).__name__)
                if cold_too and srv is not None:
                    m2 = model.copy()
                    rep = srv.call({"what": "systems", "model": m2.plain(user_only=True), "spec": s.spec, "name": f"{s.name}_cold", "sets": s.sets,
                                    "doors": list(DOOR_NAMES), "dims": list(DIM_NAMES)})
                    if rep is None or "construct" in rep:
                        rec.count("system_cold_failed")
                    else:
                        rec.count("system_cold_rounds")
                        twins.append(("cold", rep))
            else:
                rec.count("system_twin_unconstructible")
            for which, other in twins:
                for k, o in obs.items():
                    o2 = other.get(k)
                    if o2 is None:
                        continue
                    door, dn = k.split("|")
                    dcl = dim_class(s.spec, s.sets, dn)
                    e = expect_unit(model, s.spec, s.sets, dn)
                    kind = self.edit_of(e[4]) if e[0] == "ok" and e[4] else self.edit_of(("foo", "zed", "qux"))
                    rec.count("evals_system_" + which)
                    if same_obs(o, o2):
                        rec.ok(("system", which, kind, door, dcl, o[0]))
                    else:
                        what = "exception-class" if (o[0] == "exc" and o2[0] == "exc") else ("result" if o[0] == o2[0] else "raises-only-" + ("used" if o[0] == "exc" else which))
                        rec.violation(f"C12:unit-system:{door}:used-vs-{which}:{what}",
                                      f"{door} for {dn}: the system that lived through the history -> {o}; a {which} twin with the same final contents "
                                      f"-> {o2} (history {model.log[-6:]})",
                                      {"spec": s.spec, "sets": s.sets, "door": door, "dimension": dn, "used": o, which: o2, "label": self.label, "log": model.log[-12:]})


def enumerated(tier):
    """[(label, spec, script label, warm variant, rotation)]"""
    scripts = SCRIPTS_THOROUGH if tier == "thorough" else SCRIPTS
    out = []
    n = 0
    for si, spec in enumerate(SPEC_NAMES):
        for ci, sl in enumerate(scripts):
            if tier == "thorough":     # two of the four warm variants (wider script catalogue), the never-used control for every fourth
                variants = (WARM[1 + (si + ci) % 4], WARM[1 + (si + ci + 2) % 4]) + (("none",) if (si + 2 * ci) % 4 == 0 else ())
            else:       # one of the four warm variants per (spec, script), rotating; the never-used control for every fourth
                variants = (WARM[1 + (si + ci) % 4],) + (("none",) if (si + 2 * ci) % 4 == 0 else ())
            for v in variants:
                out.append((f"{spec}/{sl}/{v}", spec, sl, v, n))
                n += 1
    return out


def run_enumerated(H, unyt, rec, tier, lo, hi, srv, cold_stride):
    scripts = SCRIPTS_THOROUGH if tier == "thorough" else SCRIPTS
    for n_, (label, spec, sl, variant, k) in enumerate(enumerated(tier)[lo:hi]):
        h = History(H, unyt, rec, tier, label)
        s = h.new_system(spec)
        if s is None:
            rec.note("systems-setup-failed:" + spec)
            continue
        h.warm_round(variant, k)
        for step in scripts[sl]:
            for handle, op in step:
                if handle == "s":
                    h.set_item(s, op[0], op[1])
                else:
                    h.edit(handle, op)
            if step is not scripts[sl][-1]:
                h.warm_round(variant, k + 1)
        h.final(srv, cold_too=(n_ % cold_stride == 0), twins_too=(n_ % 2 == 0))
        rec.count("system_histories")
        rec.count("system_scripts:" + sl)
        rec.count("system_warm:" + variant)
    rec.sample({"systems": {"specs": list(SPEC_NAMES), "doors": list(DOOR_NAMES), "dims": list(DIM_NAMES), "last": label}})


def run_random(H, unyt, rec, tier, ids, seed, srv, rng):
    for hid in ids:
        r = rng(seed, "C12", "systems", hid)
        h = History(H, unyt, rec, tier, f"random/{hid}")
        h.new_system(r.choice(SPEC_NAMES))
        n = r.randint(8, 16) if tier == "quick" else r.randint(12, 30)
        steps = []
        for _ in range(n):
            if h.dead:
                break
            x = r.random()
            if x < 0.30:
                op = r.choice(RANDOM_EDITS)
                h.edit("c" if r.random() < 0.15 else "o", op)
                steps.append(["edit", list(op)])
            elif x < 0.36 and len(h.systems) < 3:
                spec = r.choice(SPEC_NAMES)
                h.new_system(spec)
                steps.append(["system", spec])
            elif x < 0.42 and h.systems:
                s = r.choice(h.systems)
                dn = r.choice(sorted(RANDOM_SETS))
                st = r.choice(RANDOM_SETS[dn])
                h.set_item(s, dn, st)
                steps.append(["set", dn, st])
            elif h.systems:
                s = r.choice(h.systems)
                for _ in range(r.choice((1, 3, 6))):
                    door, dn = r.choice(DOOR_NAMES), r.choice(DIM_NAMES)
                    h.judged_use(s, door, dn, "random")
                    steps.append(["use", door, dn])
        h.final(srv, cold_too=(hid % 4 == 0), twins_too=(hid % 2 == 0))
        rec.count("system_histories")
        rec.count("system_random_histories")
    rec.sample({"systems_random": steps[:14]})


def gate_counters(tier):
    """counters that must be non-zero for the run to count (merged into c12.extra's INCONCLUSIVE gate)"""
    g = ["evals_system", "evals_system_decisive", "evals_system_control", "evals_system_fresh-system", "evals_system_fresh-registry",
         "evals_system_cold", "evals_system_construct", "system_random_histories", "system_edits_via_other_handle", "system_setitems"]
    g += ["evals_system_decisive_probe:" + d for d in DOOR_NAMES]
    g += ["evals_system_decisive_warm:" + d for d in DOOR_NAMES]
    g += ["evals_system_decisive_dimclass:" + c for c in ("base", "derived-implicit", "derived-explicit")]
    g += ["evals_system_dimclass:control"]
    g += ["evals_system_spec:" + s for s in SPEC_NAMES]
    g += ["system_scripts:" + s for s in (SCRIPTS_THOROUGH if tier == "thorough" else SCRIPTS)]
    g += ["system_warm:" + w for w in WARM]
    return g


def catalogue():
    # (data 'already in the system's unit' exist only for dimensions whose unit is one of the spellings the system was given)
    skip = {("own.in_base(system)", "derived-implicit")}
    return {f"system|{d}|{c}" for d in DOOR_NAMES for c in ("base", "derived-implicit", "derived-explicit", "control") if (d, c) not in skip} \
        | {f"system-decisive|{d}|{c}" for d in DOOR_NAMES for c in ("base", "derived-implicit", "derived-explicit") if (d, c) not in skip}
