"""C13 monitors: write recorder for unit tables, table/namespace/conversion snapshots and their comparison.

Nothing here calls UnitRegistry.add/modify/remove or decides a verdict with unyt's own comparison logic:
tables are compared entry by entry (tuples of float, sympy expression, float, str, bool), SI-prefixed entries that a
lookup derives and writes back are recognised with the independent prefix table of vf/ref/defs.py.
"""
import sys
from vf.ref import defs

LOG = []          # (tag, op, key-or-count, writer) appended by RecDict
ENABLED = [True]


def _writer():
    """innermost two unyt frames (function names) of the current write: structural, used in descriptions and keys"""
    f = sys._getframe(2)
    out = []
    while f is not None and len(out) < 2:
        fn = f.f_code.co_filename
        if "/unyt/" in fn and "/verif/" not in fn:
            out.append(fn.rsplit("/", 1)[-1].replace(".py", "") + "." + f.f_code.co_name)
        f = f.f_back
    return "<-".join(out) if out else "harness"


class RecDict(dict):
    """dict that records every write (who, which key); pickles/deep-copies as a plain dict"""
    __slots__ = ("tag",)

    def __init__(self, *a, tag="?", **k):
        dict.__init__(self, *a, **k)
        self.tag = tag

    def _log(self, op, key):
        if ENABLED[0]:
            LOG.append((self.tag, op, key, _writer()))

    def __setitem__(self, k, v):
        self._log("set", k)
        dict.__setitem__(self, k, v)

    def __delitem__(self, k):
        self._log("del", k)
        dict.__delitem__(self, k)

    def update(self, *a, **k):
        self._log("update", None)
        dict.update(self, *a, **k)

    def pop(self, *a):
        self._log("pop", a[0] if a else None)
        return dict.pop(self, *a)

    def popitem(self):
        self._log("popitem", None)
        return dict.popitem(self)

    def setdefault(self, k, d=None):
        if k not in self:
            self._log("set", k)
        return dict.setdefault(self, k, d)

    def clear(self):
        self._log("clear", None)
        dict.clear(self)

    def __ior__(self, o):
        self._log("update", None)
        dict.update(self, o)
        return self

    def copy(self):
        return dict(self)

    def __reduce__(self):
        return (dict, (dict(self),))

    def __reduce_ex__(self, proto):
        return (dict, (dict(self),))


def install_default_recorders(unyt):
    """swap a recording dict in for every module attribute that aliases default_unit_symbol_lut (same contents, same
    entry objects).  Returns (default registry lut, recording symbol lut, #attributes rebound, registry-aliased?)."""
    import unyt._unit_lookup_table as ult
    from unyt.unit_registry import default_unit_registry
    ENABLED[0] = False
    orig = ult.default_unit_symbol_lut
    sym = RecDict(orig, tag="default_unit_symbol_lut")
    n = 0
    for name, mod in list(sys.modules.items()):
        if name == "unyt" or name.startswith("unyt."):
            for attr, val in list(vars(mod).items()):
                if val is orig:
                    setattr(mod, attr, sym)
                    n += 1
    reg_aliased = default_unit_registry.lut is orig
    if reg_aliased:
        default_unit_registry.lut = sym
    # default_unit_registry.lut itself is NOT swapped: shallow aliases of the default registry made at import time
    # (Unit.copy() inside add_constants) share that dict object and a swap would silently un-alias them.
    ENABLED[0] = True
    return default_unit_registry.lut, sym, n, reg_aliased


def drain():
    out = LOG[:]
    del LOG[:]
    return out


# ------------------------------------------------------------------ tables
def is_derived(key, entry, table):
    """is table[key] the SI-prefixed entry a lookup derives from a prefixable base entry of the same table?
    (independent prefix table; value = base value * factor, same dimensions and offset, not prefixable itself)"""
    for p in ("da",) + tuple(k for k in defs.PREFIX if k != "da"):
        if key.startswith(p):
            base = table.get(key[len(p):])
            if base is not None and len(base) >= 5 and base[4] and not entry[4]:
                want = base[0] * defs.PREFIX[p]
                if (entry[0] == want or abs(entry[0] - want) <= 4e-16 * abs(want)) and entry[1] == base[1] and entry[2] == base[2]:
                    return True
    return False


def table_diff(old, cur):
    """(removed keys, changed keys, added keys) between a snapshot (plain dict) and the live table"""
    if len(old) == len(cur) and old == cur:
        return (), (), ()
    removed = [k for k in old if k not in cur]
    changed = [k for k, v in old.items() if k in cur and cur[k] is not v and cur[k] != v]
    added = [k for k in cur if k not in old]
    return removed, changed, added


def core(table):
    return {k: v for k, v in table.items() if not is_derived(k, v, table)}


def same_core(t1, t2):
    a, b = core(t1), core(t2)
    return a == b


# ------------------------------------------------------------------ resolution probes
def resolve(unyt, reg, s):
    """observation of what registry reg resolves the string s to: (scale, dimensions, offset, registry the unit is bound to)"""
    try:
        u = unyt.Unit(s, registry=reg)
    except Exception as e:
        return ("EXC", type(e).__name__)
    return (u.base_value, u.dimensions, u.base_offset, u.registry)


def res_equal(a, b):
    if a[0] == "EXC" or b[0] == "EXC":
        return a[0] == b[0] and a[1] == b[1]
    return (a[0] == b[0] or (a[0] != a[0] and b[0] != b[0])) and (a[1] is b[1] or a[1] == b[1]) and a[2] == b[2]


def show_res(a):
    if a[0] == "EXC":
        return "raises " + a[1]
    return f"scale {a[0]!r} dims {a[1]} offset {a[2]!r}"


# ------------------------------------------------------------------ namespace
def namespace_snapshot(unyt):
    """names exported by the unyt package that are units or quantities -> object; per distinct object its attributes"""
    Unit = unyt.Unit
    uq = unyt.unyt_quantity
    names = {}
    objs = {}
    for k, v in vars(unyt).items():
        if isinstance(v, Unit):
            names[k] = v
            objs[id(v)] = (v, v.expr, v.base_value, v.base_offset, v.dimensions, v.registry)
        elif isinstance(v, uq):
            names[k] = v
            u = v.units
            objs[id(v)] = (v, float(v.d) if v.dtype.kind != "c" else complex(v.d), u, v.dtype.str)
            objs.setdefault(id(u), (u, u.expr, u.base_value, u.base_offset, u.dimensions, u.registry))
    return names, objs, len(vars(unyt))


def namespace_diff(unyt, snap, allow_added=()):
    """list of (what, name) differences between the snapshot and the live namespace"""
    names, objs, nlen = snap
    ns = vars(unyt)
    out = []
    for k, v in names.items():
        if ns.get(k) is not v:
            out.append(("rebound" if k in ns else "deleted", k))
    Unit = unyt.Unit
    uq = unyt.unyt_quantity
    if len(ns) != nlen:
        for k, v in ns.items():
            if k not in names and isinstance(v, (Unit, uq)) and k not in allow_added:
                out.append(("added", k))
    rev = None
    for t in objs.values():
        o = t[0]
        if len(t) == 6:
            if not (o.expr is t[1] and o.base_value == t[2] and o.base_offset == t[3] and (o.dimensions is t[4]) and (o.registry is t[5] or getattr(o.registry, "lut", 0) is t[5].lut and type(o.registry) is type(t[5]))):
                what = ("registry" if not (o.registry is t[5] or getattr(o.registry, "lut", 0) is t[5].lut and type(o.registry) is type(t[5])) else "scale" if o.base_value != t[2] else "offset" if o.base_offset != t[3]
                        else "dimensions" if o.dimensions is not t[4] else "expr")
                if rev is None:
                    rev = {}
                    for k, v in names.items():
                        rev.setdefault(id(v), k)
                        if isinstance(v, uq):
                            rev.setdefault(id(v.units), k + ".units")
                out.append(("unit-" + what, rev.get(id(o), "?")))
        else:
            val = float(o.d) if o.dtype.kind != "c" else complex(o.d)
            if not (val == t[1] and o.units is t[2] and o.dtype.str == t[3]):
                out.append(("constant-value" if val != t[1] else "constant-units", "?"))
    return out
