"""Cold evaluations for the history properties: a fork server that stays pristine.

A worker child that has already executed workload is *warm* (per-registry string caches, derived table entries, the
process-wide lru caches of the unit rules); a fork of it would inherit all of that.  ColdServer must therefore be started
at the very beginning of a worker, before any workload ran: it forks one idle server process that keeps the import-time
state of unyt, and every request is executed in a fork *of that server*, i.e. in a process that has never executed any
unyt workload.  Requests and replies are JSON lines over pipes; requests are strictly sequential.

    srv = ColdServer(handler)      # handler(request_obj) -> reply_obj (JSON-able), runs in the cold process
    reply = srv.call(request_obj)  # None when the cold process died or timed out (never a verdict)
    srv.close()
"""
import json, os, select, signal, time


class ColdServer:
    def __init__(self, handler, timeout=120.0):
        self.timeout = timeout
        self.calls = 0
        self.failed = 0
        req_r, req_w = os.pipe()
        rep_r, rep_w = os.pipe()
        pid = os.fork()
        if pid == 0:
            os.close(req_w)
            os.close(rep_r)
            try:
                self._serve(handler, req_r, rep_w)
            finally:
                os._exit(0)
        os.close(req_r)
        os.close(rep_w)
        self.pid = pid
        self.req = os.fdopen(req_w, "w")
        self.rep_fd = rep_r
        self.buf = b""

    @staticmethod
    def _serve(handler, req_r, rep_w):
        # drop every other descriptor inherited from the worker (its report pipe to the runner above all: the runner
        # waits for EOF on it)
        try:
            for name in os.listdir("/proc/self/fd"):
                fd = int(name)
                if fd > 2 and fd not in (req_r, rep_w):
                    try:
                        os.close(fd)
                    except OSError:
                        pass
        except OSError:
            pass
        f = os.fdopen(req_r, "r")
        for line in f:
            line = line.strip()
            if not line:
                continue
            pid = os.fork()
            if pid == 0:
                try:
                    try:
                        reply = {"ok": handler(json.loads(line))}
                    except BaseException as e:
                        reply = {"error": f"{type(e).__name__}: {e}"[:500]}
                    data = (json.dumps(reply) + "\n").encode()
                    while data:
                        n = os.write(rep_w, data)
                        data = data[n:]
                finally:
                    os._exit(0)
            _, status = os.waitpid(pid, 0)
            if status != 0:
                os.write(rep_w, (json.dumps({"error": f"cold child exit status {status}"}) + "\n").encode())

    def call(self, obj):
        self.calls += 1
        try:
            self.req.write(json.dumps(obj) + "\n")
            self.req.flush()
        except (BrokenPipeError, OSError):
            self.failed += 1
            return None
        t0 = time.time()
        while b"\n" not in self.buf:
            left = self.timeout - (time.time() - t0)
            if left <= 0:
                self.failed += 1
                return None
            r, _, _ = select.select([self.rep_fd], [], [], left)
            if not r:
                continue
            chunk = os.read(self.rep_fd, 1 << 20)
            if not chunk:
                self.failed += 1
                return None
            self.buf += chunk
        line, _, self.buf = self.buf.partition(b"\n")
        rep = json.loads(line.decode())
        if "ok" not in rep:
            self.failed += 1
            self.last_error = rep.get("error")
            return None
        return rep["ok"]

    def close(self):
        try:
            self.req.close()
        except Exception:
            pass
        try:
            os.kill(self.pid, signal.SIGTERM)
        except OSError:
            pass
        try:
            os.waitpid(self.pid, 0)
        except OSError:
            pass
        try:
            os.close(self.rep_fd)
        except OSError:
            pass
