"""C02 sub-monitor 'data': the DATA of a conversion equals x * scale(u1)/scale(u2), whatever the dtype and the magnitude.

The other families of C02 judge Unit objects (scale, dimension) and convert three harmless float64 values.  The statement
ends "consequently x.to(u2) equals x times scale(u1)/scale(u2)": that is a claim about the numbers that come out of every
conversion door, and a library can keep every Unit, every base_value and get_conversion_factor right and still mangle the
numbers (integer arithmetic that wraps, an intermediate in a narrower float, a factor squeezed into the data's format ...).
That only shows on data that is not "a few small floats", so the data is a first-class workload dimension here:

    dtype     bool, int8..uint64, float16/32/64, longdouble, complex64/128, clongdouble
    magnitude 0, small, 2**k-1 / 2**k / 2**k+1 (beyond the mantissa of the result's float format), iinfo.max, max-1, max//2,
              max//3, max//10**j, iinfo.min, min+1, log-uniform random integers over the whole range of the dtype; floats with a
              full mantissa over the format's exponent range, near finfo.max and finfo.tiny, +-inf and nan
    pair      ordered pairs of commensurable unit expressions (atoms, SI-prefixed atoms, powers, quotients and products of
              them, 14 dimension families) classified by their EXACT ratio: unity, whole-s (2..127), whole-m (< 2**31),
              whole-l, recip (1/n), recip-l, fraction, huge (>= 1e15 or <= 1e-15, not whole/recip), inexact (a measured or
              irrational constituent)
    door      to(str) to(Unit) in_units(str) in_units(Unit) to_value(str) convert_to_units(str)            [pair doors]
              in_base() in_base('mks') in_base('cgs') in_base('imperial') in_mks() in_cgs()
              convert_to_base() convert_to_base('cgs') convert_to_mks() convert_to_cgs()                   [base doors]
    layout    1-d contiguous, strided/reversed 2-d view, unyt_quantity (0-d), byte-swapped, read-only (copying doors)

Oracle (never calls a conversion routine): every atom's scale is an exact Fraction (prefix 10**k from an own table x the
exact definition of vf/ref/defs.py; Fraction(float) plus the class tolerance for measured/irrational entries), a compound's
scale is the exact product of powers, the expected datum is Fraction(x_i) * ratio in exact rational arithmetic, split into a
double-double and compared in longdouble arithmetic with

    |got - expected| <= (sum of the class tolerances of the constituents + 4 * max(eps(result format), 2**-52)) * |expected|

where "result format" is read off what came back (float16/32/64/longdouble; a Python float is a double).  Which dtype a
result has is C17's subject and not judged.  For the base doors the target is the unit that came back (read by the
independent evaluator ref/uexpr.py); that it is a base unit of the system is C10's subject.  An exact 0 must stay 0, +-inf
must stay +-inf, nan must stay nan.  Elements whose expected value lies outside [1e3*tiny, max/4] of the result format are
discarded and counted (IEEE overflow/underflow, DESIGN 4.13).

Mechanism keys:  C02:data:<door>:<kind>:<dtype>:<ratio class>   kind = value | nonfinite | zero | special | zero-lost
                 C02:data:<door>:raises:<Exc>:<dtype>   C02:data:<door>:shape:<dtype>
Two input-side stress predicates (decided from the INPUTS, never from what came back) mark elements that are judged apart and
keyed per door group only,  C02:data:<copy|inplace>:<predicate>  (three listed findings on the unchanged tree):
    factor-out-of-format     the float format the library multiplies in (the data's own for float16/32/complex64 data, the float
                             of the same size for 2-/4-byte integers converted in place) cannot hold the ratio as a normal number
    int-beyond-own-float     integer data at or above the largest finite value of the float of its own size, converted in place
                             (uint16 >= 65520)
Elements outside these regions keep the fine keys, so a different defect on the same call is not hidden.
"""
import numpy as np
from fractions import Fraction as Fr
from vf.ref import defs, dims, names, uexpr

# ---------------------------------------------------------------- exact scales (own prefix table: powers of ten as integers)
PREFIX10 = {"Y": 24, "Z": 21, "E": 18, "P": 15, "T": 12, "G": 9, "M": 6, "k": 3, "h": 2, "da": 1, "d": -1, "c": -2, "m": -3,
            "u": -6, "n": -9, "p": -12, "f": -15, "a": -18, "z": -21, "y": -24}
TAINTED = ("Tsun", "Mearth", "ly", "mp")

# atoms: 'sym' or 'prefix|sym'
ATOMS = {
    "length": "m k|m c|m m|m u|m n|m d|m G|m Y|m y|m inch ft yd mile nmi furlong mil Å AU pc Rsun",
    "time": "s m|s u|s n|s T|s min hr day week fortnight yr M|yr",
    "mass": "g k|g m|g u|g t lb oz ton slug Msun amu",
    "area": "ha acre",
    "volume": "L m|L gal_US qt_US pt_US fl_oz_US gal_UK",
    "energy": "J k|J erg cal k|cal Wh k|Wh eV BTU foe",
    "pressure": "Pa k|Pa bar atm psi Ba",
    "force": "N dyn lbf kip",
    "angle": "rad degree arcmin arcsec rev m|rad",
    "temperature": "K R m|K delta_degC delta_degF",
    "speed": "mph kt c",
    "power": "W k|W hp Lsun",
    "frequency": "Hz k|Hz M|Hz G|Hz",
    "dimensionless": "dimensionless %",
}
# compounds: family -> list of expressions, an expression = 'atom^e atom^e ...'
COMPOUNDS = {
    "area": ["m^2", "k|m^2", "c|m^2", "m|m^2", "inch^2", "ft^2", "mile^2", "yd^2"],
    "volume": ["m^3", "k|m^3", "c|m^3", "m|m^3", "d|m^3", "inch^3", "ft^3"],
    "speed": ["m s^-1", "k|m s^-1", "k|m hr^-1", "c|m s^-1", "mile hr^-1", "ft s^-1", "m min^-1", "k|m m|s^-1", "ft min^-1",
              "mile s^-1", "m|m u|s^-1"],
    "density": ["g c|m^-3", "k|g m^-3", "lb ft^-3", "lb inch^-3", "g L^-1", "k|g L^-1", "oz gal_US^-1", "t m^-3", "m|g m|m^-3"],
    "energy": ["N m", "dyn c|m", "k|g m^2 s^-2", "g c|m^2 s^-2", "W s", "k|W hr", "lbf ft", "Pa m^3"],
    "frequency": ["s^-1", "min^-1", "hr^-1", "m|s^-1", "day^-1"],
    "power": ["J s^-1", "erg s^-1", "k|J hr^-1", "lbf ft s^-1", "N m s^-1"],
    "pressure": ["N m^-2", "dyn c|m^-2", "lbf inch^-2", "lbf ft^-2", "k|g m^-1 s^-2", "N m|m^-2", "J m^-3"],
    "force": ["k|g m s^-2", "g c|m s^-2", "J m^-1", "lb ft s^-2", "erg c|m^-1"],
    "acceleration": ["m s^-2", "c|m s^-2", "k|m hr^-2", "ft s^-2", "mile hr^-1 s^-1", "m|m m|s^-2", "k|m s^-2"],
    "angular": ["rad s^-1", "degree s^-1", "rev min^-1", "rev s^-1", "m|rad s^-1", "rad hr^-1"],
}


class UExpr:
    """a unit expression with its exact reference reading"""
    __slots__ = ("family", "string", "scale", "dim", "tol", "inexact")

    def __init__(self, family, spec):
        self.family = family
        scale = Fr(1)
        dim = dims.ZERO
        tol = 0.0
        inexact = False
        num, den = [], []
        for tok in spec.split():
            atom, _, e = tok.partition("^")
            e = int(e) if e else 1
            pre, _, sym = atom.rpartition("|")
            de = defs.T[sym]
            assert de.offset == 0.0 and sym not in TAINTED and (not pre or de.prefixable), tok
            s = de.exact if de.exact is not None else Fr(de.value)
            if de.exact is None or de.cls != "exact":
                inexact = True
            if pre:
                s = s * Fr(10) ** PREFIX10[pre]
            scale *= s ** e
            dim = dims.mul(dim, dims.power(de.dim, e))
            tol += de.tol * abs(e)
            name = pre + sym
            (num if e > 0 else den).append(name if abs(e) == 1 else f"{name}**{abs(e)}")
        if num:
            self.string = "*".join(num) + "".join("/" + d for d in den)
        else:   # pure inverse: written with negative exponents
            self.string = "*".join((d + "**-1") if "**" not in d else d.replace("**", "**-") for d in den)
        self.scale, self.dim, self.tol, self.inexact = scale, dim, tol, inexact


_cache = {}


def expressions():
    if "x" not in _cache:
        out = []
        for fam, spec in ATOMS.items():
            out += [UExpr(fam, a) for a in spec.split()]
        for fam, lst in COMPOUNDS.items():
            out += [UExpr(fam, s) for s in lst]
        bydim = {}
        for u in out:
            bydim.setdefault(u.dim, []).append(u)
        for dv, lst in bydim.items():           # one family name per dimension vector (the first seen)
            for u in lst:
                u.family = lst[0].family
        _cache["x"] = out
    return _cache["x"]


RCLASSES = ("unity", "whole-s", "whole-m", "whole-l", "recip", "recip-l", "fraction", "huge", "inexact")


def rclass(r, inexact):
    if inexact:
        return "inexact"
    if r == 1:
        return "unity"
    if r.denominator == 1:
        return "whole-s" if r <= 127 else ("whole-m" if r < 2 ** 31 else "whole-l")
    if r.numerator == 1:
        return "recip" if r.denominator < 2 ** 31 else "recip-l"
    if r >= 10 ** 15 or r <= Fr(1, 10 ** 15):
        return "huge"
    return "fraction"


def all_pairs():
    """every ordered pair (i, j, ratio class) of expressions sharing a dimension (i == j included once per family: unity)"""
    if "pairs" not in _cache:
        xs = expressions()
        out = []
        for i, a in enumerate(xs):
            for j, b in enumerate(xs):
                if a.dim == b.dim and (i != j or a.string in ("m", "J", "kg", "hr")):
                    out.append((i, j, rclass(a.scale / b.scale, a.inexact or b.inexact)))
        _cache["pairs"] = out
    return _cache["pairs"]


def quick_pairs(seed, per_cell=3, nrandom=48):
    """seed-independent: up to per_cell pairs per (family, ratio class), spread over the family; plus a seeded random sample"""
    import random
    xs = expressions()
    cells = {}
    for p in all_pairs():
        cells.setdefault((xs[p[0]].family, p[2]), []).append(p)
    chosen = []
    for key in sorted(cells):
        lst = cells[key]
        step = max(1, len(lst) // per_cell)
        chosen += lst[::step][:per_cell]
    rest = sorted(set(all_pairs()) - set(chosen))
    r = random.Random(1000003 * int(seed) + 77)
    chosen += r.sample(rest, min(nrandom, len(rest)))
    return chosen


# ---------------------------------------------------------------- dtypes and magnitudes
DTYPES = ("bool", "int8", "uint8", "int16", "uint16", "int32", "uint32", "int64", "uint64", "float16", "float32", "float64",
          "longdouble", "complex64", "complex128", "clongdouble")


def real_dtype(dt):
    dt = np.dtype(dt)
    if dt.kind == "c":
        return np.dtype({8: "f4", 16: "f8"}.get(dt.itemsize, np.longdouble))
    return dt


def _float_values(dt, r, n_random):
    """1-d array of dtype dt (a real float format): plain values, full-mantissa values over the exponent range, edges, specials"""
    fi = np.finfo(dt)
    T = np.dtype(dt).type
    vals = [T(0), T(1), T(-1), T(1.5), T(0.1), T(1) / T(3), T(-2.5), T(1e-3), T(1e3), T(3e4), T(7), T(-100)]
    span = min(int(fi.maxexp), 1000)            # stay inside what a double-double reference can hold
    for k in range(n_random):
        m = T(1) + T(r.random())
        if T is np.longdouble:                      # fill the low mantissa bits too
            m = m + T(r.random()) * T(2.0) ** -53
        e = r.randint(-span + 12, span - 4) if k % 2 else r.randint(-(span // 3), span // 3)
        v = T(np.ldexp(m, e))
        vals.append(-v if r.random() < 0.4 else v)
    vals += [T(fi.max) / T(8), -T(fi.max) / T(64), T(fi.tiny) * T(2.0) ** 24, T(np.inf), T(-np.inf), T(np.nan)]
    with np.errstate(all="ignore"):
        return np.array(vals, dtype=dt)


def magnitudes(dt, r, n_random=14):
    """1-d ndarray of dtype dt covering the dtype up to its limits"""
    dt = np.dtype(dt)
    if dt.kind == "b":
        return np.array([True, False, True], dtype=dt)
    if dt.kind in "ui":
        ii = np.iinfo(dt)
        top, bot, bits = int(ii.max), int(ii.min), dt.itemsize * 8
        vals = {0, 1, 2, 3, 7, 10, 40, 100, 127}
        for k in (7, 8, 10, 11, 15, 16, 24, 31, 32, 53, 62, 63, 64):
            vals.update((2 ** k - 1, 2 ** k, 2 ** k + 1))
        vals.update((top, top - 1, top // 2, top // 2 + 1, top // 3, top // 7))
        j = 10
        while top // j > 0:
            vals.add(top // j)
            vals.add(3 * (top // j))
            j *= 10 if bits <= 16 else 1000
        for k in range(n_random):
            vals.add(int(2 ** r.uniform(0, bits)))
        vals = {v for v in vals if 0 <= v <= top}
        if dt.kind == "i":
            vals |= {-v for v in vals} | {bot, bot + 1, bot // 2, bot // 3}
        return np.array(sorted(vals), dtype=dt)
    rd = real_dtype(dt)
    a = _float_values(rd, r, n_random)
    if dt.kind != "c":
        return a
    fin = a[np.isfinite(a)]
    re = fin
    im = np.roll(fin[::-1], 3)
    out = np.empty(len(fin), dtype=dt)
    out.real, out.imag = re, im
    return out


def components(a):
    """real view of a real or complex array (complex -> interleaved components, one more trailing axis folded in)"""
    a = np.ascontiguousarray(a)
    if not a.dtype.isnative:
        a = a.astype(a.dtype.newbyteorder("="))
    if a.dtype.kind == "c":
        return a.view(real_dtype(a.dtype)).reshape(a.shape + (2,))
    return a


def exact_fractions(vec):
    """list of exact Fractions of the finite elements of a 1-d real/int/bool array (None for inf/nan)"""
    out = []
    if vec.dtype.kind in "uib":
        return [Fr(int(v)) for v in vec.tolist()]
    if vec.dtype == np.longdouble and np.finfo(np.longdouble).nmant > 52:
        hi = vec.astype(np.float64)
        with np.errstate(all="ignore"):
            lo = (vec - hi.astype(np.longdouble)).astype(np.float64)
        for v, h, l in zip(vec, hi.tolist(), lo.tolist()):
            out.append(Fr(h) + Fr(l) if np.isfinite(v) and abs(h) != float('inf') else None)
        return out
    for v in vec.astype(np.float64).tolist():
        out.append(Fr(v) if v == v and abs(v) != float("inf") else None)
    return out


def split_expected(fracs, ratio):
    """exact products x_i * ratio as a double-double (hi, lo) pair of float64 arrays; hi = nan where it cannot be held.
    Integer arithmetic throughout: int / int is correctly rounded in Python, float.as_integer_ratio() is exact."""
    hi = np.empty(len(fracs))
    lo = np.zeros(len(fracs))
    p, q = ratio.numerator, ratio.denominator
    for i, f in enumerate(fracs):
        if f is None:
            hi[i] = np.nan
            continue
        n, d = f.numerator * p, f.denominator * q
        try:
            h = n / d
        except OverflowError:
            hi[i] = np.nan
            continue
        if n and not (1e-270 < abs(h) < 1e290):      # outside what a double-double can hold with a full low part: not judged
            hi[i] = np.nan
            continue
        hi[i] = h
        if n:
            a, b = h.as_integer_ratio()
            lo[i] = (n * b - a * d) / (d * b)
    return hi, lo


# ---------------------------------------------------------------- doors
PAIR_DOORS = ("to-str", "to-unit", "in_units-str", "in_units-unit", "to_value-str", "convert_to_units")
BASE_DOORS = ("in_base", "in_base-mks", "in_base-cgs", "in_base-imperial", "in_mks", "in_cgs",
              "convert_to_base", "convert_to_base-cgs", "convert_to_mks", "convert_to_cgs")
INPLACE = ("convert_to_units", "convert_to_base", "convert_to_base-cgs", "convert_to_mks", "convert_to_cgs")
DOORS = PAIR_DOORS + BASE_DOORS
LAYOUTS = ("1d", "2d-view", "quantity", "swapped", "readonly")


def call_door(unyt, door, x, s2, U2):
    """-> (values, unit the values are in [None: the requested one])"""
    if door == "to-str":
        y = x.to(s2)
        return y.d, y.units
    if door == "to-unit":
        y = x.to(U2)
        return y.d, y.units
    if door == "in_units-str":
        y = x.in_units(s2)
        return y.d, y.units
    if door == "in_units-unit":
        y = x.in_units(U2)
        return y.d, y.units
    if door == "to_value-str":
        return x.to_value(s2), None
    if door == "convert_to_units":
        x.convert_to_units(s2)
        return x.d, x.units
    if door == "in_base":
        y = x.in_base()
    elif door.startswith("in_base-"):
        y = x.in_base(door[8:])
    elif door == "in_mks":
        y = x.in_mks()
    elif door == "in_cgs":
        y = x.in_cgs()
    else:
        if door == "convert_to_base":
            x.convert_to_base()
        elif door == "convert_to_base-cgs":
            x.convert_to_base("cgs")
        elif door == "convert_to_mks":
            x.convert_to_mks()
        elif door == "convert_to_cgs":
            x.convert_to_cgs()
        else:
            raise KeyError(door)
        y = x
    return y.d, y.units


def build(unyt, layout, data, U1, r):
    """-> (fresh quantity or list of quantities, index array: position in the 1-d data vector of every element)"""
    n = len(data)
    ar = np.arange(n)
    if layout == "1d":
        return unyt.unyt_array(data.copy(), U1), ar
    if layout == "2d-view":
        idx = np.stack([ar, ar[::-1]], axis=1)
        buf = np.zeros((n, 4), dtype=data.dtype)
        buf[:, ::2] = data[idx]
        x = unyt.unyt_array(buf, U1)[::-1, ::2]
        return x, idx[::-1]
    if layout == "swapped":
        return unyt.unyt_array(data.astype(data.dtype.newbyteorder()), U1), ar
    if layout == "readonly":
        d = data.copy()
        x = unyt.unyt_array(d, U1)
        x.flags.writeable = False
        return x, ar
    if layout == "quantity":
        mag = np.abs(components(data).astype(np.longdouble)).reshape(n, -1).max(axis=1)
        mag = np.where(np.isfinite(mag), mag, 0)
        picks = sorted({int(np.argmax(mag)), r.randrange(n), r.randrange(n), int(np.argmin(np.where(mag > 0, mag, np.inf)))})
        if data.dtype.kind == "b":      # unyt_quantity refuses booleans ("values must be numeric"): 0-d arrays instead
            return [unyt.unyt_array(np.array(data[i]), U1) for i in picks], np.array(picks)
        return [unyt.unyt_quantity(data[i], U1) for i in picks], np.array(picks)
    raise KeyError(layout)


# ---------------------------------------------------------------- the oracle
K_EPS = 4.0
DBL_EPS = 2.0 ** -52


def result_format(got):
    """finfo of the float format the result is held in (a Python float/complex is a double; integers: judged as doubles)"""
    dt = np.asarray(got).dtype
    if dt.kind in "fc":
        return np.finfo(real_dtype(dt))
    return np.finfo(np.float64)


def judge(got, idx, data, hi, lo, tol_units, smask, fmt=None):
    """got: values as returned; idx maps got's elements to data-vector positions; hi/lo: double-double expected per data
    component; smask: data-vector positions under an input-side stress predicate (judged apart).
    -> None (shape mismatch) or {part: (n judged, n range-skipped, failure kind or None, data position of the first failure)}
    for part in ('plain', 'stress')"""
    g = np.asarray(got)
    if g.shape != idx.shape:
        return None
    fi = np.finfo(fmt) if fmt is not None else result_format(g)
    h = hi[idx]
    l = lo[idx]
    gc = components(g).astype(np.longdouble).reshape(h.shape)
    dc = components(data[idx]).reshape(h.shape)
    cplx = h.ndim > idx.ndim
    pos = np.broadcast_to(idx[..., None] if cplx else idx, h.shape)
    st = np.broadcast_to(smask[idx][..., None] if cplx else smask[idx], h.shape)
    false = np.zeros(h.shape, bool)
    with np.errstate(all="ignore"):
        isf = dc.dtype.kind == "f"
        nanin = np.isnan(dc) if isf else false
        infin = np.isinf(dc) if isf else false
        zero = (dc == 0)
        mag = np.abs(h)
        plainv = ~nanin & ~infin & ~zero
        inrange = plainv & (mag > float(fi.tiny) * 1e3) & (mag < float(fi.max) / 4)
        bad = {
            "nonfinite": inrange & ~np.isfinite(gc),
            "zero": inrange & (gc == 0),
            "value": inrange & np.isfinite(gc) & ~(np.abs((gc - h.astype(np.longdouble)) - l.astype(np.longdouble))
                                                  <= (tol_units + K_EPS * max(float(fi.eps), DBL_EPS)) * mag),
            "special": (nanin & ~np.isnan(gc)) | (infin & (gc != np.where(dc > 0, np.inf, -np.inf))) if isf else false,
            "zero-lost": zero & ~(gc == 0),
        }
    out = {}
    for part, m in (("plain", ~st), ("stress", st)):
        nj = int(((inrange | nanin | infin | zero) & m).sum())
        ns = int((plainv & ~inrange & m).sum())
        kind, p = None, 0
        for k in ("nonfinite", "zero", "value", "special", "zero-lost"):
            mm = bad[k] & m
            if mm.any():
                kind, p = k, int(pos.ravel()[int(np.flatnonzero(mm.ravel())[0])])
                break
        out[part] = (nj, ns, kind, p)
    return out


def working_format(dt, inplace):
    """the float format the library multiplies in: the data's own for float/complex data (NumPy: a Python-float factor is
    'weak'), the float of the same item size for integer data converted in place; None = double (integers, copying doors)"""
    dt = np.dtype(dt)
    if dt.kind in "fc":
        return real_dtype(dt)
    if inplace and dt.kind in "ui" and dt.itemsize in (2, 4):
        return np.dtype("f%d" % dt.itemsize)
    return None


def factor_fits(ratio, fmt):
    """can the working float format hold the ratio as a normal, finite, non-zero number?"""
    if fmt is None:
        return True
    try:
        f = float(ratio)
    except OverflowError:
        return False
    with np.errstate(all="ignore"):
        w = np.dtype(fmt).type(f)
    return bool(np.isfinite(w)) and abs(w) >= np.finfo(fmt).tiny


def int_beyond_own_float(data):
    """mask: integer data at or above the largest finite value of the float format of its own size (only uint16 can)"""
    if data.dtype.kind not in "ui" or data.dtype.itemsize not in (2, 4, 8):
        return np.zeros(len(data), bool)
    fmax = float(np.finfo("f%d" % data.dtype.itemsize).max)
    return np.abs(data.astype(np.float64)) >= fmax * (1 - 2.0 ** -12)


_unit_reading = {}


def read_unit(u):
    """(exact-ish scale as a Fraction, dimension) of a unit that came back, by the independent evaluator; None if unreadable"""
    k = u.expr
    if k in _unit_reading:
        return _unit_reading[k]
    s = str(u)
    if s not in _unit_reading:
        try:
            sc, dv = uexpr.evaluate(s, names.resolver())
            _unit_reading[s] = (Fr(repr(float(sc))), dv) if sc == sc and sc not in (0.0, float("inf")) else None
        except Exception:
            _unit_reading[s] = None
    _unit_reading[k] = _unit_reading[s]
    return _unit_reading[s]


def run_unit(unyt, rec, seed, pair, dtname, doors, layouts, uobj):
    """one work unit: one ordered pair x one dtype x the given doors, layouts[k] for door k (a tuple: all of them)"""
    import random
    xs = expressions()
    i, j, rc = pair
    a, b = xs[i], xs[j]
    dt = np.dtype(dtname)
    r = random.Random(1000003 * int(seed) + 31 * i + 7 * j + DTYPES.index(dtname))
    data = magnitudes(dt, r)
    U1, U2 = uobj(a.string), uobj(b.string)
    comp = components(data)
    fr = exact_fractions(comp.ravel())
    isint = dt.kind in "uib"
    expected = {}

    def exp_for(ratio):
        if ratio not in expected:
            h, l = split_expected(fr, ratio)
            expected[ratio] = (h.reshape(comp.shape), l.reshape(comp.shape))
        return expected[ratio]

    # input-side stress regions (counted: the gate wants them exercised)
    if isint and dt.kind != "b":
        ii = np.iinfo(dt)
        ratio = a.scale / b.scale
        ints = [int(v) for v in data.tolist()]
        if ratio.denominator == 1 and 1 < ratio <= ii.max and any(not (ii.min <= v * ratio <= ii.max) for v in ints):
            rec.count("data_stress:int-product-beyond-dtype")
        if any(abs(v) > 2 ** (np.finfo("f%d" % max(2, dt.itemsize)).nmant + 1) for v in ints):
            rec.count("data_stress:int-beyond-result-mantissa")
        if any(abs(v) >= ii.max // 2 for v in ints):
            rec.count("data_stress:near-dtype-limit")
    elif not isint:
        rec.count("data_stress:float-full-mantissa")

    for k, door in enumerate(doors):
        lays = layouts[k] if isinstance(layouts[k], tuple) else (layouts[k],)
        for layout in lays:
            inplace = door in INPLACE
            if inplace and layout == "readonly":
                layout = "1d"
            grp = "inplace" if inplace else "copy"
            try:
                built, idx = build(unyt, layout, data, U1, r)
            except Exception as e:   # the harness could not make the operand (e.g. byte-swapped extended precision): not judged
                rec.count("data_unbuildable:" + layout)
                continue
            qs = built if isinstance(built, list) else [built]
            vals, unit_back, exc = [], None, None
            with np.errstate(all="ignore"):
                for q in qs:
                    try:
                        v, unit_back = call_door(unyt, door, q, b.string, U2)
                        vals.append(v)
                    except Exception as e:
                        exc = e
                        break
            rec.count("data_calls")
            if exc is not None:
                if inplace and dt.kind in "ui" and dt.itemsize == 1 and isinstance(exc, ValueError) and "in place" in str(exc):
                    rec.note("data:in-place-conversion-of-1-byte-integers-refused")     # documented refusal: there is no 1-byte float
                    rec.count("data_inplace_1byte_refused")
                    continue
                if inplace and dt.kind == "b" and isinstance(exc, TypeError):
                    rec.note("data:in-place-conversion-of-booleans-refused")            # loud refusal (NumPy's casting rule), no value
                    rec.count("data_inplace_1byte_refused")
                    continue
                rec.violation(f"C02:data:{door}:raises:{type(exc).__name__}:{dtname}",
                              f"{dtname} data in [{a.string}] through {door} ({layout}, target [{b.string}]) raised "
                              f"{type(exc).__name__}: {exc}", {"door": door, "layout": layout, "dtype": dtname, "from": a.string, "to": b.string})
                continue
            got = np.array([np.asarray(v) for v in vals]).reshape(idx.shape) if isinstance(built, list) else vals[0]
            # the unit the numbers are in
            if door in PAIR_DOORS:
                ratio, rcl, tolu, target = a.scale / b.scale, rc, a.tol + b.tol, b.string
            else:
                rd = read_unit(unit_back)
                if rd is None or rd[1] != a.dim:
                    rec.count("data_base_unit_unreadable")       # C10's subject
                    continue
                ratio = a.scale / rd[0]
                rcl = rclass(ratio, a.inexact)
                tolu, target = a.tol + 4e-15, unit_back
            h, l = exp_for(ratio)
            if not factor_fits(ratio, working_format(dt, inplace)):
                stress, smask = "factor-out-of-format", np.ones(len(data), bool)
            elif inplace and int_beyond_own_float(data).any():
                stress, smask = "int-beyond-own-float", int_beyond_own_float(data)
            else:
                stress, smask = None, np.zeros(len(data), bool)
            fmt = None
            if isinstance(built, list) and not isinstance(vals[0], np.ndarray):
                # a Python float/complex (to_value of a quantity) does not show the format it was computed in: the conversion of
                # data of n bytes is held in the float of n bytes (at least 2, at most a double) - C17's rule, taken as given here
                fmt = np.dtype("f%d" % min(8, max(2, real_dtype(dt).itemsize if dt.kind in "fc" else dt.itemsize)))
                rec.count("data_python_scalar_results")
            res = judge(got, idx, data, h, l, tolu, smask, fmt)
            if res is None:
                rec.violation(f"C02:data:{door}:shape:{dtname}", f"{dtname} data of shape {idx.shape} through {door} ({layout}) came back "
                              f"with shape {np.asarray(got).shape}", {"door": door, "layout": layout, "dtype": dtname})
                continue
            if stress:
                rec.count("data_stress:" + stress)
            for part in ("plain", "stress"):
                nj, ns, kind, p = res[part]
                rec.count("data_elems_judged", nj)
                rec.count("data_elems_skipped_range", ns)
                if nj == 0:
                    continue
                if kind is None:
                    if part == "plain":
                        rec.ok(("data", door, layout, dtname, rcl))
                        rec.reach(f"data|{door}|{dtname}")
                        rec.reach(f"data|{rcl}|{dtname}|{grp}")
                        for c in ("data_door:" + door, "data_dtype:" + dtname, "data_ratio:" + rcl, "data_layout:" + layout):
                            rec.count(c)
                    else:
                        rec.ok(("data-stress", stress, grp, dtname))
                        rec.count("data_stress_held:" + stress)
                    continue
                target = str(target)
                gv = np.asarray(got)[tuple(np.argwhere(idx == p)[0])]
                ev = float(h[p]) if h.ndim == 1 else complex(h[p][0], h[p][1])
                desc = (f"{dtname} datum {data[p]!r} [{a.string}] through {door} ({layout}) -> {gv!r} [{target}]; "
                        f"x*scale({a.string})/scale({target}) = {ev!r} (ratio {float(ratio)!r}, class {rcl}, result held as "
                        f"{np.asarray(got).dtype}, failure kind {kind})")
                case = {"door": door, "layout": layout, "dtype": dtname, "from": a.string, "to": target, "datum": repr(data[p]),
                        "got": repr(gv), "expected": repr(ev), "kind": kind}
                if part == "stress":
                    key = f"C02:data:{grp}:{stress}"
                else:
                    key = f"C02:data:{door}:{kind}:{dtname}:{rcl}"
                rec.violation(key, desc, case)


def work_units(tier, seed):
    """[(pair, dtype name)] of the tier: the enumerated pairs (seed-independent) first, then the seeded random pairs.
    thorough = the pairs of quick plus about as many again (6 per (family, ratio class) cell, 120 more random ones), same doors and dtypes"""
    pairs = quick_pairs(seed)
    if tier != "quick":
        pairs = pairs + [p for p in quick_pairs(seed, per_cell=6, nrandom=120) if p not in set(pairs)]
    return [(p, d) for p in pairs for d in DTYPES]


def run_batch(unyt, rec, tier, seed, part, nparts):
    cache = {}

    def uobj(s):
        if s not in cache:
            cache[s] = unyt.Unit(s)
        return cache[s]

    units = work_units(tier, seed)
    deep = tier != "quick"
    # the base doors depend on the source only: each (source, dtype) once
    for n, (pair, dtname) in enumerate(units):
        if (n // len(DTYPES) + n) % nparts != part:
            continue
        pi = pair[0] * 131 + pair[1]
        di = DTYPES.index(dtname)
        rot = int(seed) if deep else 0
        lays = [LAYOUTS[(pi + di + k + rot) % len(LAYOUTS)] for k in range(len(PAIR_DOORS))]
        run_unit(unyt, rec, seed, pair, dtname, PAIR_DOORS, lays, uobj)
    srcs = sorted({p[0] for p, _ in units})
    todo = [(s, d) for s in srcs for d in DTYPES]
    for n, (s, dtname) in enumerate(todo):
        if (n // len(DTYPES) + n) % nparts != part:
            continue
        di = DTYPES.index(dtname)
        rot = int(seed) if deep else 0
        lays = [LAYOUTS[(s + di + k + rot) % len(LAYOUTS)] for k in range(len(BASE_DOORS))]
        run_unit(unyt, rec, seed, (s, s, "unity"), dtname, BASE_DOORS, lays, uobj)
    if part == 0:
        xs = expressions()
        rec.sample({"data-family": "work units", "n": len(units), "first": [xs[units[0][0][0]].string, xs[units[0][0][1]].string, units[0][1]]})


STRESS = ("int-product-beyond-dtype", "int-beyond-result-mantissa", "near-dtype-limit", "float-full-mantissa", "factor-out-of-format",
          "int-beyond-own-float")
DECIDING = (["data_calls", "data_elems_judged"] + ["data_door:" + d for d in DOORS] + ["data_dtype:" + d for d in DTYPES]
            + ["data_ratio:" + c for c in RCLASSES] + ["data_layout:" + l for l in LAYOUTS] + ["data_stress:" + s for s in STRESS])


def catalogue():
    """cells every run must reach: door x dtype (in-place doors cannot take 1-byte integers) and, for the pair doors,
    ratio class x dtype x {copy, inplace} wherever the data's float format can hold a ratio of that class"""
    cat = set()
    for d in DOORS:
        for dt in DTYPES:
            if d in INPLACE and np.dtype(dt).itemsize == 1:
                continue
            cat.add(f"data|{d}|{dt}")
    xs = expressions()
    for i, j, rc in quick_pairs(0, nrandom=0):      # the enumerated pairs (every tier runs them, whatever the seed)
        ratio = xs[i].scale / xs[j].scale
        for dt in DTYPES:
            for grp in ("copy", "inplace"):
                if grp == "inplace" and np.dtype(dt).itemsize == 1:
                    continue
                if factor_fits(ratio, working_format(dt, grp == "inplace")):
                    cat.add(f"data|{rc}|{dt}|{grp}")
    return cat
