"""C18 passive observer: snapshot-compare of every operand around every tapped call (and around explicitly declared
"manual" events for entry points that have no tap).

    obs = Passive(); h = taps.install(observers=[obs]); ... workload ...; h.uninstall(); d = obs.dump()

One *event* = one depth-0 tapped call (nested tapped calls are only counted: whatever they do to an object the caller can
see shows up in the depth-0 comparison).  The operands of the event (receiver, positional and keyword arguments, elements
of list/tuple arguments) are split into

    targets  the objects the call is documented to write into: receiver of convert_to_*, receiver of __setitem__, every
             out= array, the first operand of ufunc.at, the destination of copyto/put/place/putmask/put_along_axis/
             fill_diagonal, the receiver of a manual in-place event;
    inputs   everything else.

Oracles (the statement of C18, evaluated on snapshots only - the judged function is never called by the oracle, the
"corresponding copying call" of clause (c) is the library's own documented copying twin run on *copies taken before the
call*, as the property demands):

    (a) every input is bit-identical afterwards: bytes, dtype, shape, unit (expression, base value, base offset,
        dimensions) and - for views - every byte of the buffer it is a view of.  Inputs that overlap a target in memory
        are exempt from the byte comparison (the call was asked to write there).
    (b) the call raised: every target still has the same numbers (by value) and the same unit; bytes of the underlying
        buffer outside the target's extent are unchanged.  A changed dtype with equal values is a note (DESIGN 4.3).
    (c) the call returned: inputs as in (a); bytes of the underlying buffer outside the target's extent unchanged; the
        target holds exactly the numbers (cast to its dtype) the copying twin returns for the pre-call copies.

Mechanism keys: C18:<op id>:<failure kind>[:<detail>][:<exception class>]:<operand class>, all structural.
"""
import inspect
import os
import sys

import numpy as np

from vf.monitors import taps

MAX_ROOT = 1 << 22          # buffers larger than this are not snapshotted as a whole (counted)
INPLACE_FUNCS = {"copyto": ("dst", 0), "fill_diagonal": ("a", 0), "place": ("arr", 0), "put": ("a", 0),
                 "put_along_axis": ("arr", 0), "putmask": ("a", 0)}
COPY_TWIN = {"convert_to_units": "in_units", "convert_to_base": "in_base", "convert_to_cgs": "in_cgs",
             "convert_to_mks": "in_mks", "convert_to_equivalent": "to_equivalent"}
_sig_cache = {}


def _Unit():
    from unyt.unit_object import Unit
    return Unit


def nd(x):
    return x.view(np.ndarray) if type(x) is not np.ndarray else x


def root_of(x):
    r = x
    while isinstance(getattr(r, "base", None), np.ndarray):
        r = r.base
    return r


def raw_bytes(root):
    """the memory of a buffer-owning array in memory order, as a uint8 copy; None when it cannot be taken cheaply"""
    r = nd(root)
    if r.dtype.kind in "OV" or r.nbytes > MAX_ROOT:
        return None
    if not (r.flags.c_contiguous or r.flags.f_contiguous):
        return None
    try:
        return np.frombuffer(r.ravel(order="K").tobytes(), dtype=np.uint8)
    except Exception:
        return None


def extent_mask(x, root):
    """boolean mask over the raw bytes of root marking the bytes x can address; None if not computable"""
    r = nd(root)
    try:
        off = x.__array_interface__["data"][0] - r.__array_interface__["data"][0]
    except Exception:
        return None
    n = r.nbytes
    m = np.zeros(n, dtype=bool)
    if x.size == 0:
        return m
    isz = x.dtype.itemsize
    # lowest / highest address reached
    lo = off + sum(min(0, s * (d - 1)) for s, d in zip(x.strides, x.shape))
    hi = off + sum(max(0, s * (d - 1)) for s, d in zip(x.strides, x.shape)) + isz
    if lo < 0 or hi > n:
        return None
    v = np.lib.stride_tricks.as_strided(m[off:] if off < n else m[n - 1:], shape=tuple(x.shape) + (isz,),
                                        strides=tuple(x.strides) + (1,), writeable=True)
    v[...] = True
    return m


def usnap(u):
    return (u.expr, u.base_value, u.base_offset, u.dimensions)


def usnap_eq(a, b):
    if a is None or b is None:
        return a is b
    try:
        return (a[0] is b[0] or a[0] == b[0]) and _same_number(a[1], b[1]) and _same_number(a[2], b[2]) and \
            (a[3] is b[3] or a[3] == b[3])
    except Exception:
        return False


def _same_number(x, y):
    return x == y or (x != x and y != y)


def ushow(s):
    if s is None:
        return None
    try:
        return [str(s[0]), float(s[1]), float(s[2] or 0.0), str(s[3])]
    except Exception:
        return repr(s)[:120]


def oclass(x):
    """structural class of an operand, used in keys and coverage cells"""
    if isinstance(x, np.ndarray):
        k = x.dtype.kind
        if k in "iu":
            d = "int8" if x.dtype.itemsize == 1 else "int"
        else:
            d = {"f": "float", "c": "complex", "b": "bool"}.get(k, "other")
        if not hasattr(x, "units"):
            d = "bare-" + d
        r = root_of(x)
        if r is not x and (r.size != x.size or not (x.flags.c_contiguous or x.flags.f_contiguous)):
            m = "view"
        elif x.ndim == 0:
            m = "scalar"
        else:
            m = "own"
        return d + "-" + m
    if getattr(x, "is_Unit", False):
        try:
            c = x.expr.as_coeff_Mul()[0]
            return "unit-coeff" if c != 1 else ("unit-offset" if x.base_offset else "unit")
        except Exception:
            return "unit"
    return type(x).__name__


def kclass(ocls):
    """operand class as used in mechanism keys: dtype family only (own/view/scalar stay in the coverage cells)"""
    for suf in ("-own", "-view", "-scalar"):
        if ocls.endswith(suf):
            return ocls[:-len(suf)]
    return ocls


class _A:
    """snapshot of one array operand"""
    __slots__ = ("obj", "path", "dtype", "shape", "data", "uobj", "us", "root", "raw", "mask", "vals", "ocls", "skipped", "ro")


class _U:
    __slots__ = ("obj", "path", "us", "ocls")


def snap_array(x, path, as_target, keep_vals):
    s = _A()
    s.obj = x; s.path = path; s.dtype = x.dtype; s.shape = x.shape; s.ocls = oclass(x); s.skipped = None
    s.ro = not x.flags.writeable      # a target the caller is not allowed to write to: the call has to fail, leaving it as it was
    v = nd(x)
    s.data = None if v.dtype.kind == "O" else (v.tobytes() if v.nbytes <= MAX_ROOT else None)
    if s.data is None:
        s.skipped = "object-or-huge"
    u = getattr(x, "units", None)
    s.uobj = u
    s.us = usnap(u) if getattr(u, "is_Unit", False) else None
    s.vals = v.copy() if keep_vals and v.dtype.kind != "O" and v.nbytes <= MAX_ROOT else None
    s.root = None; s.raw = None; s.mask = None
    r = root_of(x)
    if r is not x:
        raw = raw_bytes(r)
        if raw is not None:
            s.root = r
            if as_target:
                m = extent_mask(v, r)
                if m is not None:
                    s.mask = ~m
                    s.raw = raw[s.mask].tobytes()
                else:
                    s.root = None
            else:
                s.raw = raw.tobytes()
    return s


def flatten(obj, path, out, depth=0):
    if isinstance(obj, np.ndarray):
        out.append((path, obj))
    elif getattr(obj, "is_Unit", False):
        out.append((path, obj))
    elif isinstance(obj, (list, tuple)) and depth < 3 and len(obj) <= 64:
        for i, e in enumerate(obj):
            flatten(e, path + "[]", out, depth + 1)
    elif isinstance(obj, dict) and depth < 2 and len(obj) <= 16:
        for k, e in obj.items():
            flatten(e, path + "{}", out, depth + 1)


def deep_copy(obj, memo, depth=0, promote=()):
    """copy of an operand structure with fresh array buffers (same layout class), Unit objects shared; arrays whose id is
    in `promote` (integer out= targets that are also inputs) are copied as the float type of the same item size, which is
    what the library documents it does to an integer target before operating on it"""
    if isinstance(obj, np.ndarray):
        k = id(obj)
        if k in memo:
            return memo[k]
        v = nd(obj)
        c = _layout_copy(v)
        if k in promote and v.dtype.kind in "iu" and v.dtype.itemsize > 1:
            c = c.astype("f" + str(v.dtype.itemsize))
        if type(obj) is not np.ndarray:
            c = c.view(type(obj))
            for a in ("units", "name"):
                if hasattr(obj, a):
                    try:
                        setattr(c, a, getattr(obj, a))
                    except Exception:
                        pass
        memo[k] = c
        return c
    if isinstance(obj, list) and depth < 4:
        return [deep_copy(e, memo, depth + 1, promote) for e in obj]
    if isinstance(obj, tuple) and depth < 4 and type(obj) is tuple:
        return tuple(deep_copy(e, memo, depth + 1, promote) for e in obj)
    if isinstance(obj, dict) and depth < 3:
        return {k: deep_copy(e, memo, depth + 1, promote) for k, e in obj.items()}
    return obj


def _layout_copy(v):
    """copy of ndarray v living in a copy of its whole underlying buffer with the same offset and strides, so that NumPy
    takes the same inner loops (contiguous / strided) for the copy as for the original"""
    r = root_of(v)
    if r is not v and r.dtype.kind not in "OV" and r.nbytes <= MAX_ROOT:
        rn = nd(r)
        if (rn.flags.c_contiguous or rn.flags.f_contiguous) and rn.dtype.itemsize == v.dtype.itemsize:
            try:
                off = v.__array_interface__["data"][0] - rn.__array_interface__["data"][0]
                lo = off + sum(min(0, st * (d - 1)) for st, d in zip(v.strides, v.shape))
                hi = off + sum(max(0, st * (d - 1)) for st, d in zip(v.strides, v.shape)) + v.dtype.itemsize
                if v.size and 0 <= lo and hi <= rn.nbytes:
                    buf = np.frombuffer(bytearray(rn.ravel(order="K").tobytes()), dtype=np.uint8)
                    return np.ndarray(v.shape, dtype=v.dtype, buffer=buf, offset=off, strides=v.strides)
            except Exception:
                pass
    return np.array(v, order="K", copy=True)


def _strip(o, depth=0):
    """the operand without unyt: arrays as bare ndarrays (0-d ones stay 0-d arrays: NumPy casts those by its array path), containers kept"""
    if isinstance(o, np.ndarray):
        return nd(o)
    if isinstance(o, list) and depth < 4:
        return [_strip(e, depth + 1) for e in o]
    if type(o) is tuple and depth < 4:
        return tuple(_strip(e, depth + 1) for e in o)
    return o


def func_name(func):
    mod = getattr(func, "__module__", "") or ""
    name = getattr(func, "__name__", repr(func))
    for sub in ("linalg", "fft", "lib"):
        if mod.startswith("numpy." + sub) and sub != "lib":
            return sub + "." + name
    return name


def _bind(func, args, kwargs):
    """(bound-arguments or None)"""
    sig = _sig_cache.get(func, False)
    if sig is False:
        try:
            sig = inspect.signature(func)
        except (TypeError, ValueError):
            sig = None
        _sig_cache[func] = sig
    if sig is None:
        return None
    try:
        return sig.bind(*args, **kwargs)
    except TypeError:
        return None


class Passive(taps.Observer):
    def __init__(self, differential=True, raise_sites=False):
        self.context = None
        self.differential = differential
        self.busy = False
        self.manual_depth = 0
        self.viol = {}        # key -> [count, desc, case]
        self.notes = {}
        self.cells = {}       # cell -> number of oracle evaluations that held
        self.counters = {}
        self.reached = set()
        self.sites = set()
        self.fault = None     # label of the injected fault, set by an active driver (coverage cell only, never in keys)
        self.subject = None   # (object, dtype string, layout name) declared by an active driver: the operand of the current call whose exact
        #                       dtype and memory layout are the swept dimension; its comparison is recorded under the sub-monitor
        #                       'rescaled-operand' with those two as cell coordinates (never in keys)
        self.spelled = None   # (object, spelling family, route, partner kind) declared by an active driver: the operand (array or Unit) of
        #                       the current call that carries a unit written in a non-reduced compound spelling; its comparison is recorded
        #                       under the sub-monitor 'spelled-operand' with those three as cell coordinates (never in keys)
        self.ro_layout = None  # layout name of the read-only target of the current call, declared by an active driver (cell coordinate only)
        self.datadep = None   # (object, in-place family, data class, carrier, policy) declared by an active driver: the in-place target (or, for a
        #                       copying call, the input) of the current call whose DATA are the swept dimension (out-of-domain magnitudes, IEEE
        #                       specials, values at the edge of the formula's domain); its comparison is recorded under the sub-monitor
        #                       'data-class-target' / 'data-class-input' with those as cell coordinates (never in keys)
        self.strict = False   # the current call runs under the caller's strict floating-point policy (np.errstate(all="raise"), RuntimeWarning
        #                       as error): the observer's own arithmetic is shielded from it, the NumPy-alone replay runs under it
        self._active_inplace = 0
        self._tool = None
        if raise_sites:
            self._start_raise_sites()

    # ------------------------------------------------------------------ bookkeeping
    def _count(self, k, n=1):
        self.counters[k] = self.counters.get(k, 0) + n

    def _note(self, k, n=1):
        self.notes[k] = self.notes.get(k, 0) + n

    def _ok(self, cell):
        self.cells[cell] = self.cells.get(cell, 0) + 1

    def _violation(self, key, desc, case):
        v = self.viol.get(key)
        if v is None:
            case = dict(case)
            case["context"] = self.context if isinstance(self.context, (str, int, float, type(None), list, dict)) else repr(self.context)
            self.viol[key] = [1, desc[:600], case]
        else:
            v[0] += 1

    def dump(self):
        return {"viol": self.viol, "notes": self.notes, "cells": {"|".join(map(str, c)): n for c, n in self.cells.items()},
                "counters": self.counters,
                "reached": sorted(self.reached), "sites": sorted(self.sites)}

    def merge_into(self, rec):
        merge_dump(self.dump(), rec)

    # ------------------------------------------------------------------ raise sites (coverage evidence only)
    def _start_raise_sites(self):
        mon = getattr(sys, "monitoring", None)
        if mon is None:
            return
        prefix = None
        try:
            import unyt
            prefix = os.path.dirname(os.path.realpath(unyt.__file__)) + os.sep
        except Exception:
            return
        for tid in (4, 3):
            try:
                mon.use_tool_id(tid, "vf-c18")
                self._tool = tid
                break
            except ValueError:
                continue
        if self._tool is None:
            return
        obs = self

        def on_raise(code, offset, exc):
            if obs._active_inplace and code.co_filename.startswith(prefix):
                try:
                    ln = sys._getframe(1).f_lineno
                except Exception:
                    ln = 0
                obs.sites.add(f"{os.path.basename(code.co_filename)}:{code.co_name}:{ln}:{type(exc).__name__}")

        mon.register_callback(self._tool, mon.events.RAISE, on_raise)
        mon.set_events(self._tool, mon.events.RAISE)

    def stop(self):
        if self._tool is not None:
            mon = sys.monitoring
            mon.set_events(self._tool, 0)
            mon.register_callback(self._tool, mon.events.RAISE, None)
            mon.free_tool_id(self._tool)
            self._tool = None

    # ------------------------------------------------------------------ classification of tapped calls
    def classify(self, ev):
        """-> (op id, [(path, obj)] inputs, [(path, obj)] targets, twin or None)"""
        k = ev.kind
        ins, tg = [], []
        twin = None
        if k == "ufunc":
            ufunc, method = ev.args[0], ev.args[1]
            operands = ev.args[2:]
            kw = ev.kwargs
            out = kw.get("out")
            outs = ()
            if out is not None:
                outs = out if isinstance(out, tuple) else (out,)
            for i, o in enumerate(outs):
                if isinstance(o, np.ndarray):
                    tg.append((f"out{i}", o))
            op = f"ufunc/{ufunc.__name__}/{method}"
            if method == "at" and operands and isinstance(operands[0], np.ndarray):
                tg.append(("in0", operands[0]))
                operands_in = operands[1:]
                for i, o in enumerate(operands_in):
                    flatten(o, f"in{i + 1}", ins)
            else:
                for i, o in enumerate(operands):
                    flatten(o, f"in{i}", ins)
            for name, o in kw.items():
                if name != "out":
                    flatten(o, "kw:" + name, ins)
            direct = any(isinstance(o, np.ndarray) and hasattr(o, "units") for o in operands)
            if tg and method != "at" and not direct:
                # call template "the only unyt operand is the out= buffer": the copying form of such a call does not involve
                # unyt at all, so there is no twin; one template id for all ufuncs of the same arity
                op = f"ufunc/{ {1: 'unary', 2: 'binary'}.get(ufunc.nin, 'nary') }/{method}/bare-inputs/out"
                self.reached.add(f"ufunc/{ufunc.__name__}/{method}/bare-inputs/out")
            elif tg and method != "at":
                op += "/out"
                if self.differential:
                    nouts = len(outs)
                    slots = [i for i, o in enumerate(outs) if isinstance(o, np.ndarray)]
                    where = kw.get("where", True)

                    def twin(copies, ufunc=ufunc, method=method, nouts=nouts, slots=slots):
                        cargs, ckw = copies
                        ckw = {a: b for a, b in ckw.items() if a != "out"}
                        r = getattr(ufunc, method)(*cargs[2:], **ckw)
                        if nouts > 1 or isinstance(r, tuple):
                            return [r[i] for i in slots]
                        return [r]
                    twin.where = where if (method == "__call__" and where is not True) else None
        elif k == "function":
            func, types, args, kwargs = ev.args[:4]
            name = func_name(func)
            op = "func/" + name
            b = _bind(func, args, kwargs)
            out = None
            outname = None
            if b is not None and "out" in b.arguments:
                out = b.arguments["out"]; outname = "out"
            elif "out" in kwargs:
                out = kwargs["out"]; outname = "out"
            tids = set()
            outs = ()
            if out is not None:
                outs = out if isinstance(out, tuple) else (out,)
                for i, o in enumerate(outs):
                    if isinstance(o, np.ndarray):
                        tg.append((f"out{i}", o)); tids.add(id(o))
                if tg:
                    op += "/out"
            if name in INPLACE_FUNCS:
                pname, pos = INPLACE_FUNCS[name]
                dst = kwargs.get(pname, args[pos] if len(args) > pos else None)
                if isinstance(dst, np.ndarray):
                    tg.append(("dst", dst)); tids.add(id(dst))
            copy_arg = b.arguments.get("copy", None) if b is not None else kwargs.get("copy", None)
            if copy_arg is False and name in ("nan_to_num",) and args and isinstance(args[0], np.ndarray):
                tg.append(("dst", args[0])); tids.add(id(args[0]))
            if b is not None and b.arguments.get("overwrite_input") is True:
                # documented permission to use the input array as scratch space (median, percentile, quantile, nan* variants):
                # its contents afterwards are documented as undefined, so it is neither an input nor a target
                first = next(iter(b.arguments.values()), None)
                if isinstance(first, np.ndarray):
                    tids.add(id(first))
                    self._count("scratch-operand-not-judged:" + name)
            for i, o in enumerate(args):
                if id(o) not in tids:
                    flatten(o, f"arg{i}", ins)
            for n_, o in kwargs.items():
                if id(o) not in tids and n_ != "out":
                    flatten(o, "kw:" + n_, ins)
            if self.differential and outname and tg and name not in INPLACE_FUNCS and b is not None:
                slots = [i for i, o in enumerate(outs) if isinstance(o, np.ndarray)]

                def twin(copies, func=func, args=args, kwargs=kwargs, slots=slots, nouts=len(outs)):
                    (cf, ct, cargs, ckwargs), _ = copies
                    bb = _bind(func, cargs, ckwargs)
                    bb.arguments.pop("out", None)
                    r = func(*bb.args, **bb.kwargs)
                    if nouts > 1 and isinstance(r, tuple):
                        return [r[i] for i in slots]
                    return [r]
                twin.where = None
        elif k == "inplace":
            op = ev.name
            if ev.name != "convert_to_equivalent" and (ev.kwargs.get("equivalence") is not None or
                                                       (ev.name == "convert_to_units" and len(ev.args) > 1 and ev.args[1] is not None)):
                op += "/equiv"       # goes through the equivalence chain (np.power/np.sqrt steps), not a plain rescaling
            tg.append(("self", ev.self_))
            for i, o in enumerate(ev.args):
                flatten(o, f"arg{i}", ins)
            for n_, o in ev.kwargs.items():
                flatten(o, "kw:" + n_, ins)
            if self.differential:
                tw = COPY_TWIN.get(ev.name)
                has_equiv = ev.kwargs.get("equivalence") is not None
                if ev.name in ("convert_to_base", "convert_to_cgs", "convert_to_mks"):
                    nmax = 1 if ev.name == "convert_to_base" else 0
                    if has_equiv or len(ev.args) > nmax or (set(ev.kwargs) - {"unit_system", "equivalence"}):
                        tw = None
                if tw is not None:
                    def twin(copies, tw=tw):
                        (cself, cargs), ckw = copies
                        ckw = {a: b for a, b in ckw.items() if not (a == "equivalence" and b is None and tw in ("in_base", "in_cgs", "in_mks"))}
                        return [getattr(cself, tw)(*cargs, **ckw)]
                    twin.where = None
        elif k == "setitem":
            op = "setitem"
            tg.append(("self", ev.self_))
            for i, o in enumerate(ev.args):
                flatten(o, ("item", "value")[i] if i < 2 else f"arg{i}", ins)
            if self.differential and len(ev.args) == 2:
                def twin(copies):
                    (cself, (citem, cvalue)), _ = copies
                    v = cvalue
                    u = getattr(cself, "units", None)
                    vu = getattr(v, "units", None)
                    if vu is not None and u is not None and isinstance(v, np.ndarray) and \
                            not (vu.dimensions == 1 and vu.base_value == 1.0):   # a plain dimensionless value is taken as a bare number (DESIGN 4.12)
                        v = v.to(u)          # the copying conversion the property refers to
                    tmp = nd(cself)
                    va = np.asarray(v)
                    if tmp.dtype.kind in "iu" and va.dtype.kind in "fciu" and va.dtype != tmp.dtype:
                        # a value the integer target cannot hold (NaN, +-inf, beyond its range) is cast in an implementation-defined way that
                        # differs between NumPy's scalar and array paths: no copying numbers to compare with
                        ii = np.iinfo(tmp.dtype)
                        re_ = va.real if va.dtype.kind == "c" else va
                        with np.errstate(all="ignore"):
                            fits = (re_ >= ii.min) & (re_ <= ii.max) if va.dtype.kind in "iu" else (np.isfinite(re_) & (re_ > float(ii.min) - 1) & (re_ < float(ii.max) + 1))
                        if not np.all(fits):
                            self._count("twin-not-comparable:value-outside-integer-target-range")
                            return None
                    tmp[citem] = va
                    return [tmp]
                twin.where = None
        else:   # copying, getitem, unitop
            op = ev.name
            flatten(ev.self_, "self", ins)
            for i, o in enumerate(ev.args):
                flatten(o, f"arg{i}", ins)
            for n_, o in ev.kwargs.items():
                flatten(o, "kw:" + n_, ins)
        return op, ins, tg, twin

    # ------------------------------------------------------------------ taps.Observer protocol
    def pre(self, ev):
        if self.strict and not self.busy:
            import warnings
            with np.errstate(all="ignore"), warnings.catch_warnings():
                warnings.simplefilter("ignore")
                return self._pre(ev)
        return self._pre(ev)

    def _pre(self, ev):
        if self.busy:
            return None
        self._count("tap:" + ev.name + (":nested" if (ev.depth or self.manual_depth) else ""))
        if ev.depth or self.manual_depth:
            return None
        self.busy = True
        try:
            op, ins, tg, twin = self.classify(ev)
            copies = None
            replay = None
            if twin is not None:
                memo = {}
                if ev.kind == "inplace" or ev.kind == "setitem":
                    copies = ((deep_copy(ev.self_, memo), deep_copy(ev.args, memo)), deep_copy(ev.kwargs, memo))
                else:
                    promote = {id(o) for _, o in tg}
                    copies = (deep_copy(ev.args, memo, 0, promote), deep_copy(ev.kwargs, memo, 0, promote))
            if tg and self.differential and ev.kind in ("ufunc", "function"):
                replay = self._numpy_replay(ev, tg)
            elif (self.strict or self.datadep is not None) and self.differential and ev.kind == "setitem" and len(ev.args) == 2:
                replay = self._numpy_replay_setitem(ev)
            tok = self.begin(op, ins, tg, twin, copies, replay)
        finally:
            self.busy = False
        return tok

    def post(self, ev, token, result, exc):
        if token is None or self.busy:
            return
        if exc is not None and not isinstance(exc, Exception):
            # the call was interrupted from outside (a driver's time limit, KeyboardInterrupt): not an outcome of the call, nothing to judge
            if token[2]:
                self._active_inplace -= 1
            self._count("event:interrupted-not-judged")
            return
        self.busy = True
        try:
            if self.strict:
                import warnings
                with np.errstate(all="ignore"), warnings.catch_warnings():
                    warnings.simplefilter("ignore")
                    self.end(token, exc)
            else:
                self.end(token, exc)
        finally:
            self.busy = False

    # ------------------------------------------------------------------ manual events (entry points without a tap)
    def manual(self, op, inputs=(), targets=(), twin=None):
        """context manager: `with obs.manual("ndarray.fill", inputs=[v], targets=[a]) as m: a.fill(v)`;
        twin: zero-argument callable evaluated *before* the body on copies the caller made, returning the list of expected
        target contents (or None)."""
        return _Manual(self, op, inputs, targets, twin)

    # ------------------------------------------------------------------ engine
    def _numpy_replay(self, ev, tg):
        """closure replaying the call on *stripped* pre-call copies (bare ndarrays, own out= copies): tells whether NumPy
        alone, without unyt in the loop, also raises after having written into its out= buffer"""
        memo = {}
        cargs = deep_copy(ev.args, memo); ckw = deep_copy(ev.kwargs, memo)
        tcopies = [memo.get(id(o)) for _, o in tg]
        variants = [(cargs, ckw, tcopies)]
        promote = {id(o) for _, o in tg if nd(o).dtype.kind in "iu" and nd(o).dtype.itemsize > 1}
        if promote and (self.strict or self.datadep is not None):
            # second variant: integer targets already converted to the float type of the same item size, which is what the library documents
            # it does to an integer target before operating on it (a failure of the loop itself - FloatingPointError under the caller's strict
            # policy - then is NumPy's on the float buffer)
            memo2 = {}
            cargs2 = deep_copy(ev.args, memo2, 0, promote); ckw2 = deep_copy(ev.kwargs, memo2, 0, promote)
            variants.append((cargs2, ckw2, [memo2.get(id(o)) for _, o in tg]))

        def strip(o, depth=0):
            if isinstance(o, np.ndarray):
                return nd(o)
            if isinstance(o, list) and depth < 4:
                return [strip(e, depth + 1) for e in o]
            if type(o) is tuple and depth < 4:
                return tuple(strip(e, depth + 1) for e in o)
            if isinstance(o, dict) and depth < 3:
                return {k: strip(e, depth + 1) for k, e in o.items()}
            return o

        def replay(ename=None):
            res = (None, False)
            for cargs, ckw, tcopies in variants:
                before = [None if t is None else nd(t).copy() for t in tcopies]
                try:
                    if ev.kind == "ufunc":
                        getattr(cargs[0], cargs[1])(*strip(cargs[2:]), **strip(ckw))
                    else:
                        cargs[0](*strip(cargs[2]), **strip(cargs[3]))
                    res = (None, False)
                except Exception as e:
                    changed = any(t is not None and not _num_equal(nd(t), b) for t, b in zip(tcopies, before))
                    res = (type(e).__name__, changed)
                if ename is None or (res[0] == ename and res[1]):
                    break
            return res
        return replay

    def _numpy_replay_setitem(self, ev):
        """closure replaying an item assignment on stripped pre-call copies (bare ndarray target, bare value): tells whether NumPy alone,
        under the caller's strict floating-point policy, also raises after having written the element (cast overflow / invalid cast)"""
        memo = {}
        ct = deep_copy(ev.self_, memo)
        citem, cval = deep_copy(ev.args, memo)

        def replay(ename=None):
            t = nd(ct)
            before = t.copy()
            v = cval
            u = getattr(ct, "units", None)
            vu = getattr(v, "units", None)
            if vu is not None and u is not None and isinstance(v, np.ndarray) and not (vu.dimensions == 1 and vu.base_value == 1.0):
                # the value as the copying conversion delivers it (same rule as the twin of clause (c)); evaluated under the lenient policy
                try:
                    with np.errstate(all="ignore"):
                        v = v.to(u)
                except Exception:
                    return None, False
            try:
                t[citem] = _strip(v)
            except Exception as e:
                return type(e).__name__, not _num_equal(t, before)
            return None, False
        return replay

    def begin(self, op, ins, tg, twin=None, copies=None, replay=None):
        tgt_arrays = [nd(o) for _, o in tg]
        tgt_ids = {id(o) for _, o in tg}
        snaps_in = []
        seen = set()
        for path, o in ins:
            if id(o) in tgt_ids or id(o) in seen:
                continue
            seen.add(id(o))
            if isinstance(o, np.ndarray):
                alias = False
                if tgt_arrays:
                    ov = nd(o)
                    for t in tgt_arrays:
                        if np.may_share_memory(ov, t):
                            alias = True
                            break
                s = snap_array(o, path, False, False)
                if alias:
                    s.data = None; s.raw = None; s.root = None; s.skipped = "aliases-target"
                snaps_in.append(s)
            else:
                u = _U(); u.obj = o; u.path = path; u.us = usnap(o); u.ocls = oclass(o)
                snaps_in.append(u)
        snaps_tg = [snap_array(o, path, True, True) for path, o in tg]
        if tg:
            self._active_inplace += 1
        return (op, snaps_in, snaps_tg, twin, copies, replay)

    def end(self, token, exc):
        op, snaps_in, snaps_tg, twin, copies, replay = token
        self._replay = replay
        if snaps_tg:
            self._active_inplace -= 1
        outcome = "raised" if exc is not None else "returned"
        ename = type(exc).__name__ if exc is not None else None
        self.reached.add(op)
        self._count("event:" + ("inplace" if snaps_tg else "copying") + ":" + outcome)
        # (a) inputs
        for s in snaps_in:
            self._check_input(op, s, outcome, ename)
        # (b)/(c) targets
        for s in snaps_tg:
            if exc is not None:
                self._check_failed_target(op, s, ename)
            else:
                self._check_outside(op, s, "success-outside-changed", None)
        if exc is None and snaps_tg and twin is not None:
            self._check_twin(op, snaps_tg, twin, copies)
        elif exc is None and snaps_tg:
            self._count("no-twin:" + op)

    def _case(self, op, s, **kw):
        d = {"op": op, "operand": s.path, "class": s.ocls}
        d.update(kw)
        return d

    def _check_input(self, op, s, outcome, ename):
        cell = ("input", op, s.path, s.ocls, outcome)
        subj = self.subject
        if subj is not None and s.obj is subj[0]:
            cell = ("rescaled-operand", op, s.path, subj[1], subj[2], outcome)
        spl = self.spelled
        if spl is not None and s.obj is spl[0]:
            cell = ("spelled-operand", op, s.path, spl[1], spl[2], spl[3], outcome)
        dd = self.datadep
        if dd is not None and s.obj is dd[0]:
            cell = ("data-class-input", op, s.path, dd[1], dd[2], dd[4], outcome)
        if isinstance(s, _U):
            now = usnap(s.obj)
            if not usnap_eq(s.us, now):
                if op == "Unit.simplify" and s.path == "self":
                    self._note("Unit.simplify-rewrites-receiver")   # not in the property's list of copying calls
                    return
                self._violation(f"C18:{op}:input-mutated:unit-object:{s.path}:{kclass(s.ocls)}",
                                f"{op}: Unit operand {s.path} was {ushow(s.us)} before the call and is {ushow(now)} afterwards ({outcome})",
                                self._case(op, s, before=ushow(s.us), after=ushow(now), outcome=outcome, exc=ename))
            else:
                self._ok(cell)
            return
        x = s.obj
        bad = None
        if x.dtype != s.dtype:
            bad = ("dtype", str(s.dtype), str(x.dtype))
        elif x.shape != s.shape:
            bad = ("shape", s.shape, x.shape)
        elif s.data is not None and nd(x).tobytes() != s.data:
            bad = ("data", _short(np.frombuffer(s.data, dtype=s.dtype).reshape(s.shape) if s.dtype.kind not in "OV" else None), _short(nd(x)))
        if bad is None:
            u = getattr(x, "units", None)
            if s.us is not None or getattr(u, "is_Unit", False):
                now_obj = usnap(s.uobj) if s.us is not None else None
                now_arr = usnap(u) if getattr(u, "is_Unit", False) else None
                if s.us is not None and not usnap_eq(s.us, now_obj):
                    bad = ("unit-object", ushow(s.us), ushow(now_obj))
                elif not usnap_eq(s.us, now_arr):
                    bad = ("unit", ushow(s.us), ushow(now_arr))
        if bad is None and s.root is not None and s.raw is not None:
            raw = raw_bytes(s.root)
            if raw is not None and raw.tobytes() != s.raw:
                bad = ("base-buffer", "bytes of the viewed buffer", "changed")
        if bad is not None:
            self._violation(f"C18:{op}:input-mutated:{bad[0]}:{s.path}:{kclass(s.ocls)}",
                            f"{op}: operand {s.path} ({s.ocls}) {bad[0]} was {bad[1]} before the call and is {bad[2]} afterwards ({outcome}{' ' + ename if ename else ''})",
                            self._case(op, s, what=bad[0], before=bad[1], after=bad[2], outcome=outcome, exc=ename))
        else:
            if s.skipped:
                self._count("input-bytes-not-compared:" + s.skipped)
            self._ok(cell)

    def _check_outside(self, op, s, kind, ename):
        if s.root is None or s.raw is None:
            if root_of(s.obj) is not s.obj:
                self._count("outside-extent-not-computable")
            return True
        raw = raw_bytes(s.root)
        if raw is None or raw.shape[0] != s.mask.shape[0]:
            self._count("outside-extent-not-computable")
            return True
        if raw[s.mask].tobytes() != s.raw:
            self._violation(f"C18:{op}:{kind}{':' + ename if ename else ''}:{kclass(s.ocls)}",
                            f"{op}: bytes of the underlying buffer outside the extent of target {s.path} ({s.ocls}) changed",
                            self._case(op, s, exc=ename))
            return False
        self._ok(("outside", op, s.ocls, "raised" if ename else "returned"))
        return True

    def _check_failed_target(self, op, s, ename):
        x = s.obj
        cell = ("failed-target", op, ename, s.ocls, getattr(self, "fault", None))
        spl = getattr(self, "spelled", None)
        if spl is not None and x is spl[0]:
            cell = ("spelled-operand", op, "target", spl[1], spl[2], spl[3], "raised")
        elif s.ro:
            cell = ("read-only-target", op, ename, s.ocls, getattr(self, "ro_layout", None))
        dd = getattr(self, "datadep", None)
        if dd is not None and x is dd[0]:
            cell = ("data-class-target", op, dd[1], dd[2], dd[4], "raised", ename)
        bad = None
        u = getattr(x, "units", None)
        if s.us is not None or getattr(u, "is_Unit", False):
            now_arr = usnap(u) if getattr(u, "is_Unit", False) else None
            if not usnap_eq(s.us, now_arr):
                bad = ("unit", ushow(s.us), ushow(now_arr))
            elif s.us is not None and not usnap_eq(s.us, usnap(s.uobj)):
                bad = ("unit-object", ushow(s.us), ushow(usnap(s.uobj)))
        if bad is None and s.vals is not None:
            now = nd(x)
            if now.shape != s.vals.shape:
                bad = ("shape", s.vals.shape, now.shape)
            elif now.dtype == s.vals.dtype:
                if now.tobytes() != s.data and not _num_equal(now, s.vals):
                    bad = ("data", _short(s.vals), _short(now))
            else:
                if _num_equal(now, s.vals):
                    self._note(f"failed-call-relabelled-dtype:{op}:{s.dtype}->{now.dtype}")
                elif s.vals.dtype.kind in "iu" and now.dtype.kind == "f" and now.dtype.itemsize == s.vals.dtype.itemsize and _num_equal(now, s.vals.astype(now.dtype)):
                    # the same relabelling, on integers the float type of the same size cannot hold exactly (2**31-1 -> 2147483648.0): the numbers are
                    # those of the documented conversion of an integer target, rounded by it
                    self._note(f"failed-call-relabelled-dtype:{op}:{s.dtype}->{now.dtype}")
                    self._count("failed-call-relabelled-dtype-rounded")
                else:
                    bad = ("data", _short(s.vals), _short(now))
        ok_out = self._check_outside(op, s, "failed-outside-changed", ename)
        if bad is not None and bad[0] == "data" and getattr(self, "_replay", None) is not None:
            try:
                import warnings
                with warnings.catch_warnings():
                    # NumPy alone under the caller's floating-point policy
                    if getattr(self, "strict", False):
                        warnings.simplefilter("ignore")
                        warnings.simplefilter("error", RuntimeWarning)
                    else:
                        warnings.simplefilter("ignore")
                    with np.errstate(all="raise" if getattr(self, "strict", False) else "ignore"):
                        rname, rchanged = self._replay(ename)
            except Exception:
                rname, rchanged = None, False
            if rname == ename and rchanged:
                # NumPy itself, on bare arrays, raises this exception after having written into out=: not unyt's doing
                self._note(f"numpy-alone-writes-out-then-raises:{op}:{ename}")
                self._ok(("failed-target-numpy-semantics", op, ename, s.ocls) if not (dd is not None and x is dd[0]) else
                         ("data-class-target", op, dd[1], dd[2], dd[4], "raised", ename + "/numpy-alone-does-the-same"))
                return
        if bad is not None and s.ro:
            # what happens to a target the call may not write to is decided before the ufunc loop runs: one template per arity and
            # ufunc method (not one key per ufunc), qualified by the dtype family of the target (integer targets are retyped first)
            fam = kclass(s.ocls).replace("complex", "float")     # float and complex targets take the same path (no retyping), integers another
            self._violation(f"C18:{_ro_template(op)}:failed-target-changed:{bad[0]}:{ename}:read-only-target:{fam}",
                            f"{op} raised {ename} but its read-only target {s.path} ({s.ocls}) {bad[0]} was {bad[1]} before the call and is {bad[2]} afterwards",
                            self._case(op, s, what=bad[0], before=bad[1], after=bad[2], exc=ename))
        elif bad is not None:
            self._violation(f"C18:{op}:failed-target-changed:{bad[0]}:{ename}",
                            f"{op} raised {ename} but its {'read-only ' if s.ro else ''}target {s.path} ({s.ocls}) {bad[0]} was {bad[1]} before the call and is {bad[2]} afterwards",
                            self._case(op, s, what=bad[0], before=bad[1], after=bad[2], exc=ename))
        elif ok_out:
            self._ok(cell)

    def _check_twin(self, op, snaps_tg, twin, copies):
        import warnings
        try:
            with warnings.catch_warnings():
                warnings.simplefilter("ignore")
                with np.errstate(all="ignore"):
                    expected = twin(copies) if copies is not None else twin()
        except Exception as e:
            self._note(f"twin-raised:{op}:{type(e).__name__}")
            self._count("twin-raised")
            return
        if expected is None:
            self._count("no-twin:" + op)
            return
        where = getattr(twin, "where", None)
        dd = self.datadep
        for s, e in zip(snaps_tg, expected):
            now = nd(s.obj)
            ev_ = np.asarray(nd(e) if isinstance(e, np.ndarray) else e)
            cell = ("twin", op, s.ocls)
            if dd is not None and s.obj is dd[0]:
                cell = ("data-class-target", op, dd[1], dd[2], dd[4], "returned", "equals-copying")
            if ev_.shape != now.shape:
                try:
                    ev_ = np.broadcast_to(ev_, now.shape)
                except ValueError:
                    self._violation(f"C18:{op}:differs-from-copying:shape:{kclass(s.ocls)}",
                                    f"{op}: target has shape {now.shape}, the copying call returns shape {ev_.shape}", self._case(op, s))
                    continue
            # when the target keeps a unit of another *scale* than the copying call's result (units with a numeric
            # coefficient such as "3*km": the copying call simplifies to km, the target stays labelled 3*km), "the numbers
            # of the copying call" are compared as the same quantity: the copying numbers are brought to the target's scale
            rescaled = False
            eu0 = getattr(e, "units", None); tu0 = getattr(s.obj, "units", None)
            if getattr(eu0, "is_Unit", False) and getattr(tu0, "is_Unit", False):
                try:
                    se, st_ = usnap(eu0), usnap(tu0)
                    if (se[3] is st_[3] or se[3] == st_[3]) and not (se[2] or 0.0) and not (st_[2] or 0.0) \
                            and se[1] and st_[1] and not _close(se[1], st_[1]) and ev_.dtype.kind in "fc":
                        with np.errstate(all="ignore"):
                            ev_ = ev_ * (se[1] / st_[1])
                        rescaled = True
                        self._count("twin-compared-as-quantity")
                except Exception:
                    pass
            with np.errstate(all="ignore"):
                import warnings as _w
                with _w.catch_warnings():
                    _w.simplefilter("ignore")
                    exp = ev_.astype(now.dtype, casting="unsafe")
            cmp_now = now
            fits_mask = None
            if now.dtype.kind in "iu" and ev_.dtype.kind in "fciu" and ev_.shape == now.shape and ev_.dtype != now.dtype:
                # a copying value the integer target cannot hold (NaN, +-inf, beyond its range) is cast in an implementation-defined way, which
                # differs between NumPy's scalar and array paths: such positions are not compared
                try:
                    ii = np.iinfo(now.dtype)
                    re_ = ev_.real if ev_.dtype.kind == "c" else ev_
                    with np.errstate(all="ignore"):
                        fits = (re_ >= ii.min) & (re_ <= ii.max) if ev_.dtype.kind in "iu" else (np.isfinite(re_) & (re_ > float(ii.min) - 1) & (re_ < float(ii.max) + 1))
                    if not np.all(fits):
                        self._count("twin-not-comparable:value-outside-integer-target-range", int(np.size(fits) - np.count_nonzero(fits)))
                        fits_mask = fits
                except Exception:
                    pass
            if where is None and fits_mask is not None:
                exp = exp[fits_mask]; cmp_now = now[fits_mask]
            elif where is not None:
                # positions not selected by where= are undefined in the copying call: only selected positions are compared
                try:
                    wm = np.broadcast_to(np.asarray(where, dtype=bool), now.shape)
                    if s.vals is not None and s.vals.shape == now.shape and not _num_equal(now[~wm], s.vals[~wm].astype(now.dtype, casting="unsafe")):
                        self._note(f"where-unselected-positions-written:{op}")
                    if fits_mask is not None:
                        wm = wm & fits_mask
                    exp = exp[wm]; cmp_now = now[wm]
                except Exception:
                    self._count("twin-where-not-comparable")
                    continue
            if rescaled:
                if _ulp_close(exp, cmp_now, 8):
                    self._ok(("twin-quantity", op, s.ocls) if not (dd is not None and s.obj is dd[0]) else ("data-class-target", op, dd[1], dd[2], dd[4], "returned", "twin-quantity"))
                else:
                    self._violation(f"C18:{op}:differs-from-copying:quantity:{kclass(s.ocls)}",
                                    f"{op}: target holds {_short(cmp_now)} {tu0} but the corresponding copying call on the pre-call operands gives {_short(np.asarray(nd(e) if isinstance(e, np.ndarray) else e))} {eu0} (another quantity)",
                                    self._case(op, s, target=_short(cmp_now), copying=_short(exp), before=_short(s.vals)))
                continue
            if not (exp.tobytes() == cmp_now.tobytes() or _num_equal(exp, cmp_now)):
                if op.startswith("convert_to_") and now.dtype.kind in "fc" and _feps(now.dtype) > 1e-4:
                    # a 16-bit float cannot hold conversion factors: overflow/underflow of the in-place chain is inherent in the storage type
                    self._count("twin-not-comparable:float16-conversion")
                    continue
                if ev_.dtype != now.dtype:
                    # the copying call computes in another type than the target holds: NumPy picks other loops / rounds elsewhere
                    if ev_.dtype.kind == now.dtype.kind and now.dtype.kind in "fc" and max(_feps(ev_.dtype), _feps(now.dtype)) < 1e-4 \
                            and not _tolerant(op, now.dtype):      # accumulations in another precision are not comparable at all
                        if _ulp_close(exp, cmp_now, 4, max(_feps(ev_.dtype), _feps(now.dtype))):
                            self._ok(("twin-cross-dtype", op, s.ocls) if not (dd is not None and s.obj is dd[0]) else ("data-class-target", op, dd[1], dd[2], dd[4], "returned", "twin-cross-dtype"))
                            continue
                    else:
                        self._count("twin-not-comparable:cross-kind-dtype")
                        continue
                elif _tolerant(op, now.dtype) and _ulp_close(exp, cmp_now, 4):
                    # transcendental / reduction / BLAS loops are not bit-reproducible across memory layouts in NumPy itself
                    self._ok(("twin-ulp", op, s.ocls) if not (dd is not None and s.obj is dd[0]) else ("data-class-target", op, dd[1], dd[2], dd[4], "returned", "twin-ulp"))
                    continue
            now = cmp_now
            if exp.tobytes() == now.tobytes() or _num_equal(exp, now):
                # the label the target carries afterwards is C07's subject (units of out= buffers): recorded only
                eu = getattr(e, "units", None)
                tu = getattr(s.obj, "units", None)
                if getattr(eu, "is_Unit", False) and getattr(tu, "is_Unit", False):
                    su, st = usnap(eu), usnap(tu)
                    if not (_close(su[1], st[1]) and _same_number(su[2] or 0.0, st[2] or 0.0) and (su[3] is st[3] or su[3] == st[3])):
                        self._note(f"target-label-differs-from-copying-result:{op}")
                self._ok(cell)
                continue
            kind = "rounding" if _ulp_close(exp, now) else "value"
            self._violation(f"C18:{op}:differs-from-copying:{kind}:{kclass(s.ocls)}",
                            f"{op}: target holds {_short(now)} but the corresponding copying call on the pre-call operands gives {_short(exp)}",
                            self._case(op, s, target=_short(now), copying=_short(exp), before=_short(s.vals)))


class _Manual:
    def __init__(self, obs, op, inputs, targets, twin):
        self.obs = obs; self.op = op; self.inputs = inputs; self.targets = targets; self.twin = twin
        self.tok = None

    def __enter__(self):
        o = self.obs
        ins = []
        for i, x in enumerate(self.inputs):
            if isinstance(x, tuple) and len(x) == 2 and isinstance(x[0], str):
                flatten(x[1], x[0], ins)
            else:
                flatten(x, f"arg{i}", ins)
        tg = []
        for i, x in enumerate(self.targets):
            if isinstance(x, tuple) and len(x) == 2 and isinstance(x[0], str):
                tg.append(x)
            else:
                tg.append((f"target{i}" if i else "self", x))
        o._count("manual:" + self.op)
        o.busy = True
        try:
            expected = None
            tw = None
            if self.twin is not None and o.differential:
                try:
                    import warnings
                    with warnings.catch_warnings():
                        warnings.simplefilter("ignore")
                        with np.errstate(all="ignore"):
                            expected = self.twin()
                except Exception as e:
                    o._note(f"twin-raised:{self.op}:{type(e).__name__}")
                    expected = None
                if expected is not None:
                    def tw(expected=expected):
                        return expected
                    tw.where = None
            self.tok = o.begin(self.op, ins, tg, tw, None)
        finally:
            o.busy = False
        o.manual_depth += 1
        return self

    def __exit__(self, et, ev, tb):
        o = self.obs
        o.manual_depth -= 1
        if et is not None and not issubclass(et, Exception):
            if self.tok[2]:
                o._active_inplace -= 1
            o._count("event:interrupted-not-judged")
            return False
        o.busy = True
        try:
            o.end(self.tok, ev if (et is not None and issubclass(et, Exception)) else None)
        finally:
            o.busy = False
        return False


TRANSCENDENTAL = {"sin", "cos", "tan", "arcsin", "arccos", "arctan", "arctan2", "sinh", "cosh", "tanh", "arcsinh", "arccosh", "arctanh", "exp",
                  "exp2", "expm1", "log", "log2", "log10", "log1p", "cbrt", "power", "float_power", "hypot", "logaddexp", "logaddexp2", "matmul",
                  "vecdot", "matvec", "vecmat", "deg2rad", "rad2deg", "degrees", "radians"}


def _ro_template(op):
    p = op.split("/")
    if p[0] == "ufunc" and len(p) >= 3:
        uf = getattr(np, p[1], None)
        p[1] = {1: "unary", 2: "binary"}.get(getattr(uf, "nin", None), "nary")
        return "/".join(p)
    return op


def _tolerant(op, dtype):
    """may NumPy itself give results differing in the last bits between the in-place and the copying evaluation?"""
    if dtype.kind == "c":
        return True
    p = op.split("/")
    if p[0] == "ufunc":
        return p[1] in TRANSCENDENTAL or (len(p) > 2 and p[2] != "__call__")
    if p[0] in ("func", "method", "helper"):
        return True
    return p[0] == "convert_to_equivalent" or op.endswith("/equiv")


def _num_equal(a, b):
    try:
        if a.shape != b.shape:
            return False
        if a.dtype.kind in "fc" or b.dtype.kind in "fc":
            return bool(np.array_equal(a, b, equal_nan=True))
        return bool(np.array_equal(a, b))
    except Exception:
        return False


def _close(x, y):
    try:
        return x == y or abs(x - y) <= 1e-12 * max(abs(x), abs(y))
    except Exception:
        return False


def _feps(dt):
    return float(np.finfo(dt).eps)


def _ulp_close(e, n, k=64, eps=None):
    try:
        if n.dtype.kind not in "fc":
            return False
        if eps is None:
            eps = np.finfo(n.dtype).eps
        with np.errstate(all="ignore"):
            d = np.abs(e - n)
            lim = k * eps * np.maximum(np.abs(e), np.abs(n))
            ok = (d <= lim) | (e == n) | (np.isnan(e) & np.isnan(n))
            if eps == np.finfo(n.dtype).eps:
                # results in or next to the subnormal range of the target type carry only a few bits
                near_sub = 1024 * float(np.finfo(n.dtype).smallest_normal)
                ok = ok | ((np.abs(e) < near_sub) & (np.abs(n) < near_sub))
        return bool(np.all(ok))
    except Exception:
        return False


def _short(a):
    if a is None:
        return None
    try:
        a = np.asarray(a)
        flat = a.ravel()
        return {"dtype": str(a.dtype), "shape": list(a.shape), "values": [repr(v) for v in flat[:8].tolist()]}
    except Exception:
        return repr(a)[:200]


def merge_dump(d, rec, prefix=None):
    """merge an observer dump (this process or the pytest plugin's JSON) into a core.Rec"""
    for k, v in d.get("viol", {}).items():
        for _ in range(min(int(v[0]), 3)):
            rec.violation(k, v[1], v[2])
    for k, n in d.get("notes", {}).items():
        rec.note(k, n)
    for cell, n in d.get("cells", {}).items():
        if isinstance(cell, tuple):
            cell = "|".join(map(str, cell))
        rec.ok(cell, n)
    for k, n in d.get("counters", {}).items():
        rec.count((prefix or "") + k, n)
    for r in d.get("reached", []):
        rec.reach(r)
    for s in d.get("sites", []):
        rec.reach("raise-site:" + s)
