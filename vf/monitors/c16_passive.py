"""C16 passive observer: class/shape postcondition and view/copy discipline at every tapped boundary.

    from vf.monitors import taps, c16_passive
    obs = c16_passive.Passive(); h = taps.install(observers=[obs]); ...workload...; h.uninstall(); obs.dump()

Judged (only for calls made by the workload itself, ev.depth == 0; nested calls are counted, not judged, because their
results are intermediate values the caller may still re-wrap):

  class     every unyt object found in the value returned by __array_ufunc__, __array_function__, __getitem__, the copying
            conversion methods and Unit.__mul__/__rmul__/__truediv__/__rtruediv__ with data:
            shape () => unyt_quantity; ndim >= 1 => not a unyt_quantity (size > 1: 'multi-element-quantity',
            size <= 1: 'nonscalar-quantity')
  getitem   result shape and numbers equal NumPy's indexing of the stripped parent; result carries the parent's units and
            name; for an ndim >= 1 result memory is shared with the parent exactly when NumPy's own indexing result shares
  npfunc    for the pure view functions (reshape, transpose, swapaxes, ...) memory is shared with the first operand exactly
            when the same NumPy call on the stripped operand shares memory with it
  conv      results of to/in_units/in_base/in_cgs/in_mks/to_value/to_equivalent/copy/to_ndarray/__deepcopy__ never share
            memory with the object they were called on
  unitop    data * unit (either order) does not share memory with the data operand

Mechanism key: C16:<route>/<op>:<failure>:<operand kind>, structural only.  Operations in which unyt has no code of its own
(NumPy functions without a unyt handler, inherited ndarray methods) share one key per (failure, operand kind):
C16:npfunc-default-path/any:..., C16:inherited-ndarray-method/any:...
"""
import numpy as np
from . import taps

VIEW_FUNCS = ("reshape", "transpose", "swapaxes", "moveaxis", "rollaxis", "squeeze", "expand_dims", "ravel", "atleast_1d",
              "atleast_2d", "atleast_3d", "flip", "fliplr", "flipud", "rot90", "diagonal", "real", "imag", "matrix_transpose",
              "permute_dims")
CONV_COPY = ("to", "in_units", "in_base", "in_cgs", "in_mks", "to_value", "to_equivalent", "copy", "to_ndarray", "__deepcopy__")


def _cls():
    from unyt.array import unyt_array, unyt_quantity
    return unyt_array, unyt_quantity


def _handled(func):
    """does unyt have a handler of its own for this NumPy function (else NumPy's implementation runs on the subclass)"""
    try:
        from unyt._array_functions import _HANDLED_FUNCTIONS
        return func in _HANDLED_FUNCTIONS
    except Exception:
        return True


def inherited_attr(obj, attr):
    """True when no unyt class in type(obj)'s MRO defines `attr` (the ndarray implementation runs)"""
    return not any(attr in c.__dict__ for c in type(obj).__mro__ if (c.__module__ or "").split(".")[0] == "unyt")


def walk(obj, depth=0):
    """yield every unyt_array instance inside a returned value (tuples, lists, dict values, namedtuples)"""
    UA, _ = _cls()
    if isinstance(obj, UA):
        yield obj
    elif isinstance(obj, (tuple, list)) and depth < 4:
        for o in obj:
            yield from walk(o, depth + 1)
    elif isinstance(obj, dict) and depth < 4:
        for o in obj.values():
            yield from walk(o, depth + 1)
    elif isinstance(obj, np.ndarray) and obj.dtype == object and obj.size <= 64 and depth < 4:
        for o in obj.ravel().tolist():
            yield from walk(o, depth + 1)


def class_failure(x):
    """None when the class of the unyt object fits its shape, else the failure kind"""
    _, UQ = _cls()
    isq = isinstance(x, UQ)
    if x.shape == ():
        return None if isq else "0d-is-array"
    if isq:
        return "multi-element-quantity" if x.size > 1 else "nonscalar-quantity"
    return None


def kind_of(x):
    """structural operand kind of one unyt object"""
    _, UQ = _cls()
    if isinstance(x, UQ):
        return "quantity" if x.shape == () else "nonscalar-quantity-operand"
    if x.shape == ():
        return "0d-array"
    if x.size == 0:
        return "empty-array"
    if x.size == 1:
        return "size1-array"
    return "array"


_ORDER = ("nonscalar-quantity-operand", "0d-array", "quantity", "size1-array", "empty-array", "array")


def operand_kind(objs):
    """most unusual kind among the unyt operands (quantity-with-shape > 0-d array > quantity > size-1 > empty > array > none)"""
    kinds = {kind_of(o) for o in objs}
    for k in _ORDER:
        if k in kinds:
            return k
    return "no-unyt-operand"


def shape_class(shape):
    if shape == ():
        return "0d"
    n = 1
    for s in shape:
        n *= s
    return f"{len(shape)}d-" + ("empty" if n == 0 else "size1" if n == 1 else "multi")


def index_form(item):
    """structural class of an index expression"""
    UA, _ = _cls()
    items = item if isinstance(item, tuple) else (item,)
    if isinstance(item, tuple) and len(item) == 0:
        return "emptytuple"
    ks = set()
    for it in items:
        if it is None:
            ks.add("newaxis")
        elif it is Ellipsis:
            ks.add("ellipsis")
        elif isinstance(it, slice):
            ks.add("slice")
        elif isinstance(it, (bool, np.bool_)):
            ks.add("boolscalar")
        elif isinstance(it, (int, np.integer)):
            ks.add("int")
        elif isinstance(it, UA):
            ks.add("unytindex")
        elif isinstance(it, (list, np.ndarray)):
            a = np.asarray(it)
            if a.size == 0:
                ks.add("emptyseq")
            elif a.dtype.kind == "b":
                ks.add("boolmask" if a.ndim else "boolscalar")
            elif a.dtype.kind in "iu":
                ks.add("intarray" if a.ndim else "int0d")
            else:
                ks.add("otherarray")
        else:
            ks.add("other")
    return "+".join(sorted(ks))


def ustr(u):
    return None if u is None else str(getattr(u, "expr", u))


def shares(a, b):
    try:
        return bool(np.shares_memory(a, b))
    except Exception:
        return None


def func_name(f):
    mod = getattr(f, "__module__", "") or ""
    n = getattr(f, "__name__", repr(f))
    for sub in ("linalg", "fft", "random", "lib.recfunctions", "ma"):
        if mod.endswith("." + sub) or ("." + sub + ".") in mod:
            return sub + "." + n
    return n


class Passive(taps.Observer):
    def __init__(self):
        self.context = None
        self.viol = {}        # key -> [count, desc, case]
        self.counters = {}
        self.cells = set()
        self.evals = 0
        self.nviol = 0        # running count, lets a driver see whether the observer already flagged the current call

    # ------------------------------------------------------------------ bookkeeping
    def _count(self, name, n=1):
        self.counters[name] = self.counters.get(name, 0) + n

    def _ok(self, cell):
        self.evals += 1
        self.cells.add("|".join(str(c) for c in cell))

    def _violation(self, key, desc, case):
        self.evals += 1
        self.nviol += 1
        v = self.viol.get(key)
        if v is None:
            case = dict(case)
            case["context"] = self.context
            self.viol[key] = [1, str(desc)[:600], case]
        else:
            v[0] += 1

    def dump(self):
        return {"evals": self.evals, "cells": sorted(self.cells), "viol": self.viol, "counters": self.counters}

    # ------------------------------------------------------------------ judgement helpers
    def judge_class(self, route, op, result, operands, sub, group=None, buffers=()):
        """class/shape postcondition for every unyt object in result; returns number of objects judged.
        group: name of a mechanism shared by many operations in which unyt has no code of its own (NumPy carries the operand's
        class over); the key then names the group instead of the operation, the coverage cell still names the operation."""
        n = 0
        okind = None
        kroute, kop = (group, "any") if group else (route, op)
        for x in walk(result):
            if any(x is b for b in buffers) or any(x is o for o in operands):
                # the caller's own object handed back (out= buffer, np.asanyarray(x) is x, astype(copy=False)): its class
                # was the caller's choice, it is not a result produced by the call
                self._count(f"{sub}.returned_operand_itself")
                continue
            n += 1
            f = class_failure(x)
            if okind is None:
                okind = operand_kind(operands)
            if f is None:
                self._ok(("class", route, op, okind, shape_class(x.shape)))
            elif okind == "nonscalar-quantity-operand":
                # the operand already is a shaped quantity (reported where it was produced, or built on explicit request):
                # class-preserving follow-ups are consequences, not new mechanisms
                self._count("class.operand_already_shaped_quantity")
            else:
                self._violation(f"C16:{kroute}/{kop}:{f}:{okind}",
                                f"{route} {op} on {okind} operand returned {type(x).__name__} of shape {x.shape} "
                                f"(shape () must be unyt_quantity, ndim>=1 must not be)",
                                {"route": route, "op": op, "operand": okind, "result_class": type(x).__name__,
                                 "result_shape": list(x.shape), "sub": sub})
        self._count(f"{sub}.judged_objects", n)
        if n == 0:
            self._count(f"{sub}.bare_results")
        return n

    # ------------------------------------------------------------------ observer protocol
    def pre(self, ev):
        return None

    def post(self, ev, token, result, exc):
        self._count("events." + ev.kind)
        if exc is not None:
            self._count("events.raised")
            return
        if ev.depth != 0:
            self._count("events.nested")
            return
        UA, UQ = _cls()
        k = ev.kind
        if k == "ufunc":
            ufunc, method = ev.args[0], ev.args[1]
            op = getattr(ufunc, "__name__", "ufunc") + ("" if method == "__call__" else "." + method)
            out = ev.kwargs.get("out")
            operands = list(walk(list(ev.args[2:]))) + list(walk(out if isinstance(out, tuple) else [out]))
            if out is not None:
                op += "/out"
            self.judge_class("ufunc", op, result, operands, "ufunc")
        elif k == "function":
            func, fargs, fkw = ev.args[0], ev.args[2], ev.args[3]
            if result is NotImplemented:
                self._count("function.notimplemented")
                return
            op = func_name(func)
            operands = list(walk(list(fargs))) + list(walk(fkw))
            self.judge_class("npfunc", op, result, operands, "function", group=None if _handled(func) else "npfunc-default-path")
            if op in VIEW_FUNCS and fargs and isinstance(fargs[0], UA) and isinstance(result, np.ndarray) \
                    and fkw.get("out") is None and fargs[0].size > 0:
                self._view_func(op, func, fargs, fkw, result)
        elif k == "getitem":
            self._getitem(ev, result)
        elif k == "copying":
            me = ev.self_
            self.judge_class("conv", ev.name, result, [me], "conv")
            if ev.name in CONV_COPY and isinstance(result, np.ndarray) and isinstance(me, np.ndarray) and me.size > 0:
                okind = kind_of(me)
                self._count("conv.memory_probes")
                if shares(result, me):
                    self._violation(f"C16:conv/{ev.name}:shares-memory:{okind}",
                                    f"{ev.name}() of a {okind} ({me.dtype}, units {ustr(me.units)}) returned data sharing "
                                    f"memory with the parent; converting/copying calls must return independent data",
                                    {"method": ev.name, "operand": okind, "dtype": str(me.dtype), "units": ustr(me.units),
                                     "args": repr(ev.args)[:200]})
                else:
                    self._ok(("independent", ev.name, okind, str(me.dtype.kind)))
        elif k == "unitop":
            if ev.name in ("Unit.__mul__", "Unit.__rmul__", "Unit.__truediv__", "Unit.__rtruediv__") and ev.args \
                    and not getattr(ev.args[0], "is_Unit", False):
                data = ev.args[0]
                operands = list(walk([data]))
                opn = ev.name[5:]
                self.judge_class("unitop", opn, result, operands, "unitop")
                if opn in ("__mul__", "__rmul__") and isinstance(data, np.ndarray) and data.size > 0 \
                        and isinstance(result, np.ndarray):
                    dk = kind_of(data) if isinstance(data, UA) else "ndarray-" + shape_class(data.shape)
                    self._count("unitop.memory_probes")
                    if shares(result, data):
                        self._violation(f"C16:unitop/{opn}:shares-memory:{dk}",
                                        f"data * unit returned an object sharing memory with the {dk} data operand "
                                        f"({data.dtype}); multiplying by a unit must copy",
                                        {"op": opn, "operand": dk, "dtype": str(data.dtype)})
                    else:
                        self._ok(("unit-mul-copy", opn, dk, str(data.dtype.kind)))

    # ------------------------------------------------------------------ getitem
    def _getitem(self, ev, result):
        UA, UQ = _cls()
        p = ev.self_
        item = ev.args[0]
        form = index_form(item)
        pk = kind_of(p)
        if "unytindex" in form or "other" in form:
            self._count("getitem.unjudged_index")
            self.judge_class("getitem", form, result, [p], "getitem")
            return
        try:
            ref = p.view(np.ndarray)[item]
        except Exception:
            self._count("getitem.reference_failed")
            return
        self.judge_item("getitem", form, p, repr(item)[:120], result, ref)

    def judge_item(self, route, form, p, item, result, ref):
        """result of indexing/iterating parent p against NumPy's own element/sub-array `ref` of the stripped parent"""
        UA, UQ = _cls()
        pk = kind_of(p)
        rshape = np.shape(ref)
        case = {"index_form": form, "parent": pk, "parent_shape": list(p.shape), "index": item}
        if getattr(getattr(ref, "dtype", None), "names", None):
            self._count("getitem.structured")
            return
        if not isinstance(result, UA):
            self._violation(f"C16:{route}/{form}:lost-units:{pk}",
                            f"indexing a {pk} of shape {p.shape} with {item} returned bare {type(result).__name__}", case)
            return
        self.judge_class(route, form, result, [p], route)
        if result.shape != rshape:
            self._violation(f"C16:{route}/{form}:shape:{pk}",
                            f"indexing shape {p.shape} with {item} gave shape {result.shape}; NumPy gives {rshape}", case)
            return
        if ustr(result.units) != ustr(p.units) or result.units.base_value != p.units.base_value:
            self._violation(f"C16:{route}/{form}:units:{pk}",
                            f"indexing result has units {ustr(result.units)}; parent has {ustr(p.units)}", case)
        elif getattr(result, "name", None) != getattr(p, "name", None):
            self._violation(f"C16:{route}/{form}:name:{pk}",
                            f"indexing result has name {getattr(result, 'name', None)!r}; parent has {getattr(p, 'name', None)!r}", case)
        else:
            self._ok(("getitem-meta", form, pk, shape_class(rshape), "named" if getattr(p, "name", None) else "unnamed"))
        rv = result.view(np.ndarray)
        same = rv.tobytes() == np.asarray(ref).tobytes() if rv.dtype != object else True
        if not same:
            self._violation(f"C16:{route}/{form}:values:{pk}",
                            f"indexing shape {p.shape} with {item}: numbers differ from NumPy indexing of the stripped data", case)
        else:
            self._ok(("getitem-values", form, pk, shape_class(rshape)))
        if isinstance(ref, np.ndarray) and ref.ndim >= 1 and ref.size > 0:
            exp = shares(ref, p)
            got = shares(result, p)
            if exp is not None and got is not None:
                self._count(f"{route}.memory_probes")
                if exp != got:
                    self._violation(f"C16:{route}/{form}:{'detached-view' if exp else 'shares-memory'}:{pk}",
                                    f"indexing shape {p.shape} with {item}: result shares memory with parent = {got}, "
                                    f"NumPy's own result shares = {exp}", case)
                else:
                    self._ok(("getitem-memory", form, pk, "view" if exp else "copy"))

    # ------------------------------------------------------------------ pure view functions
    def _view_func(self, op, func, fargs, fkw, result):
        UA, _ = _cls()
        p = fargs[0]
        try:
            bare = p.view(np.ndarray)
            sargs = [bare] + [a.view(np.ndarray) if isinstance(a, UA) else a for a in fargs[1:]]
            ref = func(*sargs, **fkw)
        except Exception:
            self._count("function.view_reference_failed")
            return
        if not isinstance(ref, np.ndarray) or ref.size == 0:
            return
        exp = shares(ref, p)
        got = shares(result, p)
        pk = kind_of(p)
        if exp is None or got is None:
            return
        self._count("function.view_probes")
        if exp != got:
            self._violation(f"C16:npfunc/{op}:{'detached-view' if exp else 'shares-memory'}:{pk}",
                            f"np.{op} of a {pk} of shape {p.shape}: result shares memory with the operand = {got}; the same "
                            f"NumPy call on the stripped data shares = {exp}", {"op": op, "operand": pk, "shape": list(p.shape)})
        else:
            self._ok(("npfunc-memory", op, pk, "view" if exp else "copy"))
