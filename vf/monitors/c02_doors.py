"""C02 sub-monitor 'doors': the namespace-filling door for CUSTOM registries, unyt.unit_systems.add_symbols(namespace, registry).

One history = a fresh registry (plain / created with another unit system / a deep copy taken after the edits), an edit script that
REDEFINES 1-3 prefixable built-in symbols (modify by float, modify by quantity, remove + re-add with another scale, remove + re-add
with another DIMENSION) and adds one prefixable user symbol, with prefixed spellings optionally looked up (memoised) before or after
the edits.  Then the namespace is filled ONCE and every name in it is one evaluation: the unit object the door put under that name
must have the scale / dimension / offset that the sequential definition model (ref/regmodel.py, mirror of the edit script) gives the
name -- prefix value x scale of the base symbol IN THAT REGISTRY.  A few conversions between namespace units (prefixed -> base, and
namespace unit -> Unit(name, registry=reg)) are judged against the ratio of the model scales.  The oracle never calls add_symbols.
"""
import copy

from vf import core
from vf.ref import defs, dims, regmodel
from vf.props.common import udim, TAINTED

EDIT_KINDS = ("none", "modf", "modq", "readd", "redim")
WARM = ("cold", "warm-before", "warm-after")
MAKE = ("plain", "cgs", "deepcopy")
HOWS = ("entry", "spelling", "spelling+prefix", "prefix")
QEXPR = {dims.D("L"): ("cm", "km", "inch"), dims.D("M"): ("kg", "lb"), dims.D("T"): ("hr", "ms", "minute"),
         dims.D("M L2 T-2"): ("erg", "kJ"), dims.D("T-1"): ("1/ms", "1/hr")}
OTHER_DIM = ("L", "M", "T", "M L2 T-2", "L T-1")
DECIDING = (["doors_histories", "doors_name_evals", "doors_prefixed_edited_evals", "doors_conv_evals", "doors_user_evals"]
            + ["doors_edit:" + k for k in EDIT_KINDS] + ["doors_warm:" + w for w in WARM] + ["doors_make:" + m for m in MAKE])


def catalogue():
    return {f"doors|{m}|{k}|{w}" for m in MAKE for k in EDIT_KINDS if k != "none" for w in WARM}


def enum_specs():
    out = []
    for m in MAKE:
        for k in EDIT_KINDS:
            for w in WARM:
                out.append((m, k, w))
    return out


_POOL = []
_DIMCACHE = {}


def _udim(u):
    """dimension vector of a unit (read through vf.props.common.udim, memoised per sympy dimension expression: immutable, hashable)"""
    d = u.dimensions
    v = _DIMCACHE.get(d)
    if v is None:
        v = _DIMCACHE[d] = udim(u)
    return v


def _pool():
    if not _POOL:
        for s, de in defs.T.items():
            if de.prefixable and not de.offset and s not in TAINTED and de.dim != dims.D("LOG") and s.isidentifier():
                _POOL.append(s)
    return _POOL


def _prefixed_names(r, sym, k):
    pf = r.sample(sorted(defs.PREFIX), k)
    return [p + sym for p in pf]


class _Ctx:
    def __init__(self, *a):
        self.a = a

    def __str__(self):
        return "ns[%r] after %r [%s]" % self.a


def run_history(unyt, r, spec, rec):
    from unyt.unit_systems import add_symbols
    make, kind, warm = spec
    reg = unyt.UnitRegistry(unit_system="cgs") if make == "cgs" else unyt.UnitRegistry()
    model = regmodel.RegModel()
    nsym = 0 if kind == "none" else r.randint(1, 3)
    syms = r.sample(_pool(), nsym)
    usym = "vfd%d" % r.randint(0, 9)
    warmed = [n for s in syms for n in _prefixed_names(r, s, 3)] + ["k" + usym]

    def do_warm():
        for n in warmed:
            try:
                unyt.Unit(n, registry=reg)
            except Exception:
                pass

    ops = []
    for s in syms:
        e = model.contents[s]
        f = r.choice((2.0, 0.5, 3.0, 1.0 / 3.0, 365.0 / 365.25, 1.0e3, 1.0e-2))
        k = kind
        if k == "modq" and e.dim not in QEXPR:
            k = "modf"
        if k == "modf":
            ops.append(("modf", s, e.scale * f))
        elif k == "modq":
            ops.append(("modq", s, r.choice((0.5, 3.0, 8.0)), r.choice(QEXPR[e.dim]), "default"))
        elif k == "readd":
            ops += [("rm", s), ("add", s, e.scale * f, e.dim, True, 0.0)]
        elif k == "redim":
            d = r.choice([x for x in OTHER_DIM if dims.D(x) != e.dim])
            ops += [("rm", s), ("add", s, r.choice((2.5, 4096.0, 1.0e-7)), dims.D(d), True, 0.0)]
    ops.append(("add", usym, r.choice((200.0, 2.5, 1.0e-7)), dims.D(r.choice(OTHER_DIM)), True, 0.0))
    try:
        if warm == "warm-before":
            do_warm()
        for op in ops:
            if model.apply(tuple(op)) != "ok":
                rec.count("doors_edit_invalid_in_model")
                return
            if op[0] == "modf":
                reg.modify(op[1], float(op[2]))
            elif op[0] == "modq":
                reg.modify(op[1], unyt.unyt_quantity(float(op[2]), op[3]))
            elif op[0] == "rm":
                reg.remove(op[1])
            else:
                reg.add(op[1], float(op[2]), regmodel.dim_expr(unyt, op[3]), prefixable=True)
        if warm == "warm-after":
            do_warm()
        if make == "deepcopy":
            reg = copy.deepcopy(reg)
    except Exception as e:                  # whether an edit / a copy is accepted is C12/C11's subject
        rec.note(f"doors:setup-refused:{kind}:{type(e).__name__}")
        rec.count("doors_abandoned")
        return
    cell = f"{make}|{kind}|{warm}"
    ns = {}
    try:
        add_symbols(ns, reg)
    except Exception as e:
        rec.violation(f"C02:doors:add_symbols:raises:{kind}", f"add_symbols(ns, reg) raised {type(e).__name__}: {e} after {ops!r} [{cell}]",
                      {"ops": ops, "spec": spec})
        return
    rec.count("doors_histories"); rec.count("doors_edit:" + kind); rec.count("doors_warm:" + warm); rec.count("doors_make:" + make)
    edited = set(syms)
    if not ns:
        rec.violation("C02:doors:add_symbols:empty", f"add_symbols left the namespace empty [{cell}]", spec)
        return
    if usym not in ns:
        rec.violation("C02:doors:add_symbols:missing:user", f"user symbol {usym!r} of the registry is not in the namespace [{cell}]", spec)
    bysym = {}
    for name, u in ns.items():
        res = model.lookup(name)
        if res is None:
            rec.count("doors_name_without_model_reading")
            continue
        if res.symbol in TAINTED and res.symbol not in edited:
            rec.count("doors_skipped_tainted")
            continue
        ed = "edited" if res.symbol in edited else ("user" if res.symbol == usym else "untouched")
        tag = f"{res.how}:{ed}"
        rec.count("doors_name_evals")
        if ed == "edited" and "prefix" in res.how:
            rec.count("doors_prefixed_edited_evals")
            bysym.setdefault(res.symbol, []).append((name, res))
        if ed == "user":
            rec.count("doors_user_evals")
        ctx = _Ctx(name, ops, cell)
        try:
            bv, bo, dv = float(u.base_value), float(u.base_offset), _udim(u)
        except Exception as e:
            rec.violation(f"C02:doors:add_symbols:not-a-unit:{tag}", f"{ctx} is {type(u).__name__}: {e}", {"name": name, "ops": ops})
            continue
        if dv != res.dim:
            rec.violation(f"C02:doors:add_symbols:dim:{tag}", f"{ctx} has dimension {dims.show(dv)}, the registry's definition of "
                          f"{res.symbol!r} gives {dims.show(res.dim)}", {"name": name, "ops": ops})
            continue
        rel = abs(bv - res.scale) / abs(res.scale)
        if rel > res.tol + 1e-14:
            rec.violation(f"C02:doors:add_symbols:scale:{tag}", f"{ctx}.base_value={bv!r}; the registry's definition of {res.symbol!r} gives "
                          f"{res.scale!r} (rel {rel:.3g})", {"name": name, "ops": ops})
            continue
        if bo != res.offset:
            rec.violation(f"C02:doors:add_symbols:offset:{tag}", f"{ctx}.base_offset={bo!r}, definition {res.offset!r}", {"name": name, "ops": ops})
            continue
        rec.ok(f"doors:{cell}:{tag}")
    if kind != "none":
        rec.reach(f"doors|{cell}")
    # conversions between units that came out of the namespace
    for s, lst in bysym.items():
        base = model.lookup(s)
        for name, res in r.sample(lst, min(4, len(lst))):
            want = res.scale / base.scale
            for how, tgt in (("ns", ns.get(s)), ("Unit", None)):
                try:
                    t = tgt if how == "ns" else unyt.Unit(s, registry=reg)
                    if t is None:
                        continue
                    got = float(unyt.unyt_quantity(1.0, ns[name]).to(t).d)
                except Exception as e:
                    rec.violation(f"C02:doors:add_symbols:convert-raises:{kind}", f"(1*ns[{name!r}]).to({how}:{s!r}) raised "
                                  f"{type(e).__name__}: {e} after {ops!r} [{cell}]", {"name": name, "ops": ops})
                    continue
                rec.count("doors_conv_evals")
                if abs(got - want) > (2 * res.tol + 1e-13) * abs(want):
                    rec.violation(f"C02:doors:add_symbols:convert:{kind}", f"(1*ns[{name!r}]).to({how}:{s!r}) = {got!r}, definitions give "
                                  f"{want!r} after {ops!r} [{cell}]", {"name": name, "ops": ops})
                else:
                    rec.ok(f"doors-conv:{cell}:{how}")
    rec.sample({"doors-history": cell, "ops": ops, "names_in_namespace": len(ns)}, limit=2)


def run_batch(unyt, rec, seed, i, n, reps):
    specs = enum_specs()
    for rep in range(reps):
        for j in range(i, len(specs), n):
            run_history(unyt, core.rng(seed, "doors", j, rep), specs[j], rec)
