#!/usr/bin/env python3
"""writes the prompt file for a fresh seed-producing sub-agent (it gets the property text only, nothing from /verif) and
creates its scratch worktree.  usage: mkseedprompt.py <PID> <tag> [extra avoid text]"""
import json, sys, subprocess, glob, os
T = open(os.path.join(os.path.dirname(__file__), "seedprompt.tmpl")).read()
pid, tag = sys.argv[1], sys.argv[2]
avoid = sys.argv[3] if len(sys.argv) > 3 else ""
props = {json.loads(l)["id"]: json.loads(l) for l in open("/verif/properties.jsonl")}
p = props[pid]
prev = []
for f in sorted(glob.glob(f"/verif/seeded/{pid}-*/meta.json") + glob.glob(f"/verif/seeded/stale/{pid}-*/meta.json")):
    prev.append("- " + json.load(open(f))["summary"][:220].replace("\n", " "))
if prev:
    avoid += " Changes already produced earlier for this property — choose a clearly different mechanism and code location:\n" + "\n".join(prev)
wt = f"/tmp/seedwt-{pid}-{tag}"; out = f"/tmp/seedout-{pid}-{tag}"
s = T.format(wt=wt, out=out, pid=pid, title=p["title"], statement=p["statement"], quant=p["quantifier"]["text"], why=p["why_tests_cant"],
             anchors=json.dumps(p["anchors"], ensure_ascii=False), avoid=avoid)
os.makedirs("/tmp/seedprompts", exist_ok=True)
open(f"/tmp/seedprompts/{pid}-{tag}.txt", "w").write(s)
if not os.path.exists(wt):
    subprocess.run(["git", "-C", "/repo", "worktree", "add", "-q", "--detach", wt, "HEAD"], check=True)
print(f"/tmp/seedprompts/{pid}-{tag}.txt", wt, out)
