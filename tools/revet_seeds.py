#!/venv/bin/python
"""re-vet every seeded change against /repo HEAD: demo passes on pristine HEAD, patch applies, demo fails with patch
(optionally --baseline: the 652 tests still pass).  Prints one line per seed; exit 1 if any seed is stale."""
import json, os, subprocess, sys, tempfile, glob, shutil
from concurrent.futures import ThreadPoolExecutor
base = "--baseline" in sys.argv
pref = [a for a in sys.argv[1:] if not a.startswith("--")]
def sh(*a, **k): return subprocess.run(a, capture_output=True, text=True, **k)
head = sh("git", "-C", "/repo", "rev-parse", "--short", "HEAD").stdout.strip()
def one(d):
    name = os.path.basename(d)
    wt = tempfile.mkdtemp(prefix="revet-", dir="/tmp"); os.rmdir(wt)
    try:
        r = sh("git", "-C", "/repo", "worktree", "add", "-q", "--detach", wt, "HEAD"); assert r.returncode == 0, r.stderr
        env = dict(os.environ, PYTHONPATH=wt, PYTHONDONTWRITEBYTECODE="1")
        demo = os.path.join(d, "demo.py")
        r0 = sh("/venv/bin/python", demo, env=env, cwd="/tmp", timeout=900)
        ra = sh("git", "-C", wt, "apply", os.path.join(d, "patch.diff"))
        r1 = sh("/venv/bin/python", demo, env=env, cwd="/tmp", timeout=900) if ra.returncode == 0 else None
        rb = sh("/verif/tools/run_baseline.py", wt, timeout=3000) if base and ra.returncode == 0 else None
        ok = r0.returncode == 0 and ra.returncode == 0 and r1.returncode == 1 and (rb is None or "SUITE-STILL-PASSES" in rb.stdout)
        return name, ok, f"pristine={r0.returncode} apply={ra.returncode} patched={None if r1 is None else r1.returncode} baseline={None if rb is None else rb.stdout.strip().splitlines()[-1][:60]}"
    finally:
        sh("git", "-C", "/repo", "worktree", "remove", "--force", wt); shutil.rmtree(wt, ignore_errors=True)
seeds = sorted(d for d in glob.glob("/verif/seeded/*") if os.path.isfile(os.path.join(d, "meta.json")) and (not pref or any(os.path.basename(d).startswith(p) for p in pref)))
with ThreadPoolExecutor(4) as ex:
    res = list(ex.map(one, seeds))
stale = 0
for name, ok, msg in res:
    print(f"{name:8s} {'OK   ' if ok else 'STALE'} {msg}  (HEAD {head})")
    stale += (not ok)
sys.exit(1 if stale else 0)
