#!/venv/bin/python
"""vet a seeded change produced by a sub-agent and keep it under /verif/seeded/<id>/.
usage: vet_seed.py <seed dir with patch.diff demo.py meta.json> <name e.g. C05-1>
Steps (all in a fresh scratch worktree of /repo HEAD, removed afterwards): demo passes on the pristine tree; patch applies;
demo fails with the patch; the 652 baseline-passing tests still pass."""
import json, os, shutil, subprocess, sys, tempfile
src, name = sys.argv[1], sys.argv[2]
dst = f"/verif/seeded/{name}"
wt = tempfile.mkdtemp(prefix="vet-", dir="/tmp")
os.rmdir(wt)
def sh(*a, **k):
    return subprocess.run(a, capture_output=True, text=True, **k)
ok = False
ran = []
try:
    r = sh("git", "-C", "/repo", "worktree", "add", "-q", "--detach", wt, "HEAD"); assert r.returncode == 0, r.stderr
    env = dict(os.environ, PYTHONPATH=wt, PYTHONDONTWRITEBYTECODE="1")
    demo = os.path.join(src, "demo.py")
    r0 = sh("/venv/bin/python", demo, env=env, cwd="/tmp", timeout=600); ran.append(f"demo on pristine HEAD: exit {r0.returncode}")
    ra = sh("git", "-C", wt, "apply", os.path.join(src, "patch.diff")); ran.append(f"git apply: exit {ra.returncode} {ra.stderr.strip()[:200]}")
    r1 = sh("/venv/bin/python", demo, env=env, cwd="/tmp", timeout=600); ran.append(f"demo with patch: exit {r1.returncode}")
    rb = sh("/verif/tools/run_baseline.py", wt, timeout=3000); ran.append("baseline with patch: " + rb.stdout.strip().splitlines()[-1])
    ok = r0.returncode == 0 and ra.returncode == 0 and r1.returncode == 1 and "SUITE-STILL-PASSES" in rb.stdout
    print(name, "KEEP" if ok else "REJECT", ran)
    if ok:
        os.makedirs(dst, exist_ok=True)
        shutil.copy(os.path.join(src, "patch.diff"), dst); shutil.copy(demo, dst)
        meta = json.load(open(os.path.join(src, "meta.json")))
        meta["vetted"] = {"repo_head": sh("git", "-C", "/repo", "rev-parse", "--short", "HEAD").stdout.strip(), "ran": ran,
                          "demo_fail_output": (r1.stdout + r1.stderr)[-600:]}
        json.dump(meta, open(os.path.join(dst, "meta.json"), "w"), indent=1, ensure_ascii=False)
finally:
    sh("git", "-C", "/repo", "worktree", "remove", "--force", wt)
    shutil.rmtree(wt, ignore_errors=True)
sys.exit(0 if ok else 1)
