#!/venv/bin/python
"""run checks against the seeded changes.  usage: run_seeds.py [--tier quick] [--jobs N] [name-prefix ...]
Each seed is applied to its own scratch worktree of /repo HEAD (VERIF_REPO), the property's check is run with its outputs
redirected (VERIF_OUT) and the worktree removed.  Prints CAUGHT/MISSED per seed and writes seeded/RESULTS.json."""
import json, os, shutil, subprocess, sys, tempfile, glob, time
from concurrent.futures import ThreadPoolExecutor
args = sys.argv[1:]
tier = "quick"; jobs = 3; extra_props = {}
if "--tier" in args:
    i = args.index("--tier"); tier = args[i + 1]; del args[i:i + 2]
if "--jobs" in args:
    i = args.index("--jobs"); jobs = int(args[i + 1]); del args[i:i + 2]
allp = "--all-checks" in args
if allp: args.remove("--all-checks")
seeds = sorted(d for d in glob.glob("/verif/seeded/*") if os.path.isfile(os.path.join(d, "meta.json")) and (not args or any(os.path.basename(d).startswith(a) for a in args)))
have = {os.path.basename(p)[:-3].upper() for p in glob.glob("/verif/vf/props/c[0-9][0-9].py")}
def sh(*a, **k):
    return subprocess.run(a, capture_output=True, text=True, **k)
def one(d):
    name = os.path.basename(d); meta = json.load(open(os.path.join(d, "meta.json"))); prop = meta["property"]
    props = sorted(have) if allp else [p for p in [prop] + meta.get("also_check", []) if p in have]
    if not props:
        return name, prop, "NO-CHECK-YET", {}
    wt = tempfile.mkdtemp(prefix="seedrun-", dir="/tmp"); os.rmdir(wt)
    out = tempfile.mkdtemp(prefix="seedout-", dir="/tmp")
    res = {}
    try:
        r = sh("git", "-C", "/repo", "worktree", "add", "-q", "--detach", wt, "HEAD"); assert r.returncode == 0, r.stderr
        r = sh("git", "-C", wt, "apply", os.path.join(d, "patch.diff"))
        if r.returncode: return name, prop, "PATCH-DOES-NOT-APPLY", {}
        for p in props:
            env = dict(os.environ, VERIF_REPO=wt, VERIF_OUT=out, VERIF_NPROC=os.environ.get("VERIF_NPROC", str(max(4, 16 // jobs))))
            t = time.time()
            r = sh("/verif/check", p, "--tier", tier, env=env, timeout=7200)
            keys = [l.split("key=")[1].split(" ::")[0] for l in r.stdout.splitlines() if l.startswith("VIOLATION")]
            res[p] = {"exit": r.returncode, "keys": keys[:6], "wall": round(time.time() - t, 1),
                      "tail": r.stdout.strip().splitlines()[-1][:200] if r.stdout.strip() else r.stderr[-300:]}
        own = res.get(prop, {})
        verdict = "CAUGHT" if own.get("exit") == 1 else ("CAUGHT-BY-OTHER" if any(v["exit"] == 1 for v in res.values()) else ("INCONCLUSIVE" if own.get("exit") == 2 else "MISSED"))
        return name, prop, verdict, res
    finally:
        sh("git", "-C", "/repo", "worktree", "remove", "--force", wt); shutil.rmtree(wt, ignore_errors=True); shutil.rmtree(out, ignore_errors=True)
with ThreadPoolExecutor(jobs) as ex:
    results = list(ex.map(one, seeds))
path = "/verif/seeded/RESULTS.json"
import fcntl
with open(path + ".lock", "w") as lk:
    fcntl.flock(lk, fcntl.LOCK_EX)
    old = json.load(open(path)) if os.path.exists(path) else {}
    for name, prop, verdict, res in results:
        print(f"{name:12s} {prop} {verdict:16s} " + " ".join(f"{p}:{v['exit']}:{','.join(v['keys'][:2])}" for p, v in res.items()))
        old[name] = {"property": prop, "tier": tier, "verdict": verdict, "checks": res}
    json.dump(old, open(path, "w"), indent=1, sort_keys=True)
