#!/venv/bin/python
"""run the repository's pinned test suite in <tree> (default /repo) and say whether every one of the 652 baseline-passing
tests still passes.  usage: run_baseline.py [tree] ; prints RESULT: SUITE-STILL-PASSES | RESULT: BROKEN <n> <first ids>"""
import json, os, subprocess, sys, tempfile, xml.etree.ElementTree as ET
tree = sys.argv[1] if len(sys.argv) > 1 else "/repo"
base = set(json.load(open("/root/.vp/BASELINE.json"))["stable_pass"])
fd, xml = tempfile.mkstemp(suffix=".xml"); os.close(fd)
env = dict(os.environ, PYTHONDONTWRITEBYTECODE="1")
env.pop("PYTHONPATH", None)
r = subprocess.run(["/venv/bin/python", "-m", "pytest", "-q", "-p", "no:cacheprovider", "--timeout=900", "--continue-on-collection-errors",
                    "-x" if "--fast" in sys.argv else "-q", "-n", "8", "--junitxml=" + xml], cwd=tree, env=env, capture_output=True, text=True)
if "unrecognized arguments: -n" in r.stderr or "no such option: -n" in r.stderr:
    r = subprocess.run(["/venv/bin/python", "-m", "pytest", "-q", "-p", "no:cacheprovider", "--timeout=900", "--continue-on-collection-errors",
                        "--junitxml=" + xml], cwd=tree, env=env, capture_output=True, text=True)
passed = set()
try:
    for tc in ET.parse(xml).getroot().iter("testcase"):
        if not any(ch.tag in ("failure", "error", "skipped") for ch in tc):
            passed.add(f"{tc.get('classname')}::{tc.get('name')}")
finally:
    os.unlink(xml)
missing = sorted(base - passed)
print(r.stdout.strip().splitlines()[-1] if r.stdout.strip() else r.stderr[-300:])
if missing:
    print(f"RESULT: BROKEN {len(missing)} {missing[:5]}")
    sys.exit(1)
print("RESULT: SUITE-STILL-PASSES")
