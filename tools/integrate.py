#!/venv/bin/python
"""merge findings.d/<ID>.txt into KNOWN_FINDINGS.txt (dedupe by key), delete the staging file.  usage: integrate.py C15 [C09 ...]"""
import os, sys
H = os.path.dirname(os.path.dirname(os.path.abspath(__file__)))
kf = os.path.join(H, "KNOWN_FINDINGS.txt")
have = open(kf, encoding="utf8").read()
keys = {l.split("key=")[1].split()[0] for l in have.splitlines() if l.startswith("finding:") and "key=" in l}
for pid in sys.argv[1:]:
    p = os.path.join(H, "findings.d", pid + ".txt")
    if not os.path.exists(p):
        print(pid, "no staging file"); continue
    add = []
    for l in open(p, encoding="utf8"):
        l = l.rstrip("\n")
        if l.startswith("finding:") and "key=" in l:
            k = l.split("key=")[1].split()[0]
            if k not in keys:
                keys.add(k); add.append(l)
        elif l.startswith("fixed:"):
            add.append(l)
    if add:
        have = have.rstrip("\n") + "\n" + "\n".join(add) + "\n"
    os.unlink(p)
    print(pid, "merged", len(add), "lines")
open(kf, "w", encoding="utf8").write(have)
