#!/usr/bin/env python3
"""writes the prompt for a builder sub-agent that widens a check after a missed seed.  usage: mkwidenprompt.py <PID> <seed-name> [extra text]"""
import sys, os
T = open(os.path.join(os.path.dirname(__file__), "widenprompt.tmpl")).read()
pid, seed = sys.argv[1], sys.argv[2]
extra = sys.argv[3] if len(sys.argv) > 3 else ""
os.makedirs("/tmp/widenprompts", exist_ok=True)
p = f"/tmp/widenprompts/{seed}.txt"
open(p, "w").write(T.format(pid=pid, pidl=pid.lower(), seed=seed, extra=extra))
print(p)
