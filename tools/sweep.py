#!/venv/bin/python
"""run checks over tiers/seeds into a scratch output dir and collect verdicts and known-finding keys seen.
usage: sweep.py --tiers quick,thorough --seeds 0,1 [--props C01,C02] [--out /tmp/sweep] [--nproc 16] [--repo /repo]
writes <out>/sweep.json: {prop: {"tiers": [...], "keys": [...], "runs": [{tier, seed, exit, tail, wall}]}}"""
import json, os, subprocess, sys, time, glob
a = sys.argv[1:]
def opt(n, d):
    return a[a.index(n) + 1] if n in a else d
tiers = opt("--tiers", "quick").split(","); seeds = opt("--seeds", "0").split(",")
H = os.path.dirname(os.path.dirname(os.path.abspath(__file__)))
props = opt("--props", ",".join(sorted(os.path.basename(p)[:-3].upper() for p in glob.glob(H + "/vf/props/c[0-9][0-9].py")))).split(",")
out = opt("--out", "/tmp/sweep"); nproc = opt("--nproc", "16"); repo = opt("--repo", "/repo")
os.makedirs(out, exist_ok=True)
path = os.path.join(out, "sweep.json")
res = json.load(open(path)) if os.path.exists(path) else {}
for tier in tiers:
    for p in props:
        for s in seeds:
            env = dict(os.environ, VERIF_SEED=s, VERIF_OUT=out, VERIF_NPROC=nproc, VERIF_REPO=repo)
            t = time.time()
            r = subprocess.run([H + "/check", p, "--tier", tier], capture_output=True, text=True, env=env)
            lines = r.stdout.strip().splitlines()
            keys = [l.split("key=")[1].split(" ::")[0] for l in lines if l.startswith("KNOWN-FINDING")]
            viol = [l[:300] for l in lines if l.startswith("VIOLATION") or l.startswith("INCONCLUSIVE")]
            e = res.setdefault(p, {"tiers": [], "keys": [], "runs": []})
            if tier not in e["tiers"]: e["tiers"].append(tier)
            e["keys"] = sorted(set(e["keys"]) | set(keys))
            e["runs"].append({"tier": tier, "seed": int(s), "exit": r.returncode, "tail": lines[-1] if lines else r.stderr[-300:], "wall": round(time.time() - t, 1), "alarms": viol[:10]})
            print(p, tier, s, "exit", r.returncode, lines[-1] if lines else r.stderr[-200:], flush=True)
            for v in viol[:5]: print("   ", v, flush=True)
            json.dump(res, open(path, "w"), indent=1)
