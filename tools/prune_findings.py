#!/venv/bin/python
"""After fix: commits: drop `finding:` lines whose key no run reports any more.
usage: prune_findings.py <seen.json> [--apply]     seen.json = {"C01": {"tiers": ["quick","thorough"], "keys": [...]}, ...}
A finding is dropped only if its property was run on every tier listed in REQUIRED (quick and thorough) and the key was
seen in none.  Prints what it would drop; --apply rewrites KNOWN_FINDINGS.txt."""
import json, os, sys
H = os.path.dirname(os.path.dirname(os.path.abspath(__file__)))
seen = json.load(open(sys.argv[1]))
apply = "--apply" in sys.argv
kf = os.path.join(H, "KNOWN_FINDINGS.txt")
out, dropped = [], []
for l in open(kf, encoding="utf8"):
    if l.startswith("finding:") and "key=" in l:
        pid = l.split("property=")[1].split()[0]
        key = l.split("key=")[1].split()[0]
        s = seen.get(pid)
        if s and set(s["tiers"]) >= {"quick", "thorough"} and key not in s["keys"]:
            dropped.append((pid, key)); continue
    out.append(l)
for pid, key in dropped:
    print("drop", pid, key)
print(len(dropped), "dropped,", sum(1 for l in out if l.startswith("finding:")), "kept")
if apply:
    open(kf, "w", encoding="utf8").write("".join(out))
