#!/opt/veriftools/pyvenv/bin/python
"""validate MANIFEST.json and evidence/*.json against the given schemas (jsonschema lives in the tooling venv)."""
import json, glob, sys, os, jsonschema
H = os.path.dirname(os.path.dirname(os.path.abspath(__file__)))
bad = 0
ms = json.load(open("/root/.vp/MANIFEST.schema.json")); es = json.load(open("/root/.vp/EVIDENCE.schema.json"))
man = json.load(open(os.path.join(H, "MANIFEST.json")))
try:
    jsonschema.validate(man, ms); print("MANIFEST ok:", [c["property_id"] for c in man["checks"]])
except jsonschema.ValidationError as e:
    print("MANIFEST INVALID", e.message); bad += 1
ids = {json.loads(l)["id"] for l in open(os.path.join(H, "properties.jsonl"))}
claimed = {c["property_id"] for c in man["checks"]}; na = {n["property_id"] for n in man.get("not_applicable", [])}
if claimed | na != ids or claimed & na:
    print("claimed/not_applicable do not partition the properties:", sorted(ids - claimed - na), sorted(claimed & na)); bad += 1
for c in man["checks"]:
    f = os.path.join(H, c["evidence_file"])
    if not os.path.exists(f):
        print("missing evidence", f); bad += 1; continue
    ev = json.load(open(f))
    try:
        jsonschema.validate(ev, es)
        cov = ev["coverage"]
        print(f"{c['property_id']} ok tier={ev['tier']} evals={cov.get('evaluations')} distinct={cov.get('distinct_nontrivial')} samples={len(cov.get('samples', []))} verdict={cov.get('verdict')} wall={ev['wall_s']}")
    except jsonschema.ValidationError as e:
        print("EVIDENCE INVALID", f, e.message); bad += 1
sys.exit(1 if bad else 0)
