#!/venv/bin/python
"""regenerates /verif/MANIFEST.json from the checks that exist in vf/props (run from /verif)."""
import json, os, glob
HERE = os.path.dirname(os.path.dirname(os.path.abspath(__file__)))
META = json.load(open(os.path.join(HERE, "tools", "checks_meta.json")))
props = [json.loads(l) for l in open(os.path.join(HERE, "properties.jsonl"))]
have = {os.path.basename(p)[:-3].upper() for p in glob.glob(os.path.join(HERE, "vf", "props", "c[0-9][0-9].py"))}
checks, na = [], []
for p in props:
    pid = p["id"]
    m = META.get(pid, {})
    if pid in have and pid in META and m.get("claimed", True):
        checks.append({
            "property_id": pid,
            "quick_cmd": f"./check {pid} --tier quick",
            "thorough_cmd": f"./check {pid} --tier thorough",
            "evidence_file": f"evidence/{pid}.json",
            "replay_cmd_template": f"./check {pid} --replay {{path}}",
            "engine": "vf",
            "level_claimed": {"category": "exploration", "text": m.get("text", ""), "design_ref": m.get("design_ref", f"DESIGN.md section 2, {pid}")},
            "level_note": m.get("note", ""),
            "technique": m.get("technique", "runtime monitoring: reference-model oracle over observed executions"),
        })
    else:
        na.append({"property_id": pid, "reason": m.get("na_reason", "check not built yet in this framework (work in progress); no claim is made")})
man = {
    "version": 1,
    "setup_cmd": "/venv/bin/pip install -q --no-index --find-links /opt/veriftools/wheels --target .deps icontract || true",
    "hooks": {"guard": "UNYT_VERIF", "enable": "no hooks are needed: all taps and contracts are attached from the harness at run time; checks import unyt from /repo's working tree",
              "baseline_off_cmd": "cd /repo && /venv/bin/python -m pytest -ra -q -p no:cacheprovider --timeout=900 --continue-on-collection-errors",
              "source_commits": [], "add_only": True},
    "engines": [{"name": "vf", "path": "vf/", "serves_properties": [c["property_id"] for c in checks],
                 "kind_free_text": "Python runtime-monitoring harness: forks one child per case batch from a pristine import of /repo's unyt, drives generated/enumerated workloads through the real API, and judges recorded outcomes with independent reference models (vf/ref), snapshot contracts and history models"}],
    "checks": checks,
    "notes": "All verdicts are 'held on the executions observed'. Known genuine defects are listed in KNOWN_FINDINGS.txt and printed as KNOWN-FINDING lines; repaired ones are 'fixed:' lines there and the fix: commits in /repo.",
    "not_applicable": na,
}
json.dump(man, open(os.path.join(HERE, "MANIFEST.json"), "w"), indent=1)
print("checks:", [c["property_id"] for c in checks], "not claimed:", [n["property_id"] for n in na])
