#!/bin/bash
# usage: vet_and_run.sh <PID> <tag>   - vets /tmp/seedout-<PID>-<tag>, keeps it as seeded/<PID>-<next>, runs the property's quick check against it
pid=$1; tag=$2
cd /verif
n=$(ls -d seeded/$pid-* seeded/stale/$pid-* 2>/dev/null | sed 's/.*-//' | sort -n | tail -1); n=$((n+1))
name=$pid-$n
mkdir -p /tmp/r6
{
  /venv/bin/python tools/vet_seed.py /tmp/seedout-$pid-$tag $name
  if [ -f seeded/$name/meta.json ]; then
     git -C /repo worktree remove --force /tmp/seedwt-$pid-$tag 2>/dev/null
     VERIF_NPROC=${VERIF_NPROC:-8} /venv/bin/python tools/run_seeds.py --jobs 1 $name
  fi
} > /tmp/r6/$pid.log 2>&1
tail -3 /tmp/r6/$pid.log
