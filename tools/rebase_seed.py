#!/venv/bin/python
"""rebase a stale seeded patch onto /repo HEAD: apply it at the commit it was vetted on, commit, cherry-pick onto HEAD;
if that is clean, rewrite patch.diff (keeping patch.orig.diff) and re-vet (demo passes on HEAD, fails with patch, baseline ok).
usage: rebase_seed.py C01-1 [...]"""
import json, os, shutil, subprocess, sys, tempfile
def sh(*a, **k): return subprocess.run(a, capture_output=True, text=True, **k)
for name in sys.argv[1:]:
    d = f"/verif/seeded/{name}"; meta = json.load(open(d + "/meta.json"))
    base = meta.get("vetted", {}).get("repo_head")
    wt = tempfile.mkdtemp(prefix="rb-", dir="/tmp"); os.rmdir(wt)
    try:
        src = d + "/patch.orig.diff" if os.path.exists(d + "/patch.orig.diff") else d + "/patch.diff"
        r = sh("git", "-C", "/repo", "worktree", "add", "-q", "--detach", wt, base); assert r.returncode == 0, r.stderr
        r = sh("git", "-C", wt, "apply", src)
        if r.returncode: print(name, "does not apply at its own base", base); continue
        sh("git", "-C", wt, "commit", "-qam", "seed")
        seed = sh("git", "-C", wt, "rev-parse", "HEAD").stdout.strip()
        head = sh("git", "-C", "/repo", "rev-parse", "HEAD").stdout.strip()
        sh("git", "-C", wt, "checkout", "-q", "--detach", head)
        r = sh("git", "-C", wt, "cherry-pick", "-n", seed)
        if r.returncode:
            print(name, "CONFLICT", r.stderr.strip().splitlines()[-1][:150]); continue
        diff = sh("git", "-C", wt, "diff", "HEAD").stdout
        env = dict(os.environ, PYTHONPATH=wt, PYTHONDONTWRITEBYTECODE="1")
        r1 = sh("/venv/bin/python", d + "/demo.py", env=env, cwd="/tmp", timeout=900)
        sh("git", "-C", wt, "stash", "-q"); r0 = sh("/venv/bin/python", d + "/demo.py", env=env, cwd="/tmp", timeout=900); sh("git", "-C", wt, "stash", "drop", "-q")
        sh("git", "-C", wt, "checkout", "-q", "."); sh("git", "-C", wt, "apply", "-"  , input=diff)
        rb = sh("/verif/tools/run_baseline.py", wt, timeout=3000)
        ok = r0.returncode == 0 and r1.returncode == 1 and "SUITE-STILL-PASSES" in rb.stdout
        print(name, "REBASED-OK" if ok else f"REBASED-BUT-NOT-VALID pristine={r0.returncode} patched={r1.returncode} baseline={rb.stdout.strip().splitlines()[-1][:50]}")
        if ok:
            if not os.path.exists(d + "/patch.orig.diff"): shutil.copy(d + "/patch.diff", d + "/patch.orig.diff")
            open(d + "/patch.diff", "w").write(diff)
            meta.setdefault("rebased", []).append({"onto": head[:7], "from": base})
            meta["vetted"]["repo_head"] = head[:7]
            json.dump(meta, open(d + "/meta.json", "w"), indent=1, ensure_ascii=False)
    finally:
        sh("git", "-C", "/repo", "worktree", "remove", "--force", wt); shutil.rmtree(wt, ignore_errors=True)
